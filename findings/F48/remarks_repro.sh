#!/bin/bash
# remarks_repro.sh <worktree> : reproduces, on the UNMODIFIED tree's release binary, the
# behaviours listed under "REMARKS ABOUT THE UNMODIFIED TREE". Uses work/mkjournal.py (a minimal
# .journal writer) that sits next to this script. Needs journalctl, gzip, bzip2, xz; R3 needs root.
WT="${1:?usage: remarks_repro.sh <worktree>}"; S4="$WT/target/release/s4"
HERE="$(cd "$(dirname "$0")" && pwd)"; T="$(mktemp -d)"; trap 'rm -rf "$T"' EXIT; cd "$T"
python3 - "$HERE/work" <<'PY'
import sys; sys.path.insert(0, sys.argv[1])
from mkjournal import write_journal
base=1700000000000000; BOOT=b"_BOOT_ID=0f1e2d3c4b5a69788796a5b4c3d2e1f0"
def ent(i, extra): return dict(realtime=base+i*1000001, monotonic=5000000+i*1000001, fields=extra+[b"PRIORITY=6", b"SYSLOG_IDENTIFIER=app", b"_PID=%d"%(100+i), BOOT, b"_HOSTNAME=testhost"])
write_journal('r1.journal',[ent(0,[b"MESSAGE=short message 0"]), ent(1,[b"MESSAGE="+b"A"*600, b"STACK_TRACE="+b"B"*900, b"CODE_FUNC=f"]), ent(2,[b"MESSAGE=short message 2"])], compress_min=512)
write_journal('r4.journal',[ent(0,[b"MESSAGE=many"]+[b"F%03d=v%d"%(k,k) for k in range(250)]), ent(1,[b"MESSAGE=after"])])
write_journal('r3.journal',[ent(i,[b"MESSAGE=hello %d"%i]) for i in range(3)])
PY
echo "== R1: entry with two XZ-compressed fields: short-iso and verbose (journalctl first, then s4)"
journalctl --file=r1.journal -o short-iso --utc --no-pager -q | cut -c1-80
"$S4" --color=never --journal-output=short-iso r1.journal | cat -v | cut -c1-80
"$S4" --color=never --journal-output=verbose r1.journal | grep -a -c 'MESSAGE=AAAA' | sed 's/^/s4 verbose lines with MESSAGE=AAAA...: /'
echo "== R2: multi-member .gz / multi-stream .bz2 .xz of a journal"
J="$WT/logs/Ubuntu16/6c6ab73d82464b9493892c81fc732b3a/system.journal"; sz=$(stat -c %s "$J"); h=$((sz/2))
head -c $h "$J" > p1; tail -c +$((h+1)) "$J" > p2
(gzip -c p1; gzip -c p2) > m.journal.gz; (bzip2 -c p1; bzip2 -c p2) > m.journal.bz2; (xz -c p1; xz -c p2) > m.journal.xz
gzip -dc m.journal.gz | cmp - "$J" && echo "gzip -dc m.journal.gz is byte-identical to the plain journal"
echo "plain: $("$S4" --color=never --journal-output=cat "$J" | wc -l) lines"
for g in m.journal.gz m.journal.bz2 m.journal.xz; do echo "$g: $("$S4" --color=never --journal-output=cat $g 2>/dev/null | wc -l) lines; $("$S4" --color=never --journal-output=cat $g 2>&1 >/dev/null | head -1 | cut -c1-120)"; done
echo "== R3: machine without a readable boot id (root only)"
unshare -m sh -c "mount --bind /dev/null /proc/sys/kernel/random/boot_id && { echo s4:; '$S4' --color=never --journal-output=export r3.journal | head -3; '$S4' --color=never --journal-output=short-monotonic r3.journal | head -1; echo journalctl:; journalctl --file=r3.journal -o export --no-pager -q | head -3; journalctl --file=r3.journal -o short-monotonic --no-pager -q | head -1; }" 2>&1
echo "== R4: entry with 250 user fields: fields F### printed by journalctl / s4 export"
echo "journalctl: $(journalctl --file=r4.journal -o export --no-pager -q | sed -n '1,/^$/p' | grep -c '^F[0-9]')  s4: $("$S4" --color=never --journal-output=export r4.journal | sed -n '1,/^$/p' | grep -c '^F[0-9]')"
