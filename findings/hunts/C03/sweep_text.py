#!/usr/bin/env python3
"""Sweep -a/-b windows over generated text logs; oracle = python datetime."""
import subprocess, sys, os, random, gzip, lzma, bz2, tarfile, itertools
from datetime import datetime, timedelta, timezone

S4 = "/tmp/wt/C03/target/release/s4"
W = "/tmp/seedout/C03/work/t"
os.makedirs(W, exist_ok=True)
UTC = timezone.utc

def fmt_line(t):
    return t.strftime("%Y-%m-%dT%H:%M:%S.%f+00:00")

def fmt_arg(t):
    return t.strftime("%Y-%m-%dT%H:%M:%S.%f+00:00")

def gen(n, seed, pad, step_choices):
    rnd = random.Random(seed)
    t = datetime(2024, 3, 5, 12, 0, 0, 0, tzinfo=UTC)
    msgs = []
    for i in range(n):
        t = t + timedelta(microseconds=rnd.choice(step_choices))
        body = "m%04d " % i + "x" * rnd.randint(0, pad)
        # occasionally multi-line
        if rnd.random() < 0.15:
            body += "\n  continuation of %04d" % i
        msgs.append((t, fmt_line(t) + " " + body + "\n"))
    return msgs

def run(path, a, b, blocksz):
    cmd = [S4, "--color=never", "--blocksz", str(blocksz), "-t", "+00:00"]
    if a is not None:
        cmd += ["-a", fmt_arg(a)]
    if b is not None:
        cmd += ["-b", fmt_arg(b)]
    cmd.append(path)
    p = subprocess.run(cmd, capture_output=True)
    return p.returncode, p.stdout, p.stderr, cmd

def expected(msgs, a, b):
    out = b""
    for t, s in msgs:
        if (a is None or a <= t) and (b is None or t <= b):
            out += s.encode()
    return out

def main():
    nfail = 0
    ncase = 0
    configs = [
        (40, 1, 30, [0, 0, 1, 1000, 500000, 1000000, 3000000]),
        (200, 2, 60, [0, 1000, 1000000, 60000000]),
        (25, 3, 5, [0, 0, 0, 1000000]),
    ]
    for (n, seed, pad, steps) in configs:
        msgs = gen(n, seed, pad, steps)
        data = "".join(s for _, s in msgs).encode()
        base = os.path.join(W, "g%d" % seed)
        paths = {}
        p = base + ".log"; open(p, "wb").write(data); paths["plain"] = p
        p = base + ".log.gz"; open(p, "wb").write(gzip.compress(data)); paths["gz"] = p
        p = base + ".log.xz"; open(p, "wb").write(lzma.compress(data)); paths["xz"] = p
        p = base + ".log.bz2"; open(p, "wb").write(bz2.compress(data)); paths["bz2"] = p
        p = base + ".tar"
        with tarfile.open(p, "w") as tf:
            tf.add(paths["plain"], arcname="g.log")
        paths["tar"] = p
        instants = sorted(set(t for t, _ in msgs))
        cands = [None, instants[0] - timedelta(seconds=5), instants[-1] + timedelta(seconds=5)]
        rnd = random.Random(seed + 100)
        pick = instants if len(instants) <= 12 else ([instants[0], instants[1], instants[-1], instants[-2]] + rnd.sample(instants, 8))
        for t in pick:
            cands += [t, t - timedelta(microseconds=1), t + timedelta(microseconds=1), t + timedelta(milliseconds=1)]
        cands_nn = sorted(set(c for c in cands if c is not None))
        cands = [None] + cands_nn
        pairs = []
        for a in cands:
            for b in cands:
                if a is not None and b is not None and a > b:
                    continue
                pairs.append((a, b))
        if len(pairs) > 400:
            pairs = rnd.sample(pairs, 400) + [(c, c) for c in cands_nn[:40]]
        for kind, path in paths.items():
            bszs = [64, 128, 256, 0x10000] if kind != "tar" else [512, 0x10000]
            for bsz in bszs:
                for (a, b) in pairs:
                    ncase += 1
                    rc, out, err, cmd = run(path, a, b, bsz)
                    exp = expected(msgs, a, b)
                    if out != exp or rc not in (0,):
                        # rc may be 1 when nothing printed? record
                        if out == exp and exp == b"" :
                            tag = "RC"
                        else:
                            tag = "OUT"
                        nfail += 1
                        if nfail <= 40:
                            print("FAIL", tag, kind, bsz, "rc", rc, " ".join(cmd))
                            print("   exp lines", exp.count(b"\n"), "got lines", out.count(b"\n"), "err", err[:200])
    print("cases", ncase, "fail", nfail)

main()
