import subprocess, sys, random
from datetime import datetime, timedelta, timezone
S4="/tmp/wt/C03/target/release/s4"; UTC=timezone.utc
def run(p,a,b):
    cmd=[S4,"--color=never","-t","+00:00","-u","-d","%s.%6f","--separator","\\n"]
    if a is not None: cmd+=["-a",a]
    if b is not None: cmd+=["-b",b]
    cmd.append(p); r=subprocess.run(cmd,capture_output=True); return r.returncode,r.stdout,cmd
def items(out):
    res=[]
    for ln in out.split(b"\n"):
        h=ln.split(b":",1)[0]
        try:
            s,u=h.split(b"."); res.append((int(s)*1000000+int(u),ln))
        except Exception: pass
    return res
def f(us):
    t=datetime.fromtimestamp(us//1000000,UTC); return t.strftime("%Y-%m-%dT%H:%M:%S")+".%06d+00:00"%(us%1000000)
for p in sys.argv[1:]:
    rc,out,_=run(p,None,None); it=items(out)
    if not it: print(p,"no items rc",rc); continue
    inst=sorted(set(t for t,_ in it)); rnd=random.Random(1)
    c=[inst[0]-1,inst[-1]+1]
    for t in [inst[0],inst[-1]]+rnd.sample(inst,min(5,len(inst))): c+=[t,t-1,t+1]
    c=sorted(set(c)); pairs=[(a,b) for a in [None]+c for b in [None]+c if not(a and b and a>b)]
    pairs=rnd.sample(pairs,min(30,len(pairs))); nf=0
    for a,b in pairs:
        rc,o,cmd=run(p,f(a) if a else None,f(b) if b else None)
        got=[x[1] for x in items(o)]; exp=[l for t,l in it if (a is None or a<=t) and (b is None or t<=b)]
        if got!=exp or rc!=0:
            nf+=1
            if nf<3: print(" FAIL rc",rc," ".join(cmd),len(exp),len(got))
    print(p,"items",len(it),"sorted",all(it[i][0]<=it[i+1][0] for i in range(len(it)-1)),"pairs",len(pairs),"fail",nf)
