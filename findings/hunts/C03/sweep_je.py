#!/usr/bin/env python3
"""Window sweep over sample journal (short-unix => usec epoch) and evtx (SystemTime) files."""
import subprocess, re, sys, random
from datetime import datetime, timedelta, timezone
S4 = "/tmp/wt/C03/target/release/s4"
UTC = timezone.utc
L = "/tmp/wt/C03/logs/programs/"

def fmt(t): return t.strftime("%Y-%m-%dT%H:%M:%S.%f+00:00")

def run(path, a, b, extra):
    cmd = [S4, "--color=never", "-t", "+00:00"] + extra
    if a: cmd += ["-a", fmt(a)]
    if b: cmd += ["-b", fmt(b)]
    cmd.append(path)
    p = subprocess.run(cmd, capture_output=True)
    return p.returncode, p.stdout.decode("utf8", "replace"), p.stderr.decode("utf8", "replace"), cmd

def journal_items(out):
    items = []
    for ln in out.splitlines():
        m = re.match(r"^(\d+)\.(\d{6}) ", ln)
        if m:
            items.append((datetime.fromtimestamp(int(m.group(1)), UTC) + timedelta(microseconds=int(m.group(2))), ln))
    return items

def evtx_items(out):
    items = []
    # split on <Event
    parts = re.split(r"(?=<\?xml )", out)
    for p in parts:
        m = re.search(r'SystemTime="(\d{4})-(\d\d)-(\d\d)T(\d\d):(\d\d):(\d\d)\.(\d+)Z"', p)
        if m:
            g = m.groups()
            us = int((g[6] + "000000")[:6])
            items.append((datetime(int(g[0]), int(g[1]), int(g[2]), int(g[3]), int(g[4]), int(g[5]), us, tzinfo=UTC), p))
    return items

def sweep(path, extra, parse, npairs=60):
    rc, out, err, cmd = run(path, None, None, extra)
    items = parse(out)
    print(path, "items", len(items), "rc", rc)
    if not items:
        print(out[:300], err[:300]); return
    inst = sorted(set(t for t, _ in items))
    nondecr = all(items[i][0] <= items[i+1][0] for i in range(len(items)-1))
    print("  unwindowed non-decreasing:", nondecr)
    rnd = random.Random(7)
    pick = [inst[0], inst[-1]] + rnd.sample(inst, min(10, len(inst)))
    cands = [inst[0] - timedelta(seconds=1), inst[-1] + timedelta(seconds=1)]
    for t in pick:
        cands += [t, t - timedelta(microseconds=1), t + timedelta(microseconds=1)]
    cands = sorted(set(cands))
    pairs = [(a, b) for a in [None] + cands for b in [None] + cands if not (a and b and a > b)]
    pairs = rnd.sample(pairs, min(npairs, len(pairs))) + [(c, c) for c in pick[:4]]
    nf = 0
    for a, b in pairs:
        rc, o, err, cmd = run(path, a, b, extra)
        got = [x[1] for x in parse(o)]
        exp = [s for t, s in items if (a is None or a <= t) and (b is None or t <= b)]
        if got != exp or rc != 0:
            nf += 1
            if nf < 6:
                print("  FAIL rc", rc, " ".join(cmd), "exp", len(exp), "got", len(got), err[:200])
    print("  pairs", len(pairs), "fail", nf)

which = sys.argv[1]
if which == "journal":
    for f in ("journal/Ubuntu22-user-1000.journal", "journal/RHE_91_system.journal.gz", "journal/CentOS_7_system.journal"):
        sweep(L + f, ["--journal-output=short-unix"], journal_items)
else:
    for f in ("evtx/Microsoft-Windows-Kernel-PnP%4Configuration.evtx", "evtx/Microsoft-Windows-Kernel-PnP%4Configuration.evtx.gz"):
        sweep(L + f, [], evtx_items)
