import subprocess, os, gzip, random
from datetime import datetime, timedelta, timezone
S4="/tmp/wt/C03/target/release/s4"; UTC=timezone.utc
d="/tmp/seedout/C03/work/y"
os.makedirs(d, exist_ok=True)
t=datetime(2025,12,20,0,0,0,tzinfo=UTC); msgs=[]; i=0
while t<datetime(2026,1,10,12,0,0,tzinfo=UTC):
    msgs.append((t,"%s %2d %s host prog[%d]: message number %04d\n"%(t.strftime("%b"),t.day,t.strftime("%H:%M:%S"),i,i)))
    t+=timedelta(hours=6); i+=1
    if i%7==0: msgs.append(msgs[-1])  # tie
data="".join(s for _,s in msgs).encode()
p1=d+"/roll2.log"; open(p1,"wb").write(data)
p2=d+"/roll2.log.gz"; open(p2,"wb").write(gzip.compress(data))
ts=datetime(2026,1,10,12,0,0,tzinfo=UTC).timestamp()
os.utime(p1,(ts,ts)); os.utime(p2,(ts,ts))
inst=sorted(set(t for t,_ in msgs)); rnd=random.Random(3)
c=[None, inst[0]-timedelta(hours=1), inst[-1]+timedelta(hours=1)]
for t in [inst[0],inst[-1],inst[47],inst[48],inst[49]]+rnd.sample(inst,6): c+= [t,t-timedelta(seconds=1),t+timedelta(seconds=1)]
cn=sorted(set(x for x in c if x)); pairs=[(a,b) for a in [None]+cn for b in [None]+cn if not(a and b and a>b)]
pairs=rnd.sample(pairs,70)+[(x,x) for x in cn[:8]]
f=lambda t:t.strftime("%Y-%m-%dT%H:%M:%S+00:00"); nf=0;n=0
for p in (p1,p2):
  for bsz in (64,300,65536):
    for a,b in pairs:
        cmd=[S4,"--color=never","-t","+00:00","--blocksz",str(bsz)]
        if a: cmd+=["-a",f(a)]
        if b: cmd+=["-b",f(b)]
        cmd.append(p); r=subprocess.run(cmd,capture_output=True); n+=1
        exp="".join(s for t,s in msgs if (a is None or a<=t) and (b is None or t<=b)).encode()
        if r.stdout!=exp or r.returncode!=0:
            nf+=1
            if nf<8: print("FAIL rc",r.returncode," ".join(cmd),"exp",exp.count(b"\n"),"got",r.stdout.count(b"\n"),r.stdout[:90],r.stderr[:150])
print("cases",n,"fail",nf)
