#!/usr/bin/env python3
"""Sweep -a / -b notations against a 15-minute-grid file (+ sub-second lines)."""
import subprocess, os
from datetime import datetime, timedelta, timezone
S4 = "/tmp/wt/C03/target/release/s4"
W = "/tmp/seedout/C03/work/n"; os.makedirs(W, exist_ok=True)
UTC = timezone.utc
msgs = []
t = datetime(2024, 3, 3, 0, 0, 0, tzinfo=UTC)
while t <= datetime(2024, 3, 8, 0, 0, 0, tzinfo=UTC):
    msgs.append(t)
    for us in (1, 499000, 499999, 500000, 500001, 501000, 999999):
        if t.minute == 0:
            msgs.append(t + timedelta(microseconds=us))
    t += timedelta(minutes=15)
msgs.sort()
lines = [(m, m.strftime("%Y-%m-%dT%H:%M:%S.%f+00:00") + " msg %d\n" % i) for i, m in enumerate(msgs)]
path = os.path.join(W, "grid.log")
open(path, "w").write("".join(l for _, l in lines))

def run(opt, val, tzopt):
    cmd = [S4, "--color=never", "-t=" + tzopt, opt + "=" + val, path] if val.startswith("-") else [S4, "--color=never", "-t=" + tzopt, opt, val, path]
    p = subprocess.run(cmd, capture_output=True)
    return p.returncode, p.stdout.decode(), p.stderr.decode(), cmd

tzs = {  # suffix -> offset minutes (None = use -t)
    "": None, "+01:00": 60, "-05:30": -330, "+0100": 60, "-0530": -330, "+01": 60, "-05": -300,
    "Z": 0, "z": 0, "UTC": 0, "PST": -480, "PDT": -420, "EDT": -240, "EST": -300, "CET": 60, "JST": 540, "WITA": 480, "ACDT": 630, "NZDT": 780,
    "+00:00": 0, "+13:45": 825, "-12:00": -720, "+14:00": 840,
}
bases = [("%Y%m%dT%H%M%S", ["", " "]), ("%Y-%m-%d %H:%M:%S", ["", " "]), ("%Y-%m-%dT%H:%M:%S", ["", " "]), ("%Y/%m/%d %H:%M:%S", ["", " "])]
fracs = [("", 0), (".000", 0), (".500", 500000), (".499999", 499999), (".500001", 500001), (".001", 1000), (".999", 999000), (".999999", 999999)]
wall = datetime(2024, 3, 5, 12, 0, 0)
nfail = 0; n = 0
results = {}
for tzopt, tzopt_min in (("+00:00", 0), ("-08:00", -480), ("+05:30", 330)):
    for base, seps in bases:
        for frac, us in fracs:
            for tzs_, offmin in tzs.items():
                for sep in (seps if tzs_ else [""]):
                    val = wall.strftime(base) + frac + sep + tzs_
                    off = offmin if offmin is not None else tzopt_min
                    inst = (wall + timedelta(microseconds=us) - timedelta(minutes=off)).replace(tzinfo=UTC)
                    for opt in ("-a", "-b"):
                        n += 1
                        rc, out, err, cmd = run(opt, val, tzopt)
                        if opt == "-a":
                            exp = "".join(l for m, l in lines if m >= inst)
                        else:
                            exp = "".join(l for m, l in lines if m <= inst)
                        if out != exp:
                            nfail += 1
                            key = (base, frac != "", sep, tzs_, opt, rc)
                            if key not in results:
                                results[key] = 1
                                got = out.splitlines()
                                first = got[0] if got else None; last = got[-1] if got else None
                                print("FAIL rc=%d" % rc, cmd[1:-1], "expected instant", inst.isoformat(), "| got first", first, "| last", last, "|", err.strip()[:120])
    # date-only
    for val, d in (("20240305", datetime(2024, 3, 5)), ("2024-03-05", datetime(2024, 3, 5)), ("2024/03/05", datetime(2024, 3, 5))):
        inst = (d - timedelta(minutes=tzopt_min)).replace(tzinfo=UTC)
        for opt in ("-a", "-b"):
            n += 1
            rc, out, err, cmd = run(opt, val, tzopt)
            exp = "".join(l for m, l in lines if (m >= inst if opt == "-a" else m <= inst))
            if out != exp:
                nfail += 1; print("FAIL date-only", cmd[1:-1], rc, out[:80], err[:100])
    # epoch
    inst = datetime(2024, 3, 5, 12, 0, 0, tzinfo=UTC)
    for opt in ("-a", "-b"):
        n += 1
        rc, out, err, cmd = run(opt, "+%d" % int(inst.timestamp()), tzopt)
        exp = "".join(l for m, l in lines if (m >= inst if opt == "-a" else m <= inst))
        if out != exp:
            nfail += 1; print("FAIL epoch", cmd[1:-1], rc, out[:80], err[:100])
print("cases", n, "fail", nfail)
