#!/usr/bin/env python3
"""Sweep -a/-b windows over generated linux x86_64 utmpx (wtmp) in any order."""
import subprocess, os, random, struct, re, gzip, sys
from datetime import datetime, timedelta, timezone
S4 = "/tmp/wt/C03/target/release/s4"
W = "/tmp/seedout/C03/work/u"
os.makedirs(W, exist_ok=True)
UTC = timezone.utc

def rec(i, sec, usec):
    user = ("u%05d" % i).encode()
    return struct.pack("<hxxi32s4s32s256shhiii4i20s", 7, 1000 + i, b"pts/1", b"ts/1", user, b"host",
                       0, 0, 0, sec, usec, 0, 0, 0, 0, b"")

def fmt_arg(t):
    return t.strftime("%Y-%m-%dT%H:%M:%S.%f+00:00")

def run(path, a, b, bsz):
    cmd = [S4, "--color=never", "--blocksz", str(bsz), "-t", "+00:00"]
    if a is not None: cmd += ["-a", fmt_arg(a)]
    if b is not None: cmd += ["-b", fmt_arg(b)]
    cmd.append(path)
    p = subprocess.run(cmd, capture_output=True)
    ids = [int(x) for x in re.findall(rb"u(\d{5})", p.stdout)]
    return p.returncode, ids, p.stderr, cmd, p.stdout

def main():
    seed = int(sys.argv[1]) if len(sys.argv) > 1 else 1
    rnd = random.Random(seed)
    base = datetime(2024, 3, 5, 12, 0, 0, tzinfo=UTC)
    n = 40
    ents = []
    for i in range(n):
        off_us = rnd.choice([0, 1, 999999, 500000, 250000]) + 1000000 * rnd.randint(0, 12)
        ents.append((i, base + timedelta(microseconds=off_us)))
    if seed % 2 == 0:
        ents.sort(key=lambda e: e[1])   # chronological
        ents = [(k, t) for k, (_, t) in enumerate(ents)]
    data = b"".join(rec(i, int(t.timestamp()), t.microsecond) for i, t in ents)
    assert len(data) == 384 * n
    d = os.path.join(W, "s%d" % seed); os.makedirs(d, exist_ok=True)
    p1 = os.path.join(d, "wtmp"); open(p1, "wb").write(data)
    p2 = os.path.join(d, "wtmp.gz"); open(p2, "wb").write(gzip.compress(data))
    nfail = 0; ncase = 0
    for path in (p1, p2):
        for bsz in (64, 384, 512, 65536):
            rc, base_ids, err, cmd, out = run(path, None, None, bsz)
            tmap = dict(ents)
            # expectation for order without window
            exp_all = [i for i, t in sorted(ents, key=lambda e: (e[1], e[0]))]
            if base_ids != exp_all:
                print("NOWINDOW order differs from sorted", path, bsz, base_ids[:10], exp_all[:10])
            inst = sorted(set(t for _, t in ents))
            cands = [None, inst[0] - timedelta(seconds=1), inst[-1] + timedelta(seconds=1)]
            for t in inst:
                cands += [t, t - timedelta(microseconds=1), t + timedelta(microseconds=1)]
            cn = sorted(set(c for c in cands if c))
            pairs = [(a, b) for a in [None] + cn for b in [None] + cn if not (a and b and a > b)]
            if len(pairs) > 250:
                pairs = rnd.sample(pairs, 250) + [(c, c) for c in cn]
            for a, b in pairs:
                ncase += 1
                rc, ids, err, cmd, out = run(path, a, b, bsz)
                exp = [i for i in base_ids if (a is None or a <= tmap[i]) and (b is None or tmap[i] <= b)]
                if ids != exp or rc != 0:
                    nfail += 1
                    if nfail < 15:
                        print("FAIL rc", rc, " ".join(cmd)); print("  exp", exp[:12], "got", ids[:12], err[:200])
    print("cases", ncase, "fail", nfail)
main()
