import tarfile, io, subprocess, re
S4="/tmp/wt/C16/target/release/s4"
data=b"2023-01-02T03:04:05 hello\n"
for fmt,fn in ((tarfile.GNU_FORMAT,"gnu"),(tarfile.PAX_FORMAT,"pax")):
    n = "/".join(["d%03d" % i for i in range(1100)]) + "/syslog"
    T = "/tmp/seedout/C16/work/deep_%s.tar" % fn
    with tarfile.open(T, "w", format=fmt) as tf:
        ti = tarfile.TarInfo(n); ti.size=len(data); tf.addfile(ti, io.BytesIO(data))
    p = subprocess.run([S4, "-s", "--color=never", T], stdout=subprocess.PIPE, stderr=subprocess.STDOUT)
    out = p.stdout.decode("utf-8","replace")
    print(fn, len(n), p.returncode, re.findall(r"filetype\s+: (.*)", out), [l[:160] for l in out.splitlines() if "too long" in l][:2], out.count("2023-01-02T03:04:05 hello"))
