#!/usr/bin/env python3
# compare classification in directory-walk mode vs explicit-file mode vs oracle
import sys, os, re, random, subprocess, shutil
sys.path.insert(0, "/tmp/seedout/C16/work")
import sweep
from sweep import oracle, S4
names = sweep.gen()
random.Random(5).shuffle(names)
names = [n for n in names if n.strip(sweep.JUNK)][:6000]
D = "/tmp/seedout/C16/work/dirmode_d"
if os.path.exists(D): shutil.rmtree(D)
os.makedirs(D)
for n in names:
    open(os.path.join(D, n), "w").write("2023-01-02T03:04:05 hello\n")
p = subprocess.run([S4, "-s", "--color=never", D], stdout=subprocess.PIPE, stderr=subprocess.STDOUT)
out = p.stdout.decode("utf-8", "replace")
res = {}
cur = None
for line in out.splitlines():
    if line.startswith("File: "):
        cur = line[6:]
        m = re.match(r"(.*) \((not supported.*|.*)\)$", cur)
        if cur.endswith(")") and " (" in cur and not os.path.exists(cur):
            # e.g. "path (not supported)"
            i = cur.rfind(" (")
            res[os.path.basename(cur[:i])] = cur[i+1:]
            cur = None
            continue
        cur = os.path.basename(cur)
    m = re.match(r"\s+filetype\s+: (.*)$", line)
    if m and cur is not None:
        res[cur] = m.group(1).strip(); cur = None
bad = {}
for n in names:
    e = oracle(n); g = res.get(n)
    if e != g:
        bad.setdefault((e, g), []).append(n)
print("names", len(names), "results", len(res))
for k, v in bad.items():
    print(k, len(v), v[:6])
