#!/usr/bin/env python3
"""C16 sweep: file-name -> reader classification, oracle vs `s4 -s` 'filetype' label."""
import os, sys, subprocess, itertools, random, shutil, re

S4 = "/tmp/wt/C16/target/release/s4"
WORK = "/tmp/seedout/C16/work/sweepdir"
JUNK = "~-,?;."

TYPE = {
    "utmp": "UTMP/WTMP", "wtmp": "UTMP/WTMP", "btmp": "UTMP/WTMP",
    "utmpx": "UTMPX/WTMPX", "wtmpx": "UTMPX/WTMPX", "btmpx": "UTMPX/WTMPX",
    "lastlog": "LASTLOG", "lastlogx": "LASTLOGX",
    "acct": "ACCT", "pacct": "ACCT_V3",
    "journal": "JOURNAL", "evtx": "EVTX",
    "log": "TEXT UTF8/ASCII", "txt": "TEXT UTF8/ASCII", "text": "TEXT UTF8/ASCII",
}
COMP = {"gz": "GZIP", "gzip": "GZIP", "bz2": "BZIP2", "xz": "XZ", "xzip": "XZ", "lz4": "LZMA4"}


def oracle(name, per_component_junk=True):
    """the property as written"""
    n = name.strip(JUNK)
    comps = n.split(".")
    cont = None
    reader = None
    for c in reversed(comps):
        cc = c.strip(JUNK).lower() if per_component_junk else c.lower()
        if cc in COMP:
            if cont is None:
                cont = COMP[cc]
            continue
        if cc in TYPE:
            reader = TYPE[cc]
            break
        # numeric / unrecognised: skipped
    if reader is None:
        reader = "TEXT UTF8/ASCII"
    return reader + (" (%s)" % cont if cont else "")


def run(names, mode="files"):
    """returns dict name -> filetype label"""
    if os.path.exists(WORK):
        shutil.rmtree(WORK)
    os.makedirs(WORK)
    for n in names:
        with open(os.path.join(WORK.encode(), n if isinstance(n, bytes) else n.encode()), "wb") as f:
            f.write(b"2023-01-02T03:04:05 hello\n")
    res = {}
    B = 150
    nl = list(names)
    for i in range(0, len(nl), B):
        batch = nl[i:i + B]
        args = [S4, "-s", "--color=never"] + [os.path.join(WORK, n) for n in batch]
        try:
            p = subprocess.run(args, stdout=subprocess.PIPE, stderr=subprocess.STDOUT, timeout=120)
        except subprocess.TimeoutExpired:
            print("TIMEOUT batch", batch[:3])
            continue
        out = p.stdout.decode("utf-8", "replace")
        if p.returncode not in (0, 1):
            print("EXIT", p.returncode, batch[:3])
        cur = None
        for line in out.splitlines():
            if line.startswith("File: "):
                cur = line[6:]
                if cur.startswith(WORK + "/"):
                    cur = cur[len(WORK) + 1:]
            m = re.match(r"\s+filetype\s+: (.*)$", line)
            if m and cur is not None:
                res[cur] = m.group(1).strip()
                cur = None
    return res


def casevars(w):
    return {w, w.upper(), w.capitalize(), "".join(c.upper() if i % 2 else c for i, c in enumerate(w))}


def gen():
    names = set()
    trail = ["1", "20230101", "old", "2023-01-01", "bak", "0", "20230101120000", "prev", "-1", "orig", "2", "save"]
    trails = [[]] + [[t] for t in trail] + [["1", "old"], ["old", "1"], ["20230101", "bak"], ["1", "2", "3"],
                                               ["old", "bak", "1"], ["20230101", "1", "old"]]
    junks = ["", "~", "-", ",", "?", ";", ".", "~~", ".-", "-~"]
    comps = [None, "gz", "gzip", "bz2", "xz", "xzip", "lz4", "GZ", "Xz", "BZ2", "LZ4", "Gzip", "XZIP"]
    rnd = random.Random(16)
    for w in TYPE:
        for cv in casevars(w):
            for stemmed in (False, True):
                base = ("host-1." + cv) if stemmed else cv
                for tr in trails:
                    for comp in comps:
                        # full product of junk would be huge: all junk prefix with no suffix, all suffix with no prefix, and random pairs
                        jp = [(a, "") for a in junks] + [("", b) for b in junks] + [(rnd.choice(junks), rnd.choice(junks))]
                        for pre, suf in jp:
                            parts = [base] + tr
                            if comp:
                                pos = rnd.choice(["end", "mid"]) if tr else "end"
                                if pos == "end":
                                    parts = parts + [comp]
                                else:
                                    parts = [base, comp] + tr
                            n = pre + ".".join(parts) + suf
                            if rnd.random() < 0.12 or (not tr) or (pre == "" and suf == ""):
                                names.add(n)
    return sorted(names)


if __name__ == "__main__":
    names = gen()
    names = [n for n in names if len(n.encode()) < 250 and n.strip(JUNK)]
    print("names", len(names))
    res = run(names)
    bad = 0
    cats = {}
    for n in names:
        exp = oracle(n)
        got = res.get(n)
        if got != exp:
            bad += 1
            key = (exp, got)
            cats.setdefault(key, []).append(n)
    print("mismatches", bad)
    for k, v in sorted(cats.items(), key=lambda kv: -len(kv[1])):
        print(k, len(v), v[:8])
