#!/usr/bin/env python3
import sys, os
sys.path.insert(0, "/tmp/seedout/C16/work")
import sweep
from sweep import oracle, run, TYPE, COMP

UNP = """7z a aac aux avi bat bin bmp bz c cat class cpp cmd diagpkg dll ear exe flac flv gif h hpp htm html ico jar java jpeg jpg lib m4b m4p m4r m4v mkv mov mp3 mp4 msi mui o ogg opus pl png ps1 psd1 py rb sh so svg sys tif tiff ttf tgz war wav webm webp wma wmv zip""".split()

names = []
# 1. inner junk per component
for w in ["wtmp", "journal", "evtx", "lastlog", "pacct", "utmpx"]:
    for j in "~-,?;":
        names += ["x.%s%s.1" % (j, w), "x.%s%s.1" % (w, j), "x.%s%s" % (j, w), "%s%s.1" % (w, j), "%s%s.gz" % (w, j),
                  "x.%s.%sgz" % (w, j), "x.%s.gz%s.1" % (w, j), "x.%s.%s1" % (w, j), "x.%s.1%s.gz" % (w, j), "x.%s%s.old.gz" % (j, w)]
# 2. components from the 'known unparseable' table used as trailing component
for u in UNP:
    names += ["wtmp." + u, "x.journal." + u, "syslog." + u + ".gz", "wtmp.1." + u]
# 3. double compression
names += ["a.log.gz.xz", "a.log.xz.gz", "wtmp.gz.gz", "wtmp.bz2.1.gz", "x.journal.lz4.xz"]
# 4. empty stems, dots
names += [".gz", ".gz.1", ".wtmp", ".wtmp.gz", ".journal", ".evtx", ".log.gz", "..wtmp", "...wtmp", "..gz", "..1", ".1", ".1.gz", "a..gz", "a..wtmp", "wtmp..1", "wtmp..gz", "wtmp...", "a.wtmp..", ".old", ".xz", ".lz4", ".bz2",
          "wtmp. ", "wtmp .1", "wtmp.1 ", " wtmp", "wtmp.+1", "wtmp.1e3", "wtmp.0x10", "wtmp.١٢", "wtmp.99999999999999999999", "wtmp.-", "x.WTMP.~1~", "x.wtmp.~", "x.wtmp.1.~", "x.wtmp.~.1"]
# 5. very long
names += ["wtmp" + ".1" * 120, "x.journal" + ".old" * 60 + ".gz", "a" * 240 + ".wtmp", "wtmp." + "9" * 240, "x.evtx" + "." * 200, "~" * 200 + "lastlog", "x.pacct" + ".1" * 100 + ".xz"]
# 6. tar names
names += ["wtmp.tar", "x.tar.gz", "x.tgz", "x.tar.1"]
names = sorted(set(n for n in names if len(n.encode()) <= 255))
res = run(names)
for n in names:
    exp = oracle(n)
    got = res.get(n)
    if exp != got:
        print("%-40r exp=%-28s got=%s" % (n if len(n) < 60 else n[:25] + "..." + n[-25:], exp, got))
