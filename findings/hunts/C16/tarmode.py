#!/usr/bin/env python3
# classification of tar member names vs oracle
import sys, os, re, random, subprocess, tarfile, io
sys.path.insert(0, "/tmp/seedout/C16/work")
import sweep
from sweep import oracle, S4
names = sweep.gen()
random.Random(7).shuffle(names)
names = [n for n in names if n.strip(sweep.JUNK)][:3000]
extra = ["sub.wtmp/plain", "sub.journal/x.1", "d.evtx/..gz", "d.wtmp/..1", "a/" + "1."*45 + "wtmp", "wtmp" + ".1"*45, "x.journal" + ".old"*20]
names += extra
T = "/tmp/seedout/C16/work/members.tar"
data = b"2023-01-02T03:04:05 hello\n"
with tarfile.open(T, "w", format=tarfile.GNU_FORMAT) as tf:
    for n in names:
        ti = tarfile.TarInfo("m/" + n if "/" not in n else n); ti.size = len(data)
        tf.addfile(ti, io.BytesIO(data))
p = subprocess.run([S4, "-s", "--color=never", T], stdout=subprocess.PIPE, stderr=subprocess.STDOUT)
out = p.stdout.decode("utf-8", "replace")
open("/tmp/seedout/C16/work/tarmode.out", "w").write(out)
res = {}
cur = None
for line in out.splitlines():
    if line.startswith("File: "):
        cur = line[6:]
        cur = cur.split("|", 1)[1] if "|" in cur else cur
        if cur.startswith("m/"): cur = cur[2:]
        m = re.match(r"^(.*) \((not supported.*)\)$", cur)
        if m:
            res[m.group(1)] = m.group(2); cur = None
        continue
    m = re.match(r"\s+filetype\s+: (.*)$", line)
    if m and cur is not None:
        res[cur] = m.group(1).strip(); cur = None
bad = {}
for n in names:
    e = oracle(os.path.basename(n)); g = res.get(n)
    if "(" in e and "TEXT UTF8/ASCII (" not in e or e.startswith("TEXT UTF8/ASCII ("):
        # compressed member: expect "not supported"
        if g and g.startswith("not supported"): continue
    else:
        if g == e + " (TAR)": continue
    bad.setdefault((e, g), []).append(n)
print("names", len(names), "results", len(res))
for k, v in bad.items():
    print(k, len(v), v[:6])
