#!/usr/bin/env python3
import sys, random
sys.path.insert(0, "/tmp/seedout/C16/work")
import sweep, edge_unp
from sweep import oracle, run, TYPE, COMP, JUNK
UNP = set(edge_unp.UNP)
rnd = random.Random(int(sys.argv[1]) if len(sys.argv) > 1 else 1)
words = list(TYPE) + list(COMP) + ["1", "20230101", "old", "x", "host", "messages", "syslog", "dmesg", "tar", "", "", "0", "log_a", "a_log", "bak", "kernlog", "history", " ", "é", "wtmpx1", "1wtmp", "gz1", "journal2"]
def rc(w):
    r = rnd.random()
    if r < .3: return w.upper()
    if r < .4: return w.capitalize()
    return w
names = set()
while len(names) < 20000:
    k = rnd.randint(1, 5)
    parts = []
    for i in range(k):
        w = rc(rnd.choice(words))
        if rnd.random() < .15: w = w + rnd.choice("~-,?;")
        if rnd.random() < .05: w = rnd.choice("~-,?;") + w
        parts.append(w)
    n = ".".join(parts)
    if rnd.random() < .2: n = rnd.choice(["~", "-", ".", ",", "..", "~.", "-~"]) + n
    if rnd.random() < .2: n = n + rnd.choice(["~", "-", ".", ",", "..", ".~", "-~"])
    if "tar" in n.lower(): 
        if rnd.random() < .9: continue
    if not n.strip(JUNK) or "/" in n or len(n.encode()) > 250: continue
    names.add(n)
names = sorted(names)
res = run(names)
cats = {}
for n in names:
    e = oracle(n); g = res.get(n)
    if e == g: continue
    comps = n.strip(JUNK).split(".")
    low = [c.strip(JUNK).lower() for c in comps]
    cls = []
    if sum(1 for c in low if c in COMP) >= 2: cls.append("multi-compress")
    if any(c and c[0] in JUNK for c in comps[1:]): cls.append("lead-junk-comp")
    if any(c in UNP for c in low): cls.append("unp-table")
    if low[0] == "evtx" or (low[0] == "" and "evtx" in low): cls.append("bare-evtx")
    if low[0] in COMP: cls.append("compress-stem")
    if low[0] == "": cls.append("empty-stem")
    if "tar" in low: cls.append("tar")
    cats.setdefault(tuple(cls), []).append((n, e, g))
for k, v in cats.items():
    print(k, len(v))
    if not k or k == ("empty-stem",):
        for t in v[:40]: print("    ", repr(t[0]), "exp", t[1], "got", t[2])
