import tarfile, io, subprocess, re
S4="/tmp/wt/C16/target/release/s4"
data=b"2023-01-02T03:04:05 hello\n"
cases = {
 "num4096": "wtmp" + ".1"*2046,             # 4096 bytes
 "num4000": "x.journal" + ".1"*1995,
 "unk4090": "lastlog" + ".o1"*1361,
 "dots": "pacct" + "."*4000,
 "junklead": "~"*4000 + "utmpx",
 "over": "wtmp" + ".1"*2047,  # 4098
 "a_s": "wtmp" + ".z"*2046,
}
for k, n in cases.items():
    T = "/tmp/seedout/C16/work/long_%s.tar" % k
    with tarfile.open(T, "w", format=tarfile.GNU_FORMAT) as tf:
        ti = tarfile.TarInfo(n); ti.size=len(data); tf.addfile(ti, io.BytesIO(data))
    p = subprocess.run([S4, "-s", "--color=never", T], stdout=subprocess.PIPE, stderr=subprocess.STDOUT)
    out = p.stdout.decode("utf-8","replace")
    ft = re.findall(r"filetype\s+: (.*)", out)
    errs = [l[:150] for l in out.splitlines() if "ERROR" in l or "rror" in l or "overflow" in l or "(tar member" in l or "File:" in l and "(" in l[-60:]]
    print(k, len(n), "rc", p.returncode, ft, [e[-120:] for e in errs[:3]])
