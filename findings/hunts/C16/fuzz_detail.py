import sys
sys.path.insert(0, "/tmp/seedout/C16/work")
exec(open("/tmp/seedout/C16/work/fuzz.py").read().split("cats = {}")[0])
# a narrower oracle: junk stripped from whole name and from the END of each component only
def oracle_narrow(name):
    n = name.strip(JUNK); comps = n.split("."); cont=None; reader=None
    first = True
    for c in reversed(comps):
        cc = c.rstrip(JUNK).lower()
        if cc in COMP and c is not comps[0]:
            cont = cont or COMP[cc]   # first (rightmost) wins
            continue
        if cc in TYPE:
            reader = TYPE[cc]; break
    return (reader or "TEXT UTF8/ASCII") + (" (%s)" % cont if cont else "")
bad = []
for n in names:
    e = oracle_narrow(n); g = res.get(n)
    if e != g:
        low = [c.strip(JUNK).lower() for c in n.strip(JUNK).split(".")]
        if sum(1 for c in low if c in COMP) >= 2 or low[0] == "evtx" or "tar" in low: continue
        bad.append((n, e, g))
print(len(bad))
for b in bad[:60]: print(b)
