import subprocess, re, datetime as D
from concurrent.futures import ThreadPoolExecutor
S4='/tmp/wt/C14/target/release/s4'; LOG='/tmp/seedout/C14/work/one.log'
RE=re.compile(r'Datetime filter -(a|b)\s*:\s*(\S+ \S+) ([+-]\d\d:\d\d) \((\S+ \S+) \+00:00\)')
cases=[]
for q in range(-12*4,14*4+1):
    secs=q*900; sign='+' if secs>=0 else '-'; a=abs(secs); h=a//3600; m=a%3600//60
    forms=['%s%02d%02d'%(sign,h,m),'%s%02d:%02d'%(sign,h,m)]
    if m==0: forms.append('%s%02d'%(sign,h))
    for f in forms: cases.append((f,secs))
    if secs==0:
        for f in ('-00:00','-0000','-00','Z','z','UTC'): cases.append((f,0))
def run(c):
    tz,secs=c; out=[]
    for val,naive in (('20200102',D.datetime(2020,1,2)),('2020-01-02 23:59:59.999',D.datetime(2020,1,2,23,59,59)),('2020/01/02',D.datetime(2020,1,2)),('20200301T000000',D.datetime(2020,3,1))):
        p=subprocess.run([S4,'--color=never','-s','-t='+tz,'-a='+val,'-b=@+1d',LOG],capture_output=True,text=True)
        ms={m.group(1):m for m in RE.finditer(p.stderr)}
        exp=naive-D.timedelta(seconds=secs)
        if p.returncode!=0 or 'a' not in ms or D.datetime.strptime(ms['a'].group(4),'%Y-%m-%d %H:%M:%S')!=exp or D.datetime.strptime(ms['b'].group(4),'%Y-%m-%d %H:%M:%S')!=exp+D.timedelta(days=1):
            out.append((tz,val,p.returncode,[m.groups() for m in ms.values()],p.stderr[-200:] if p.returncode else ''))
    return out
bad=0
with ThreadPoolExecutor(16) as ex:
    for r in ex.map(run,cases):
        for x in r: bad+=1; print('FAIL',x)
print('done bad',bad,'of',len(cases))
