#!/usr/bin/env python3
# Sweep absolute forms of -a/-b: pattern x fraction x zone spelling x --tz-offset.
# Oracle: python datetime. Probe: a log with lines at E-1us, E, E+1us (UTC);
# `-a X -b X` must print exactly the middle line.
import threading, subprocess, os, sys, itertools, datetime as D, tempfile, re
from concurrent.futures import ThreadPoolExecutor
S4 = '/tmp/wt/C14/target/release/s4'
W = '/tmp/seedout/C14/work/probe'
os.makedirs(W, exist_ok=True)
UTC = D.timezone.utc

def fmt_off(secs, style):
    sign = '+' if secs >= 0 else '-'
    a = abs(secs); h, m = a // 3600, (a % 3600) // 60
    if style == 'z': return f'{sign}{h:02d}{m:02d}'
    if style == ':z': return f'{sign}{h:02d}:{m:02d}'
    if style == '#z': return f'{sign}{h:02d}' if m == 0 else f'{sign}{h:02d}{m:02d}'

def probe_file(E):
    name = os.path.join(W, E.strftime('%Y%m%dT%H%M%S.%f') + '.log')
    if not os.path.exists(name):
        with open(name + '.tmp%d' % threading.get_ident(), 'w') as f:
            for d, tag in ((-1, 'BEFORE'), (0, 'EXACT'), (1, 'AFTER')):
                t = E + D.timedelta(microseconds=d)
                f.write(t.strftime('%Y-%m-%dT%H:%M:%S.%f') + '+00:00 ' + tag + '\n')
        os.rename(name + '.tmp%d' % threading.get_ident(), name)
    return name

def run(case):
    val, tzopt, E = case
    pf = probe_file(E)
    cmd = [S4, '--color=never']
    if tzopt is not None: cmd.append('-t=' + tzopt)
    cmd += ['-a=' + val, '-b=' + val, pf]
    p = subprocess.run(cmd, capture_output=True, text=True)
    tags = [l.split()[-1] for l in p.stdout.splitlines() if l.strip()]
    ok = p.returncode == 0 and tags == ['EXACT']
    return ok, case, p.returncode, tags, p.stderr.strip()[:200], cmd

cases = []
date_parts = [(2020, 1, 2), (2024, 2, 29), (1999, 12, 31), (2021, 3, 14), (2000,1,1)]
time_parts = [(12, 0, 0), (0, 0, 0), (23, 59, 59), (1, 2, 3)]
fracs = [None, '321', '123456', '000', '999999', '000001']
forms = [
    ('%Y%m%dT%H%M%S', ['']),           # zone joined w/o space
    ('%Y-%m-%d %H:%M:%S', [' ']),
    ('%Y-%m-%dT%H:%M:%S', ['', ' ']),
    ('%Y/%m/%d %H:%M:%S', [' ']),
]
named = {'PST': -8*3600, 'EDT': -4*3600, 'JST': 9*3600, 'UTC': 0, 'Z': 0, 'z':0, 'ACWST': 8*3600+45*60,
         'NPT': 5*3600+45*60, 'WET': 0, 'CEST': 7200, 'pst': -8*3600, 'jst': 9*3600, 'NZDT': 13*3600, 'HST': -10*3600,
         'MSK': 3*3600, 'AKDT': -8*3600, 'CHAST': 12*3600+45*60, 'NST': -(3*3600+30*60), 'NDT': -(2*3600+30*60)}
num_offs = [0, 3600, -3600, 5*3600+30*60, -(9*3600+30*60), 14*3600, -12*3600, 12*3600+45*60, -8*3600]
tzopts = [(None, 0), ('+00:00', 0), ('-0800', -8*3600), ('+05:45', 5*3600+45*60), ('+12', 12*3600), ('-03:30', -(3*3600+30*60)), ('EDT', -4*3600), ('+14:00', 14*3600), ('-12', -12*3600)]

import random
random.seed(14)
for (pat, seps) in forms:
    for (y, mo, d) in date_parts:
        for (h, mi, s) in time_parts:
            # thin out: not every combination of date x time
            if random.random() > 0.35: continue
            for fr in fracs:
                base = D.datetime(y, mo, d, h, mi, s).strftime(pat)
                us = 0
                if fr is not None:
                    base += '.' + fr
                    us = int(fr.ljust(6, '0'))
                naive = D.datetime(y, mo, d, h, mi, s, us)
                # zone-less under each tz
                for (tzo, tzsecs) in tzopts:
                    E = (naive - D.timedelta(seconds=tzsecs)).replace(tzinfo=None)
                    cases.append((base, tzo, E))
                # zoned under two tz options (must be ignored)
                for (tzo, _) in [(None, 0), ('-0800', 0), ('+05:45', 0)]:
                    for sep in seps:
                        for off in num_offs:
                            for style in ('z', ':z', '#z'):
                                if random.random() > 0.4: continue
                                E = naive - D.timedelta(seconds=off)
                                cases.append((base + sep + fmt_off(off, style), tzo, E))
                        for nm, off in named.items():
                            if random.random() > 0.4: continue
                            E = naive - D.timedelta(seconds=off)
                            cases.append((base + sep + nm, tzo, E))
# bare dates
for (y, mo, d) in date_parts:
    for pat in ('%Y%m%d', '%Y-%m-%d', '%Y/%m/%d'):
        for (tzo, tzsecs) in tzopts:
            naive = D.datetime(y, mo, d)
            cases.append((naive.strftime(pat), tzo, naive - D.timedelta(seconds=tzsecs)))
# epoch
for ep in (946684800, 0, 1, 1577966400, 1709210096, 2147483647, 2147483648, 4102444800, 86399):
    for (tzo, tzsecs) in tzopts:
        cases.append(('+%d' % ep, tzo, D.datetime(1970, 1, 1) + D.timedelta(seconds=ep)))

print('cases', len(cases), file=sys.stderr)
bad = 0
with ThreadPoolExecutor(16) as ex:
    for ok, case, rc, tags, err, cmd in ex.map(run, cases):
        if not ok:
            bad += 1
            print('FAIL', repr(case[0]), 'tz', case[1], 'expect', case[2], 'rc', rc, 'printed', tags, '|', err)
print('done; bad =', bad, 'of', len(cases))
