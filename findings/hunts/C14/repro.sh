#!/bin/bash
# C14 reproductions
S4=/tmp/wt/C14/target/release/s4
cd /tmp/seedout/C14/work
printf '2020-01-02T12:00:00 hello\n' > one.log
t(){ echo "== s4 $*"; $S4 --color=never -s "$@" one.log 2>&1 | grep "Datetime filter\|ERROR\|panicked\|overflowed"; echo "rc=${PIPESTATUS[0]}"; }
# D1: the --help example for --dt-before is rejected
t -a 20200102 -b "@+1d+11h"
# D2: repeated unit: earlier occurrence silently dropped
t -a 20200102 -b "@+1d2d"
t -a 20200102 -b "@+1h30m15m"
t -a=-2d1d
# D3: panic/abort instead of error message
t -a 20200102 -b "@+9223372036854775s153722867280912m"
# N1: default zone is today's local offset, not the local zone at the given date
TZ=America/New_York t -a 20200102
