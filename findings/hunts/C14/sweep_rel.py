#!/usr/bin/env python3
# Sweep relative forms: every ordered subset of w/d/h/m/s, multi-digit counts, both signs, with/without '@'.
import subprocess, sys, itertools, datetime as D, re, random
from concurrent.futures import ThreadPoolExecutor
S4 = '/tmp/wt/C14/target/release/s4'
LOG = '/tmp/seedout/C14/work/one.log'
MULT = dict(w=7*86400, d=86400, h=3600, m=60, s=1)
random.seed(3)
RE = re.compile(r'Datetime (filter -a|filter -b|Now)\s*:\s*(\d{4}-\d\d-\d\d \d\d:\d\d:\d\d) ([+-]\d\d:\d\d) \((\d{4}-\d\d-\d\d \d\d:\d\d:\d\d) \+00:00\)')

def summ(args):
    p = subprocess.run([S4, '--color=never', '-s'] + args + [LOG], capture_output=True, text=True)
    out = {}
    for m in RE.finditer(p.stderr):
        out[m.group(1)] = (D.datetime.strptime(m.group(4), '%Y-%m-%d %H:%M:%S'), m.group(3))
    return p.returncode, out, p.stderr

cases = []
for k in range(1, 6):
    for perm in itertools.permutations('wdhms', k):
        for sign in '+-':
            counts = [random.choice([0, 1, 7, 12, 59, 60, 100, 365, 1234]) for _ in perm]
            s = ''.join('%d%s' % (c, u) for c, u in zip(counts, perm))
            secs = sum(c * MULT[u] for c, u in zip(counts, perm)) * (1 if sign == '+' else -1)
            cases.append((sign + s, secs))

X = D.datetime(2020, 1, 2, 3, 4, 5)
def run(case):
    rel, secs = case
    res = []
    # 1. now-relative as -a
    rc, o, err = summ(['-a=' + rel])
    if rc != 0 or 'filter -a' not in o or o['filter -a'][0] != o['Now'][0] + D.timedelta(seconds=secs):
        res.append(('now -a', rel, rc, o.get('filter -a'), o.get('Now'), err[-200:] if rc else ''))
    # 2. now-relative as -b with tz offset
    rc, o, err = summ(['-t=-0330', '-b=' + rel])
    if rc != 0 or 'filter -b' not in o or o['filter -b'][0] != o['Now'][0] + D.timedelta(seconds=secs) or o['filter -b'][1] != '-03:30':
        res.append(('now -b', rel, rc, o.get('filter -b'), o.get('Now'), err[-200:] if rc else ''))
    # 3. other-relative
    if secs >= 0:
        args = ['-a=20200102T030405', '-b=@' + rel]; key = 'filter -b'
    else:
        args = ['-b=20200102T030405', '-a=@' + rel]; key = 'filter -a'
    rc, o, err = summ(args)
    if rc != 0 or key not in o or o[key][0] != X + D.timedelta(seconds=secs):
        res.append(('other', rel, rc, o.get(key), X + D.timedelta(seconds=secs), err[-200:] if rc else ''))
    # 3b. equivalence with absolute under tz
    Y = X + D.timedelta(seconds=secs)
    if secs >= 0:
        a1 = ['-t=+0545', '-a=2020-01-02 03:04:05', '-b=@' + rel]; a2 = ['-t=+0545', '-a=2020-01-02 03:04:05', '-b=' + Y.strftime('%Y-%m-%d %H:%M:%S')]
    else:
        a1 = ['-t=+0545', '-b=2020-01-02 03:04:05', '-a=@' + rel]; a2 = ['-t=+0545', '-b=2020-01-02 03:04:05', '-a=' + Y.strftime('%Y-%m-%d %H:%M:%S')]
    r1 = summ(a1); r2 = summ(a2)
    if r1[0] != 0 or r2[0] != 0 or {k: v for k, v in r1[1].items() if k != 'Now'} != {k: v for k, v in r2[1].items() if k != 'Now'}:
        res.append(('equiv', rel, r1[0], r2[0], r1[1], r2[1]))
    # 4. wrong direction must be rejected (after > before) unless zero
    if secs != 0:
        if secs > 0:
            args = ['-b=20200102T030405', '-a=@' + rel]
        else:
            args = ['-a=20200102T030405', '-b=@' + rel]
        p = subprocess.run([S4, '--color=never'] + args + [LOG], capture_output=True, text=True)
        if p.returncode == 0 or p.stdout:
            res.append(('reject', rel, p.returncode, p.stdout[:80]))
    return res

print('cases', len(cases), file=sys.stderr)
bad = 0
with ThreadPoolExecutor(16) as ex:
    for res in ex.map(run, cases):
        for r in res:
            bad += 1
            print('FAIL', r)
print('done; bad =', bad, 'of', len(cases))
