import json, subprocess, re, datetime as D
from concurrent.futures import ThreadPoolExecutor
S4='/tmp/wt/C14/target/release/s4'; LOG='/tmp/seedout/C14/work/one.log'
ents=json.load(open('map.json'))
RE=re.compile(r'Datetime filter -a\s*:\s*(\S+ \S+) ([+-]\d\d:\d\d) \((\S+ \S+) \+00:00\)')
def f(v):
    s=1 if v[0]=='+' else -1
    return s*(int(v[1:3])*3600+int(v[4:6])*60)
def run(e):
    k,v=e; out=[]
    naive=D.datetime(2020,1,2,12,0,0)
    for form in ('20200102T120000%s','2020-01-02 12:00:00 %s','2020-01-02T12:00:00%s','2020-01-02T12:00:00 %s','2020/01/02 12:00:00.123 %s','20200102T120000.123456%s'):
        for args in (['-a='+form%k], ['-t=+0545','-a='+form%k]):
            p=subprocess.run([S4,'--color=never','-s']+args+[LOG],capture_output=True,text=True)
            m=RE.search(p.stderr)
            if v=='':
                if p.returncode==0 or p.stdout: out.append(('ambiguous accepted',k,args,p.returncode))
            else:
                exp=naive-D.timedelta(seconds=f(v))
                if p.returncode!=0 or not m or D.datetime.strptime(m.group(3),'%Y-%m-%d %H:%M:%S')!=exp:
                    out.append(('wrong',k,v,args,p.returncode,m.groups() if m else None))
    # as -t
    p=subprocess.run([S4,'--color=never','-s','-t='+k,'-a=2020-01-02 12:00:00']+[LOG],capture_output=True,text=True)
    m=RE.search(p.stderr)
    if v=='':
        if p.returncode==0 or p.stdout: out.append(('-t ambiguous accepted',k,p.returncode))
    else:
        exp=naive-D.timedelta(seconds=f(v))
        if p.returncode!=0 or not m or D.datetime.strptime(m.group(3),'%Y-%m-%d %H:%M:%S')!=exp:
            out.append(('-t wrong',k,v,p.returncode,m.groups() if m else None, p.stderr[-150:]))
    return out
bad=0
with ThreadPoolExecutor(16) as ex:
    for r in ex.map(run,ents):
        for x in r: bad+=1; print('FAIL',x)
print('done bad',bad,'of',len(ents))
