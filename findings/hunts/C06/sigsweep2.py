import subprocess,time,signal,sys,os,glob
S4="/tmp/wt/C06/target/release/s4"
args=sys.argv[1:]
full=open("/tmp/seedout/C06/work/sig_full.out","wb")
subprocess.run([S4,"--color=never"]+args,stdout=full,stderr=subprocess.DEVNULL); full.close()
ref=open("/tmp/seedout/C06/work/sig_full.out","rb").read()
print("full bytes",len(ref))
for k in range(0,70):
    delay=0.015*k
    t0=time.time()
    f=open("/tmp/seedout/C06/work/sig_part.out","wb")
    p=subprocess.Popen([S4,"--color=never"]+args,stdout=f,stderr=subprocess.PIPE)
    time.sleep(delay)
    p.send_signal(signal.SIGINT)
    try:
        _,err=p.communicate(timeout=30); st="rc=%s"%p.returncode
    except subprocess.TimeoutExpired:
        st="HANG"; p.kill(); _,err=p.communicate()
    f.close()
    out=open("/tmp/seedout/C06/work/sig_part.out","rb").read()
    prefix_ok = ref.startswith(out)
    tmp=glob.glob("/tmp/seedout/C06/work/tmpd/*")
    print("delay=%.3f %s bytes=%d exit_after=%.2f prefix_of_full=%s endnl=%s tmpfiles=%d"%(delay,st,len(out),time.time()-t0-delay,prefix_ok,out==b'' or out.endswith(b"\n"),len(tmp)))
    sys.stdout.flush()
