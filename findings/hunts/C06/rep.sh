#!/bin/bash
# usage: rep.sh tag N -- s4 args ; runs N times under varied schedules and prints distinct md5s
S4=/tmp/wt/C06/target/release/s4
tag=$1; n=$2; shift 3
for i in $(seq $n); do
  case $((i%4)) in
   0) timeout 300 $S4 "$@" 2>/dev/null | md5sum;;
   1) timeout 300 taskset -c 0 $S4 "$@" 2>/dev/null | md5sum;;
   2) timeout 300 $S4 "$@" 2>/dev/null | python3 -c "
import sys,time,hashlib
h=hashlib.md5()
while True:
    b=sys.stdin.buffer.read(65536)
    if not b: break
    h.update(b); time.sleep(0.001)
print(h.hexdigest(),' -')";;
   3) timeout 300 nice -n 19 taskset -c 0,1 $S4 "$@" 2>/dev/null | md5sum;;
  esac
done | sort | uniq -c | sed "s/^/$tag /"
