import os,sys,random
n=int(sys.argv[1]); m=int(sys.argv[2]); d=sys.argv[3]
os.makedirs(d,exist_ok=True)
random.seed(1)
for i in range(n):
    with open(f"{d}/f{i:05d}.log","w") as f:
        t=random.randrange(0,3000)
        for j in range(m):
            t+=random.randrange(0,50)
            hh,mm,ss=t//3600,(t//60)%60,t%60
            f.write(f"2024-01-02 {hh:02d}:{mm:02d}:{ss:02d} +0000 file{i:05d} msg{j}\n")
