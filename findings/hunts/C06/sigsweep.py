import subprocess,time,signal,sys,os,glob
S4="/tmp/wt/C06/target/release/s4"
args=sys.argv[1:]
res=[]
for k in range(0,60):
    delay=0.005*k*k/4 if k<40 else 0.5+0.2*(k-40)
    t0=time.time()
    p=subprocess.Popen([S4,"--color=never"]+args,stdout=subprocess.PIPE,stderr=subprocess.PIPE)
    time.sleep(delay)
    p.send_signal(signal.SIGINT)
    try:
        out,err=p.communicate(timeout=30)
        st="rc=%s"%p.returncode
    except subprocess.TimeoutExpired:
        st="HANG"; p.kill(); out,err=p.communicate()
    # complete final line?
    tail_ok = (out==b"" or out.endswith(b"\n"))
    tmp=glob.glob("/tmp/seedout/C06/work/tmpd/*")
    print("delay=%.3f %s bytes=%d t=%.2f tail_nl=%s stderr=%r tmpfiles=%d"%(delay,st,len(out),time.time()-t0,tail_ok,err[:100],len(tmp)))
    sys.stdout.flush()
