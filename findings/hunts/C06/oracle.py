import sys,os,re,datetime
d=sys.argv[1]
rows=[]
for fi,fn in enumerate(sorted(os.listdir(d))):
    for j,l in enumerate(open(os.path.join(d,fn),'rb').read().splitlines(keepends=True)):
        rows.append((l[:19],fi,j,l))
rows.sort(key=lambda r:(r[0],r[1],r[2]))
sys.stdout.buffer.write(b"".join(r[3] for r in rows))
