import subprocess,time,signal
S4="/tmp/wt/C06/target/release/s4"
p=subprocess.Popen([S4,"--color=never","/tmp/seedout/C06/work/many1100"],stdout=subprocess.PIPE,stderr=subprocess.DEVNULL)
time.sleep(1.0)           # pipe (64 KiB) is full, printing thread blocked in write(2)
for i in range(3):
    p.send_signal(signal.SIGINT); time.sleep(2)
    print("after SIGINT #%d: poll() ="%(i+1), p.poll())
out=p.stdout.read(); p.wait()
print("after reader drains: rc",p.returncode,"bytes",len(out))
