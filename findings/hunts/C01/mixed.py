#!/usr/bin/env python3
# run s4 over mixed-kind sources with -u -n -d, check per-line prepended dt is nondecreasing,
# and that among equal dt the source index (arg order) is nondecreasing (if each source is chronological)
import subprocess, sys, os, itertools, random
S4='/tmp/wt/C01/target/release/s4'
def run(args, extra=[]):
    p=subprocess.run([S4,'-c','never','-u','-p','--prepend-separator','\x01','-d','%Y%m%dT%H%M%S%.9f']+extra+args,capture_output=True)
    rows=[]
    for l in p.stdout.split(b'\n'):
        l=l.lstrip(b'\x00 ')
        parts=l.split(b'\x01',2)
        if len(parts)<3: continue
        rows.append((parts[0].decode().rstrip(),parts[1].decode()))
    return rows,p
def check(args,extra=[],label=''):
    rows,p=run(args,extra)
    # per-source chronological?
    per={}
    for f,d in rows: per.setdefault(f,[]).append(d)
    chrono={f:all(a<=b for a,b in zip(v,v[1:])) for f,v in per.items()}
    idx={a:i for i,a in enumerate(args)}
    bad=0
    prev=None
    for i,(f,d) in enumerate(rows):
        if prev:
            pf,pd=prev
            if chrono.get(pf) and chrono.get(f):
                if d<pd:
                    print(label,'NONCHRONO at row',i,prev,(f,d)); bad+=1
                elif d==pd and f in idx and pf in idx and idx[f]<idx[pf]:
                    print(label,'TIE ORDER at row',i,prev,(f,d)); bad+=1
            if bad>5: break
        prev=(f,d)
    return bad,len(rows),chrono
if __name__=='__main__':
    args=sys.argv[1:]
    print(check(args))
