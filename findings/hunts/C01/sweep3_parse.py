#!/usr/bin/env python3
# check s4's parsed instant (via -u -d '%s%.9f') for many tz/fraction notations
import subprocess, os, datetime as D, itertools
S4='/tmp/wt/C01/target/release/s4'
W='/tmp/seedout/C01/work/t3'; os.makedirs(W,exist_ok=True)
base=1700000000
offs=[0,60,-60,330,-210,-570,545,765,840,-720,-1,1,-30,30, -59, 59]
def offstr(o,style):
    sign='+' if o>=0 else '-'; a=abs(o); h,m=a//60,a%60
    if style=='colon': return '%s%02d:%02d'%(sign,h,m)
    if style=='nocolon': return '%s%02d%02d'%(sign,h,m)
    if style=='hour': return ('%s%02d'%(sign,h)) if m==0 else None
fracs=['','.5','.50','.123','.1234','.12345','.123456','.1234567','.12345678','.123456789',',123',',123456']
bad=0;n=0
for o in offs:
  for st in ['colon','nocolon','hour']:
    os_=offstr(o,st)
    if os_ is None: continue
    for fr in fracs:
      for sep in ['T',' ']:
        for tzsep in ['',' ']:
          tz=D.timezone(D.timedelta(minutes=o))
          dt=D.datetime.fromtimestamp(base,tz)
          s=dt.strftime('%Y-%m-%d'+sep+'%H:%M:%S')+fr+tzsep+os_
          lines=''.join('%s line%d hello world\n'%(s,i) for i in range(3))
          p=os.path.join(W,'x.log'); open(p,'w').write(lines)
          r=subprocess.run([S4,'-c','never','-u','-d','%s%.9f',p],capture_output=True,text=True)
          n+=1
          f=fr[1:] if fr else ''
          expns=(f+'000000000')[:9]
          exp='%d.%s'%(base,expns)
          got=r.stdout.split(':')[0] if r.stdout else '(none)'
          if got!=exp:
              bad+=1
              print('BAD',repr(s),'exp',exp,'got',got, r.stderr.strip()[:80])
print('n',n,'bad',bad)
