#!/usr/bin/env python3
# text-file merge sweep: random instants w/ ties, different offsets, subsecond formats
import random, subprocess, os, sys, shutil, datetime as D
S4='/tmp/wt/C01/target/release/s4'
W='/tmp/seedout/C01/work/t1'
FORMATS=['iso_us_tz','iso_ms_comma','iso_s_tz','iso_ns_tz','iso_s','iso_ms_dot_notz']
def fmt(kind, inst_us, off_min):
    # inst_us: microseconds since epoch (UTC); return string, and the instant as s4 should see it (in us, maybe truncated)
    tz=D.timezone(D.timedelta(minutes=off_min))
    dt=D.datetime.fromtimestamp(inst_us//1000000, tz).replace(microsecond=inst_us%1000000)
    sign='+' if off_min>=0 else '-'
    o=abs(off_min); offs='%s%02d:%02d'%(sign,o//60,o%60)
    if kind=='iso_us_tz':
        return dt.strftime('%Y-%m-%dT%H:%M:%S.%f')+offs, inst_us
    if kind=='iso_ns_tz':
        return dt.strftime('%Y-%m-%dT%H:%M:%S.%f')+'000'+offs, inst_us
    if kind=='iso_ms_comma':
        ms=inst_us//1000*1000
        return dt.strftime('%Y-%m-%d %H:%M:%S')+',%03d'%(dt.microsecond//1000)+' '+offs, ms
    if kind=='iso_s_tz':
        return dt.strftime('%Y-%m-%d %H:%M:%S')+' '+offs, inst_us//1000000*1000000
    if kind=='iso_s':
        # no tz: -t +00:00 default => must be written in UTC
        dtu=D.datetime.fromtimestamp(inst_us//1000000, D.timezone.utc)
        return dtu.strftime('%Y-%m-%d %H:%M:%S'), inst_us//1000000*1000000
    if kind=='iso_ms_dot_notz':
        dtu=D.datetime.fromtimestamp(inst_us//1000000, D.timezone.utc)
        return dtu.strftime('%Y-%m-%d %H:%M:%S')+'.%03d'%((inst_us%1000000)//1000), inst_us//1000*1000
def run(seed, extra=[]):
    r=random.Random(seed)
    shutil.rmtree(W,ignore_errors=True); os.makedirs(W)
    nf=r.randint(1,8)
    base=1700000000*1000000
    pool=[base+r.choice([0,1,999,1000,1001,500000,999999,1000000,1000001,2000000,3600*1000000])+r.choice([0,0,0,1,1000]) for _ in range(r.randint(1,6))]
    files=[];names=[]
    for i in range(nf):
        kind=r.choice(FORMATS)
        n=r.choice([1,1,2,3,5,20])
        off=r.choice([0,0,60,-300,330,-720,840,545])
        insts=sorted(r.choice(pool) for _ in range(n))
        msgs=[]
        lines=[]
        for j,u in enumerate(insts):
            if r.random()<0.3: off2=r.choice([0,60,-300,330]) 
            else: off2=off
            s,eff=fmt(kind,u,off2)
            tag='f%dl%d'%(i,j)
            lines.append('%s %s payload\n'%(s,tag))
            msgs.append((eff,tag))
        # effective instants may be non-monotonic after truncation - they remain sorted since truncation is monotone
        name=os.path.join(W,'%s%d.log'%(r.choice('abcxyz'),i))
        open(name,'w').write(''.join(lines))
        files.append(msgs);names.append(name)
    order=list(range(nf)); r.shuffle(order)
    args=[names[k] for k in order]
    srcs=[list(files[k]) for k in order]
    exp=[]
    while any(srcs):
        best=None
        for k,s in enumerate(srcs):
            if s and (best is None or s[0][0]<srcs[best][0][0]): best=k
        exp.append(srcs[best].pop(0)[1])
    out=subprocess.run([S4,'--color=never']+extra+args,capture_output=True,text=True)
    got=[l.split()[-2] for l in out.stdout.splitlines() if l.strip()]
    if got!=exp:
        print('MISMATCH seed',seed,'args',args); print(' exp',exp); print(' got',got); print(out.stderr[-500:])
        return False
    return True
if __name__=='__main__':
    a=int(sys.argv[1]);b=int(sys.argv[2]);extra=sys.argv[3:]
    bad=0
    for s in range(a,b):
        if not run(s,extra):
            bad+=1
            if bad>=5: break
    print('done bad=',bad)
