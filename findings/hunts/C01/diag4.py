import sweep4_yearless as s, subprocess, os, sys, glob, datetime as D, re
seed=int(sys.argv[1])
s.run(seed)
for f in sorted(glob.glob(s.W+'/*.log')):
    mt=os.path.getmtime(f)
    lines=open(f).read().splitlines()
    out=subprocess.run([s.S4,'-c','never','-u','-d','%s',f],capture_output=True,text=True).stdout.splitlines()
    print('==',os.path.basename(f),'mtime',D.datetime.utcfromtimestamp(mt),'first:',lines[0][:22],'last:',lines[-1][:22],'n',len(lines))
    prev=None
    for o in out:
        ep=int(o.split(':')[0]); 
        d=D.datetime.utcfromtimestamp(ep)
        if prev is None or d.year!=prev: print('   year',d.year,'from',o[11:50])
        prev=d.year
