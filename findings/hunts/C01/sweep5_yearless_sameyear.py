#!/usr/bin/env python3
import random, subprocess, os, sys, shutil, datetime as D
S4='/tmp/wt/C01/target/release/s4'
W='/tmp/seedout/C01/work/t7'
def run(seed,extra=[]):
    r=random.Random(seed)
    shutil.rmtree(W,ignore_errors=True); os.makedirs(W)
    nf=r.randint(2,6)
    end=int(D.datetime(2024,1,1,tzinfo=D.timezone.utc).timestamp())+r.choice([-86400*3,0,3600,86400*2,86400*40, 86400*59,86400*60, 86400*200])
    span=r.choice([10,3600,86400*5,86400*70])
    pool=sorted(end-r.randint(0,span) for _ in range(r.randint(2,8)))
    files=[];names=[]
    for i in range(nf):
        yl=r.random()<0.6
        n=r.choice([1,2,3,8,30])
        insts=sorted(r.choice(pool) for _ in range(n))
        lines=[];msgs=[]
        for j,u in enumerate(insts):
            dt=D.datetime.fromtimestamp(u,D.timezone.utc)
            tag='f%dl%d'%(i,j)
            if yl: s=dt.strftime('%b %e %H:%M:%S')+' host prog[1]: '+tag+' payload'
            else: s=dt.strftime('%Y-%m-%d %H:%M:%S')+' +00:00 '+tag+' payload'
            lines.append(s+'\n'); msgs.append((u,tag))
        name=os.path.join(W,'f%d.log'%i)
        open(name,'w').write(''.join(lines))
        mt=insts[-1]+r.choice([0,1,60,3600,86400])
        if D.datetime.fromtimestamp(mt,D.timezone.utc).year!=D.datetime.fromtimestamp(insts[-1],D.timezone.utc).year: mt=insts[-1]
        os.utime(name,(mt,mt))
        files.append(msgs);names.append(name)
    order=list(range(nf)); r.shuffle(order)
    args=[names[k] for k in order]
    srcs=[list(files[k]) for k in order]
    exp=[]
    while any(srcs):
        best=None
        for k,s in enumerate(srcs):
            if s and (best is None or s[0][0]<srcs[best][0][0]): best=k
        exp.append(srcs[best].pop(0)[1])
    out=subprocess.run([S4,'--color=never']+extra+args,capture_output=True,text=True)
    got=[l.split()[-2] for l in out.stdout.splitlines() if l.strip()]
    if got!=exp:
        print('MISMATCH seed',seed,'args',args); print(' exp',exp); print(' got',got); print(out.stderr[-300:])
        return False
    return True
if __name__=='__main__':
    a=int(sys.argv[1]);b=int(sys.argv[2]);extra=sys.argv[3:]
    bad=0
    for s in range(a,b):
        if not run(s,extra):
            bad+=1
            if bad>=4: break
    print('done bad=',bad)
