import subprocess, os, random, time, hashlib
S4='/tmp/wt/C01/target/release/s4'
r=random.Random(5)
names=[]
files=[]
for i in range(60):
    n=r.choice([0,1,3,50,400])
    t=0; lines=[]; msgs=[]
    for j in range(n):
        t+=r.choice([0,0,1,2])
        lines.append('2024-01-15 10:%02d:%02d +00:00 f%dl%d x\n'%(t//60%60,t%60,i,j)); msgs.append((t,'f%dl%d'%(i,j)))
    if n==0: lines=['no datetime here at all just text\n']
    fn='s%02d.log'%i; open(fn,'w').write(''.join(lines)); names.append(fn); files.append(msgs)
order=list(range(60)); r.shuffle(order)
args=[names[k] for k in order]+[names[order[0]]]   # first file named twice
srcs=[list(files[k]) for k in order]+[list(files[order[0]])]
exp=[]
while any(srcs):
    best=None
    for k,s in enumerate(srcs):
        if s and (best is None or s[0][0]<srcs[best][0][0]): best=k
    exp.append(srcs[best].pop(0)[1])
hs=set()
for rep in range(12):
    p=subprocess.Popen([S4,'-c','never']+args,stdout=subprocess.PIPE,stderr=subprocess.DEVNULL)
    out=b''
    while True:
        b=p.stdout.read(r.choice([1,100,4096,65536]))
        if not b: break
        out+=b
        if rep%2: time.sleep(0.0005)
    p.wait()
    got=[l.split()[-2].decode() for l in out.splitlines()]
    hs.add(hashlib.md5(out).hexdigest())
    if got!=exp: print('rep',rep,'MISMATCH',len(got),len(exp))
print('distinct outputs',len(hs),'total msgs',len(exp))
