import os, gzip, bz2, lzma, tarfile, subprocess, io, datetime as D, random, json
random.seed(5)
W='/tmp/hunt/C13/work/in'
os.makedirs(W,exist_ok=True)
def mk(n, off_min, start, tail_nl=True, fmt=0):
    # returns (bytes, [(instant_utc_ms, [lines])])
    msgs=[]; out=[]
    sign='-' if off_min<0 else '+'; a=abs(off_min)
    offs='%s%02d:%02d'%(sign,a//60,a%60)
    t=start
    for i in range(n):
        t += D.timedelta(seconds=random.choice([0,1,1,2,3600,86400*20]), milliseconds=random.choice([0,0,123,999]))
        loc = t + D.timedelta(minutes=off_min)
        ms=loc.microsecond//1000
        if fmt==0: ts=loc.strftime('%Y-%m-%dT%H:%M:%S')+('.%03d'%ms)+offs
        else: ts=loc.strftime('%Y-%m-%d %H:%M:%S')+(',%03d'%ms)+' '+offs
        lines=[ts+' msg %d héllo'%i]
        k=random.choice([0,0,1,2,3])
        for j in range(k):
            lines.append(random.choice(['  continuation %d'%j,'','\ttabbed ünï','    at foo.bar(Baz.java:%d)'%j]))
        msgs.append((t,lines))
        out.extend(lines)
    b=('\n'.join(out)+('\n' if tail_nl else '')).encode()
    return b,msgs
base=D.datetime(2021,12,31,22,0,0)
spec={}
files=[('a.log',0,True,0,'plain'),('ñandúé日本.log',-210,False,1,'plain'),('mid-name.log.gz',330,True,0,'gz'),
 ('x.log.xz',-720,True,1,'xz'),('bee.log.bz2',345,True,0,'bz2'),('nonl-middle.log',60,False,0,'plain'),('ΩΩ.log',840,True,1,'plain')]
for name,off,nl,fmt,kind in files:
    b,msgs=mk(8,off,base,nl,fmt)
    p=os.path.join(W,name)
    if kind=='plain': open(p,'wb').write(b)
    elif kind=='gz': gzip.open(p,'wb').write(b)
    elif kind=='xz': lzma.open(p,'wb').write(b)
    elif kind=='bz2': bz2.open(p,'wb').write(b)
    spec[name]=[( (t-D.datetime(1970,1,1))//D.timedelta(milliseconds=1), l) for t,l in msgs]
# tar
b,msgs=mk(6,-150,base,True,0)
ti=tarfile.TarInfo('in1.log'); ti.size=len(b)
with tarfile.open(os.path.join(W,'arch.tar'),'w') as tf: tf.addfile(ti,io.BytesIO(b))
spec['arch.tar']=[( (t-D.datetime(1970,1,1))//D.timedelta(milliseconds=1), l) for t,l in msgs]
json.dump(spec,open(os.path.join(W,'spec.json'),'w'))
