import subprocess, re, os, sys, itertools, unicodedata, datetime as D
S4='/tmp/hunt/C13/s4'; L='/tmp/hunt/C13/src/logs/'
import shutil
os.makedirs('/tmp/hunt/C13/work/in2',exist_ok=True)
src=[L+'programs/journal/Ubuntu22-user-1000.journal', L+'programs/utmp/host-entry6.wtmp', L+'programs/evtx/Microsoft-Windows-Kernel-PnP%4Configuration.evtx',
 L+'programs/utmp/host-entry6.wtmp.tar', L+'programs/journal/RHE_91_system.journal.xz', L+'programs/evtx/Microsoft-Windows-Kernel-PnP%4Configuration.evtx.gz']
import glob
extra=[p for p in glob.glob(L+'**/*',recursive=True) if os.path.isfile(p) and re.search(r'(lastlog|acct|\.odl|\.etl|btmp|utx)',p)][:8]
print('extra',extra)
FILES=src+extra+['/tmp/hunt/C13/work/in/ñandúé日本.log','/tmp/hunt/C13/work/in/a.log']
def dw(s): return sum(2 if unicodedata.east_asian_width(c) in 'WF' else 1 for c in s)
def run(args,env=None):
    e=dict(os.environ); e.pop('TZ',None)
    if env: e.update(env)
    r=subprocess.run([S4]+args,capture_output=True,env=e)
    return r.stdout, r.returncode, r.stderr
ANSI=re.compile(rb'\x1b\[[0-9;]*m')
nrun=0;nfail=0
def fail(*a):
    global nfail; nfail+=1
    if nfail<25: print('FAIL',*a)
sets=[[f] for f in FILES]+[FILES[:3]+FILES[-2:], FILES[:6], FILES]
for fs in sets:
  for jo in ([None,'verbose','export','cat','short-unix'] if any('journal' in f for f in fs) and len(fs)<=3 else [None]):
    ja=['--journal-output='+jo] if jo else []
    base,rc,err=run(['-c','never']+ja+fs)
    if rc!=0: print('base rc',rc,fs,err[:200]); 
    if not base: print('empty',fs); continue
    for fn,w,col,sep,tzargs,offmin in itertools.product(['-n','-p',None],[False,True],['never','always'],[None,'<SEP>\\n'],[['-u'],['--prepend-tz=+05:30'],['--prepend-tz=-03:30']],[None]):
        if w and not fn: continue
        args=['-c',col]+ja+([fn] if fn else [])+(['-w'] if w else [])+tzargs+['-d','%Y-%m-%dT%H:%M:%S%.6f%:z','--prepend-separator=##']+(['--separator='+sep] if sep else [])+fs
        out,rc,err=run(args); nrun+=1
        o=ANSI.sub(b'',out) if col=='always' else out
        sepb={None:b'','<SEP>\\n':b'<SEP>\n','\\0':b'\0'}[sep]
        if sepb: 
            o2=o.replace(sepb,b'')
        else: o2=o
        off=tzargs[0].split('=')[1] if '=' in tzargs[0] else '+00:00'
        rx=re.compile((rb'(?P<n>[^#]*)##' if fn else rb'(?P<n>)')+rb'(?P<d>\d{4}-\d\d-\d\dT\d\d:\d\d:\d\d\.\d{6}'+re.escape(off.encode())+rb')##')
        lines=o2.split(b'\n'); bl=base.split(b'\n')
        names=set(); stripped=[]; bad=False
        for l in lines:
            if l==b'' : stripped.append(l); continue
            nul=b''
            if l.startswith(b'\0') and any('tmp' in f or 'utx' in f or 'lastlog' in f for f in fs): nul=b'\0'; l=l[1:]
            if l==b'': stripped.append(nul); continue
            m=rx.match(l)
            if not m: fail('noprefix',args,l[:120]); bad=True; break
            names.add(m.group('n')); stripped.append(nul+l[m.end():])
        if bad: continue
        if b'\n'.join(stripped)!=base:
            # locate
            for i,(a,b) in enumerate(itertools.zip_longest(stripped,bl)):
                if a!=b: fail('strip!=base',args,i,a and a[:100],b and b[:100]); break
        if w and fn:
            ws={dw(n.decode('utf-8','replace')) for n in names}
            mx=max(dw(n.decode('utf-8','replace').rstrip(' ')) for n in names)
            if len(ws)!=1 or ws!={mx}: fail('align',args,ws,mx)
        if sepb and col=='never':
            pass
print('runs',nrun,'fail',nfail)
