import os, subprocess, json, re, itertools, random, unicodedata, datetime as D, sys
W='/tmp/hunt/C13/work/in'; S4='/tmp/hunt/C13/s4'
spec=json.load(open(W+'/spec.json'))
random.seed(int(sys.argv[1]) if len(sys.argv)>1 else 1)
def dw(s): return sum(2 if unicodedata.east_asian_width(c) in 'WF' else (0 if unicodedata.combining(c) else 1) for c in s)
def fmtdt(ms, offmin, f):
    t=D.datetime(1970,1,1)+D.timedelta(milliseconds=ms)+D.timedelta(minutes=offmin)
    sign='-' if offmin<0 else '+'; a=abs(offmin)
    rep={'%.3f':'.%03d'%(t.microsecond//1000),'%.6f':'.%06d'%t.microsecond,'%3f':'%03d'%(t.microsecond//1000),
      '%:z':'%s%02d:%02d'%(sign,a//60,a%60),'%z':'%s%02d%02d'%(sign,a//60,a%60),'%s':str(ms//1000),'%%':'%',
      '%e':'%2d'%t.day,'%T':t.strftime('%H:%M:%S')}
    out='';i=0
    while i<len(f):
        for k in rep:
            if f.startswith(k,i): out+=rep[k]; i+=len(k); break
        else:
            if f[i]=='%': out+=t.strftime(f[i:i+2]); i+=2
            else: out+=f[i]; i+=1
    return out
ESC={'\\0':'\0','\\a':'\a','\\b':'\b','\\e':'\x1b','\\f':'\f','\\n':'\n','\\r':'\r','\\\\':'\\','\\t':'\t','\\v':'\v'}
def unesc(s):
    out='';i=0
    while i<len(s):
        if s[i:i+2] in ESC: out+=ESC[s[i:i+2]]; i+=2
        else: out+=s[i]; i+=1
    return out
names=list(spec.keys())
def pname(n): return n+'|in1.log' if n=='arch.tar' else n
TZS=[('-u',None,0,None),('-z','+05:30',330,None),('-z','-03:30',-210,None),('-z','+05:45',345,None),('-z','-12:00',-720,None),('-z','+14:00',840,None),('-z','-00:30',-30,None),('-z','+0100',60,None),('-z','-08',-480,None),
 ('-l',None,330,'Asia/Kolkata'),('-l',None,-150,'America/St_Johns'),('-l',None,-600,'Pacific/Honolulu'),(None,None,330,'Asia/Kolkata'),(None,None,None,None)]
FMTS=[None,'%Y-%m-%dT%H:%M:%S%.6f %:z','%s.%3f','%d/%b/%y %I:%M %p %z','%Y:%m:%d','%a %b %e %T %Y','%%%H','%j %U']
PSEPS=[None,'##',' ','','|:|','→','\t']
SEPS=[None,'X\\n','\\0','--\\t--\\n','\\e[0m','\\\\','§\\r\\n','\\a\\b\\f\\v','plain']
nfail=0;nrun=0
for it in range(int(sys.argv[2]) if len(sys.argv)>2 else 300):
    k=random.randint(1,4); fs=random.sample(names,k)
    fn=random.choice([None,'-n','-p']); w=random.random()<0.5 and fn is not None
    tz=random.choice(TZS); f=random.choice(FMTS); ps=random.choice(PSEPS); sp=random.choice(SEPS); col=random.choice(['always','never'])
    if tz[0] is None and tz[3] is None: f=None
    if tz[0] is None and tz[3] is not None and f is None: f='%Y%m%dT%H%M%S%.3f%z'  # -d alone => local
    args=[S4,'-c',col]
    if fn: args.append(fn)
    if w: args.append('-w')
    if tz[0]: args.append(tz[0])
    if tz[1]: args.append(tz[1] if not tz[1].startswith('-') else tz[1]); 
    if tz[0]=='-z': args[-2:]=['--prepend-tz='+tz[1]]
    if f is not None: args+=['-d',f]
    if ps is not None: args.append('--prepend-separator='+ps)
    if sp is not None: args.append('--separator='+sp)
    paths=[os.path.join(W,x) for x in fs]
    args+=paths
    env=dict(os.environ); env.pop('TZ',None)
    if tz[3]: env['TZ']=tz[3]
    r=subprocess.run(args,capture_output=True,env=env)
    nrun+=1
    got=r.stdout.decode('utf-8','replace')
    # oracle
    msgs=[]
    for ai,n in enumerate(fs):
        for mi,(ms,lines) in enumerate(spec[n]):
            msgs.append((ms,ai,mi,n,lines))
    msgs.sort(key=lambda x:(x[0],x[1],x[2]))
    dtf = f if f is not None else '%Y%m%dT%H%M%S%.3f%z'
    havedt = tz[0] is not None or f is not None
    psep = ps if ps is not None else ':'
    disp={n:(os.path.join(W,pname(n)) if fn=='-p' else pname(n)) for n in fs}
    if fn=='-p' and 'arch.tar' in fs: disp['arch.tar']=os.path.join(W,'arch.tar')+'|in1.log'
    width=max(dw(v) for v in disp.values())
    sep=unesc(sp) if sp is not None else ''
    exp=''
    nonl={'ñandúé日本.log','nonl-middle.log'}
    for idx,(ms,ai,mi,n,lines) in enumerate(msgs):
        pre=''
        if fn:
            nm=disp[n]
            if w: nm+=' '*(width-dw(nm))
            pre+=nm+psep
        if havedt: pre+=fmtdt(ms,tz[2],dtf)+psep
        last = mi==len(spec[n])-1 and n in nonl
        txt=''
        for li,l in enumerate(lines):
            txt+=pre+l+('' if (last and li==len(lines)-1) else '\n')
        exp+=txt+sep+('\n' if last else '')
    g=re.sub(r'\x1b\[[0-9;]*m','',got) if col=='always' else got
    e=re.sub(r'\x1b\[[0-9;]*m','',exp) if col=='always' else exp
    if g!=e or r.returncode!=0:
        nfail+=1
        if nfail<=12:
            print('MISMATCH rc',r.returncode,' '.join(repr(a) for a in args[1:]),'TZ=',tz[3])
            gl=g.split('\n'); el=e.split('\n')
            for i in range(max(len(gl),len(el))):
                a=gl[i] if i<len(gl) else None; b=el[i] if i<len(el) else None
                if a!=b: print('  line',i,'\n   got',repr(a),'\n   exp',repr(b)); break
            if r.stderr: print('  stderr',r.stderr[:300])
print('runs',nrun,'fail',nfail)
