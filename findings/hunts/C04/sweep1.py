#!/usr/bin/env python3
"""Sweep 1: notation x tz-style. Each file: one notation, many values."""
import sys, random
sys.path.insert(0, "/tmp/seedout/C04/work")
from harness import *

rng = random.Random(4)

# date-time templates: function(y,m,d,H,M,S,frac,tzs,wd) -> str
# frac: "" or digits; tzs: preformatted tz string incl. leading blank if desired ("" for none)
def F(frac, sep="."):
    return (sep + frac) if frac else ""

TEMPLATES = {
    # ISO 8601 / RFC 3339
    "iso_T":      (lambda y,m,d,H,M,S,fr,tz,wd: "%04d-%02d-%02dT%02d:%02d:%02d%s%s msg" % (y,m,d,H,M,S,F(fr),tz), True, "tight"),
    "iso_sp":     (lambda y,m,d,H,M,S,fr,tz,wd: "%04d-%02d-%02d %02d:%02d:%02d%s%s msg" % (y,m,d,H,M,S,F(fr),tz), True, "space"),
    "iso_comma":  (lambda y,m,d,H,M,S,fr,tz,wd: "%04d-%02d-%02d %02d:%02d:%02d%s%s msg" % (y,m,d,H,M,S,F(fr, ","),tz), True, "space"),
    "iso_slash":  (lambda y,m,d,H,M,S,fr,tz,wd: "%04d/%02d/%02d %02d:%02d:%02d%s%s msg" % (y,m,d,H,M,S,F(fr),tz), True, "space"),
    "iso_basic":  (lambda y,m,d,H,M,S,fr,tz,wd: "%04d%02d%02dT%02d%02d%02d%s%s msg" % (y,m,d,H,M,S,F(fr),tz), True, "tight"),
    "iso_brack":  (lambda y,m,d,H,M,S,fr,tz,wd: "[%04d-%02d-%02dT%02d:%02d:%02d%s%s] msg" % (y,m,d,H,M,S,F(fr),tz), True, "tight"),
    "iso_mid":    (lambda y,m,d,H,M,S,fr,tz,wd: "host app[12]: %04d-%02d-%02dT%02d:%02d:%02d%s%s msg" % (y,m,d,H,M,S,F(fr),tz), True, "tight"),
    "iso_midbr":  (lambda y,m,d,H,M,S,fr,tz,wd: "INFO [%04d-%02d-%02d %02d:%02d:%02d%s%s] msg" % (y,m,d,H,M,S,F(fr),tz), True, "space"),
    # RFC 5424
    "rfc5424":    (lambda y,m,d,H,M,S,fr,tz,wd: "<34>1 %04d-%02d-%02dT%02d:%02d:%02d%s%s host app 1 ID47 - msg" % (y,m,d,H,M,S,F(fr),tz), True, "tight"),
    "pri_iso":    (lambda y,m,d,H,M,S,fr,tz,wd: "<34>%04d-%02d-%02dT%02d:%02d:%02d%s%s host msg" % (y,m,d,H,M,S,F(fr),tz), True, "tight"),
    # RFC 3164 with year
    "rfc3164y":   (lambda y,m,d,H,M,S,fr,tz,wd: "%s %2d %02d:%02d:%02d %04d%s host msg" % (MON3[m-1],d,H,M,S,y,tz), False, "space"),
    "rfc3164y0":  (lambda y,m,d,H,M,S,fr,tz,wd: "%s %02d %02d:%02d:%02d %04d%s host msg" % (MON3[m-1],d,H,M,S,y,tz), False, "space"),
    "pri3164y":   (lambda y,m,d,H,M,S,fr,tz,wd: "<13>%s %2d %02d:%02d:%02d %04d%s host msg" % (MON3[m-1],d,H,M,S,y,tz), False, "space"),
    "rfc3164full":(lambda y,m,d,H,M,S,fr,tz,wd: "%s %d %02d:%02d:%02d %04d%s host msg" % (MONF[m-1],d,H,M,S,y,tz), False, "space"),
    # RFC 2822
    "rfc2822":    (lambda y,m,d,H,M,S,fr,tz,wd: "%s, %02d %s %04d %02d:%02d:%02d%s msg" % (DAY3[wd],d,MON3[m-1],y,H,M,S,tz), False, "space"),
    "rfc2822s":   (lambda y,m,d,H,M,S,fr,tz,wd: "%s, %d %s %04d %02d:%02d:%02d%s msg" % (DAY3[wd],d,MON3[m-1],y,H,M,S,tz), False, "space"),
    "rfc2822date":(lambda y,m,d,H,M,S,fr,tz,wd: "Date: %s, %02d %s %04d %02d:%02d:%02d%s msg" % (DAY3[wd],d,MON3[m-1],y,H,M,S,tz), False, "space"),
    "rfc2822mid": (lambda y,m,d,H,M,S,fr,tz,wd: "hello %s, %02d %s %04d %02d:%02d:%02d%s msg" % (DAY3[wd],d,MON3[m-1],y,H,M,S,tz), False, "space"),
    # ctime / date(1)
    "ctime":      (lambda y,m,d,H,M,S,fr,tz,wd: "%s %s %2d %02d:%02d:%02d %04d%s msg" % (DAY3[wd],MON3[m-1],d,H,M,S,y,tz), False, "space"),
    "date1":      (lambda y,m,d,H,M,S,fr,tz,wd: "%s %s %2d %02d:%02d:%02d%s %04d msg" % (DAY3[wd],MON3[m-1],d,H,M,S,tz,y), False, "space1"),
    "ctimefull":  (lambda y,m,d,H,M,S,fr,tz,wd: "%s %s %d %02d:%02d:%02d %04d%s msg" % (DAYF[wd],MONF[m-1],d,H,M,S,y,tz), False, "space"),
    "longdate":   (lambda y,m,d,H,M,S,fr,tz,wd: "%s, %s %d, %04d %02d:%02d:%02d%s msg" % (DAYF[wd],MONF[m-1],d,y,H,M,S,tz), False, "space"),
    "ctime_mid":  (lambda y,m,d,H,M,S,fr,tz,wd: "daemon: %s %s %2d %02d:%02d:%02d %04d%s msg" % (DAY3[wd],MON3[m-1],d,H,M,S,y,tz), False, "space"),
    "date1_mid":  (lambda y,m,d,H,M,S,fr,tz,wd: "daemon: %s %s %2d %02d:%02d:%02d%s %04d msg" % (DAY3[wd],MON3[m-1],d,H,M,S,tz,y), False, "space1"),
    # year first, named month
    "Ybd":        (lambda y,m,d,H,M,S,fr,tz,wd: "%04d %s %02d %02d:%02d:%02d%s msg" % (y,MON3[m-1],d,H,M,S,tz), False, "space"),
    # apache / dd-Mon-yyyy
    "apache":     (lambda y,m,d,H,M,S,fr,tz,wd: "1.2.3.4 - - [%02d/%s/%04d:%02d:%02d:%02d%s] \"GET / HTTP/1.1\" 200 1" % (d,MON3[m-1],y,H,M,S,tz), False, "space"),
    "dbY":        (lambda y,m,d,H,M,S,fr,tz,wd: "[%02d-%s-%04d %02d:%02d:%02d%s%s] msg" % (d,MON3[m-1],y,H,M,S,F(fr),tz), True, "space"),
    # LEVEL prefixed
    "lvl_ctime":  (lambda y,m,d,H,M,S,fr,tz,wd: "ERROR: %s %s %02d %04d %02d:%02d:%02d%s msg" % (DAY3[wd],MON3[m-1],d,y,H,M,S,tz), False, "space"),
    "lvl_bdY":    (lambda y,m,d,H,M,S,fr,tz,wd: "WARNING: %s %02d %02d:%02d:%02d %04d%s msg" % (MON3[m-1],d,H,M,S,y,tz), False, "space1"),
    "bdY_mid":    (lambda y,m,d,H,M,S,fr,tz,wd: "x=1 %s %02d %02d:%02d:%02d %04d%s msg" % (MON3[m-1],d,H,M,S,y,tz), False, "space1"),
    "bdZY_mid":   (lambda y,m,d,H,M,S,fr,tz,wd: "x=1 %s %02d %02d:%02d:%02d%s %04d msg" % (MON3[m-1],d,H,M,S,tz,y), False, "space1"),
    # JSON
    "json_ts":    (lambda y,m,d,H,M,S,fr,tz,wd: "{\"a\":1,\"timestamp\":\"%04d-%02d-%02dT%02d:%02d:%02d%s%s\",\"msg\":\"x\"}" % (y,m,d,H,M,S,F(fr),tz), True, "tight"),
    "json_dt":    (lambda y,m,d,H,M,S,fr,tz,wd: "{\"a\":1,\"datetime\": \"%04d-%02d-%02d %02d:%02d:%02d%s%s\",\"msg\":\"x\"}" % (y,m,d,H,M,S,F(fr),tz), True, "tight"),
}

ABBRS_UNAMBIG = None

def load_abbrs():
    """Read the project's table from the source (independent of binary)."""
    import re
    src = open("/tmp/wt/C04/src/data/datetime.rs", encoding="utf-8").read()
    i = src.index("pub static MAP_TZZ_TO_TZz")
    j = src.index("};", i)
    tab = {}
    for m in re.finditer(r'^\s*"([A-Za-z]+)" => "([^"]*)",', src[i:j], re.M):
        tab[m.group(1)] = m.group(2)
    return tab

def off_of(s):
    sign = -1 if s[0] == "-" else 1
    hh, mm = s[1:].split(":")
    return sign * (int(hh) * 3600 + int(mm) * 60)

def values(n, rng, with_frac):
    # with_frac: False -> no fraction; True -> 1..9 digits
    vals = []
    sd = special_dates(); st = special_times()
    for i in range(n):
        if i < len(sd):
            y, m, d = sd[i]
        else:
            y, m, d = rand_date(rng)
        if i % 3 == 0:
            H, M, S = st[(i // 3) % len(st)]
        else:
            H, M, S = rng.randint(0, 23), rng.randint(0, 59), rng.randint(0, 59)
        fr = ""
        if with_frac:
            k = i % 9 + 1
            fr = "".join(rng.choice("0123456789") for _ in range(k))
        vals.append((y, m, d, H, M, S, fr))
    return vals

def main():
    tab = load_abbrs()
    only = sys.argv[1:]
    total_bad = {}
    for name, (fn, with_frac, tzpos) in TEMPLATES.items():
        if only and name not in only:
            continue
        for fracmode in ((False, True) if with_frac else (False,)):
         for tzstyle in ("none", "zc", "z", "zp", "Z", "zc_sp", "z_sp", "zp_sp", "zcu", "abbr_unamb", "abbr_amb", "abbr_lower"):
            for tzopt in ("-t=+00:00", "-t=-03:30", "-t=+05:45"):
                dflt = off_of(tzopt[3:])
                if tzstyle not in ("none", "abbr_amb") and tzopt != "-t=-03:30":
                    continue
                n = 1100 if tzstyle != "zp" else 600
                vals = values(n, rng, fracmode)
                offs = all_offsets()
                lines = []; exp = {}
                abl = [k for k, v in tab.items() if v and k.isupper()]
                amb = [k for k, v in tab.items() if not v and k.isupper()]
                for i, (y, m, d, H, M, S, fr) in enumerate(vals):
                    wd = weekday(y, m, d)
                    if tzstyle == "none":
                        tz = ""; off = dflt
                    elif tzstyle in ("zc", "z", "zcu"):
                        off = offs[i % len(offs)]; tz = fmt_off(off, tzstyle)
                    elif tzstyle in ("zc_sp", "z_sp"):
                        off = offs[i % len(offs)]; tz = " " + fmt_off(off, tzstyle[:-3])
                    elif tzstyle in ("zp", "zp_sp"):
                        off = (i % 27 - 12) * 3600; tz = fmt_off(off, "zp")
                        if tzstyle == "zp_sp": tz = " " + tz
                    elif tzstyle == "Z":
                        off = 0; tz = "Z"
                    elif tzstyle == "abbr_unamb":
                        a = abl[i % len(abl)]; off = off_of(tab[a]); tz = " " + a
                    elif tzstyle == "abbr_lower":
                        a = abl[i % len(abl)].lower(); off = off_of(tab[a]); tz = " " + a
                    elif tzstyle == "abbr_amb":
                        a = amb[i % len(amb)]; off = dflt; tz = " " + a
                    if tzpos in ("space", "space1") and tz and not tz.startswith(" "):
                        if tzstyle in ("zc", "z", "zp", "zcu", "Z"):
                            continue  # tight style meaningless here
                    if tzpos == "tight" and False:
                        pass
                    line = fn(y, m, d, H, M, S, fr, tz, wd) + " id=%d" % i
                    lines.append(line)
                    exp[i] = epoch_ns(y, m, d, H, M, S, fr, off)
                if not lines:
                    continue
                nm = "%s__%s__%s__%s" % (name, "frac" if fracmode else "nofrac", tzstyle, tzopt[3:].replace(":", "").replace("+", "p").replace("-", "m"))
                bad = check(nm, lines, exp, extra=(tzopt,), verbose=True, maxshow=3)
                if bad:
                    total_bad[nm] = len(bad)
    print("\nSUMMARY bad files:", len(total_bad))
    for k, v in total_bad.items():
        print("  ", k, v)

main()
