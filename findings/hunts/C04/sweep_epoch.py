import sys, random
sys.path.insert(0, "/tmp/seedout/C04/work")
from harness import *
rng = random.Random(5)
forms = {
 "s":   lambda e, fr: "%d msg" % e,
 "s3":  lambda e, fr: "%d.%s msg" % (e, fr[:3]),
 "s3c": lambda e, fr: "%d,%s msg" % (e, fr[:3]),
 "s6":  lambda e, fr: "%d.%s msg" % (e, fr[:6]),
 "s9":  lambda e, fr: "%d.%s msg" % (e, fr[:9]),
 "audit": lambda e, fr: "type=SYSCALL msg=audit(%d.%s:%d): arch=c000003e" % (e, fr[:3], rng.randint(1, 99999)),
}
nd = {"s": 0, "s3": 3, "s3c": 3, "s6": 6, "s9": 9, "audit": 3}
for name, fn in forms.items():
    for topt in ("-t=-03:30", "-t=+05:45", "-t=+00:00"):
        lines = []; exp = {}
        for i in range(1500):
            e = rng.randint(900000000, 2999999999) if i > 20 else [900000000, 999999999, 1000000000, 1234567890, 1999999999, 2000000000, 2147483647, 2147483648, 2999999999, 946684800, 951782400, 4102444799-1, 1582934400, 1709164800, 1456704000, 978307199, 978307200, 1e9+1, 1e9+59, 1e9+60, 1e9+3599][i]
            e = int(e)
            fr = "".join(rng.choice("0123456789") for _ in range(9))
            lines.append(fn(e, fr) + " id=%d" % i)
            exp[i] = e * 10**9 + (int((fr[:nd[name]] + "000000000")[:9]) if nd[name] else 0)
        check("ep_%s_%s" % (name, topt[3:].replace(":", "").replace("+", "p").replace("-", "m")), lines, exp, extra=(topt,), maxshow=3)
