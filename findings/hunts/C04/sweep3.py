#!/usr/bin/env python3
"""Sweep 3: longest renderings (full weekday/month names, 2-digit day, widest tz)
for named-month notations: does the fixed slice (range_regex) still cover the zone?"""
import sys, random
sys.path.insert(0, "/tmp/seedout/C04/work")
from harness import *
rng = random.Random(7)

T = {
 "rfc3164y":   lambda y,m,d,H,M,S,tz,wd,MN,DN: "%s %2d %02d:%02d:%02d %04d%s host msg" % (MN[m-1],d,H,M,S,y,tz),
 "pri3164y":   lambda y,m,d,H,M,S,tz,wd,MN,DN: "<191>%s %2d %02d:%02d:%02d %04d%s host msg" % (MN[m-1],d,H,M,S,y,tz),
 "pri3164y_sp":lambda y,m,d,H,M,S,tz,wd,MN,DN: "<191> %s %2d %02d:%02d:%02d %04d%s host msg" % (MN[m-1],d,H,M,S,y,tz),
 "pri3164zy":  lambda y,m,d,H,M,S,tz,wd,MN,DN: "<191> %s %2d %02d:%02d:%02d%s %04d host msg" % (MN[m-1],d,H,M,S,tz,y),
 "ctime":      lambda y,m,d,H,M,S,tz,wd,MN,DN: "%s %s %2d %02d:%02d:%02d %04d%s msg" % (DN[wd],MN[m-1],d,H,M,S,y,tz),
 "date1":      lambda y,m,d,H,M,S,tz,wd,MN,DN: "%s %s %2d %02d:%02d:%02d%s %04d msg" % (DN[wd],MN[m-1],d,H,M,S,tz,y),
 "longdate":   lambda y,m,d,H,M,S,tz,wd,MN,DN: "%s, %s %d, %04d %02d:%02d:%02d%s msg" % (DN[wd],MN[m-1],d,y,H,M,S,tz),
 "longdate_c": lambda y,m,d,H,M,S,tz,wd,MN,DN: "%s, %s %d, %04d, %02d:%02d:%02d%s msg" % (DN[wd],MN[m-1],d,y,H,M,S,tz),
 "longdate_2": lambda y,m,d,H,M,S,tz,wd,MN,DN: "%s,  %s %d,  %04d,  %02d:%02d:%02d %s msg" % (DN[wd],MN[m-1],d,y,H,M,S,tz),
 "lvl_ctime":  lambda y,m,d,H,M,S,tz,wd,MN,DN: "EMERGENCY: %s %s %02d %04d %02d:%02d:%02d%s msg" % (DN[wd],MN[m-1],d,y,H,M,S,tz),
 "lvl_ctime2": lambda y,m,d,H,M,S,tz,wd,MN,DN: "VERBOSE9:   %s %s %02d %04d %02d:%02d:%02d%s msg" % (DN[wd],MN[m-1],d,y,H,M,S,tz),
 "lvl_bdY":    lambda y,m,d,H,M,S,tz,wd,MN,DN: "EMERGENCY : %s %02d %02d:%02d:%02d %04d%s msg" % (MN[m-1],d,H,M,S,y,tz),
 "Ybd":        lambda y,m,d,H,M,S,tz,wd,MN,DN: "%04d %s %02d %02d:%02d:%02d%s msg" % (y,MN[m-1],d,H,M,S,tz),
 "Ybd2":       lambda y,m,d,H,M,S,tz,wd,MN,DN: "%04d  %s  %02d  %02d:%02d:%02d %s msg" % (y,MN[m-1],d,H,M,S,tz),
 "ctime_mid":  lambda y,m,d,H,M,S,tz,wd,MN,DN: "daemon: %s %s %2d %02d:%02d:%02d %04d%s msg" % (DN[wd],MN[m-1],d,H,M,S,y,tz),
}

def load_abbrs():
    import re
    src = open("/tmp/wt/C04/src/data/datetime.rs", encoding="utf-8").read()
    i = src.index("pub static MAP_TZZ_TO_TZz"); j = src.index("};", i)
    return {m.group(1): m.group(2) for m in re.finditer(r'^\s*"([A-Za-z]+)" => "([^"]*)",', src[i:j], re.M)}
def off_of(s):
    sign = -1 if s[0] == "-" else 1
    hh, mm = s[1:].split(":"); return sign * (int(hh) * 3600 + int(mm) * 60)
tab = load_abbrs()
LONGAB = [k for k, v in tab.items() if v and k.isupper() and len(k) >= 4]

def main():
    only = sys.argv[1:]
    dflt = -12600
    for name, fn in T.items():
        if only and name not in only: continue
        for names in ("full", "abbr"):
            MN, DN = (MONF, DAYF) if names == "full" else (MON3, DAY3)
            for tzstyle in ("none", "zc", "z", "zp", "zcu", "abbr"):
                lines = []; exp = {}; i = 0
                for m in range(1, 13):
                    for d in (3, 9, 10, 11, 12, 13, 14, 15, 16, 28):   # covers all 7 weekdays
                        y = 2020 + (m % 3)
                        H, M, S = rng.randint(0, 23), rng.randint(0, 59), rng.randint(0, 59)
                        wd = weekday(y, m, d)
                        if tzstyle == "none": tz = ""; off = dflt
                        elif tzstyle == "abbr":
                            a = LONGAB[i % len(LONGAB)]; tz = " " + a; off = off_of(tab[a])
                        elif tzstyle == "zp":
                            off = (i % 27 - 12) * 3600; tz = " " + fmt_off(off, "zp")
                        else:
                            off = all_offsets()[(i * 7) % 105]; tz = " " + fmt_off(off, tzstyle)
                        lines.append(fn(y, m, d, H, M, S, tz, wd, MN, DN) + " id=%d" % i)
                        exp[i] = epoch_ns(y, m, d, H, M, S, "", off)
                        i += 1
                check("s3_%s_%s_%s" % (name, names, tzstyle), lines, exp, extra=("-t=-03:30",), maxshow=2)
main()
