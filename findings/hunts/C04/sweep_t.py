#!/usr/bin/env python3
"""Sweep --tz-offset values: numeric in 3 forms (15 min steps), every abbreviation."""
import sys, subprocess
sys.path.insert(0, "/tmp/seedout/C04/work")
from harness import *

def load_abbrs():
    import re
    src = open("/tmp/wt/C04/src/data/datetime.rs", encoding="utf-8").read()
    i = src.index("pub static MAP_TZZ_TO_TZz")
    j = src.index("};", i)
    tab = {}
    for m in re.finditer(r'^\s*"([A-Za-z]+)" => "([^"]*)",', src[i:j], re.M):
        tab[m.group(1)] = m.group(2)
    return tab

def off_of(s):
    sign = -1 if s[0] == "-" else 1
    hh, mm = s[1:].split(":")
    return sign * (int(hh) * 3600 + int(mm) * 60)

tab = load_abbrs()
lines = ["2020-02-29 23:59:59 msg id=0", "2020-03-01 00:00:00.5 msg id=1"]
lines = ["2020-02-29 23:59:59 msg id=0", "2021-03-01 00:00:00 msg id=1"]
nbad = 0; n = 0
def one(topt, off, expect_err=False):
    global nbad, n
    n += 1
    exp = {0: epoch_ns(2020, 2, 29, 23, 59, 59, "", off), 1: epoch_ns(2021, 3, 1, 0, 0, 0, "", off)}
    path = os.path.join(WORK, "tsweep.log")
    open(path, "w").write("\n".join(lines) + "\n")
    out, err, rc = run_s4(path, topt)
    got = parse_out(out)
    if got != exp:
        nbad += 1
        print("BAD", topt, "exp", exp, "got", got, "rc", rc, err.strip()[:200])

for off in all_offsets():
    for style in ("zc", "z"):
        s = fmt_off(off, style)
        one(["-t=" + s], off)
        one(["--tz-offset=" + s], off)
        if off >= 0:
            one(["-t", s], off)
            one(["--tz-offset", s], off)
    if off % 3600 == 0:
        s = fmt_off(off, "zp")
        one(["-t=" + s], off)
        if off >= 0:
            one(["-t", s], off)
    if off < 0:
        one(["-t=" + fmt_off(off, "zcu")], off)
for a, v in tab.items():
    if v:
        one(["-t", a], off_of(v))
        one(["-t=" + a], off_of(v))
    else:
        # ambiguous: must be rejected
        path = os.path.join(WORK, "tsweep.log")
        out, err, rc = run_s4(path, ["-t", a])
        if rc == 0:
            print("BAD ambiguous accepted", a, out)
print("ran", n, "bad", nbad)
