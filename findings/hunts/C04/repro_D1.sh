#!/bin/sh
# D1: zone (or its minutes) lost when the timestamp is longer than the pattern's fixed slice (range_regex)
S4=/tmp/wt/C04/target/release/s4
cd /tmp/seedout/C04/work
t(){ printf '%s a id=0\n%s b id=1\n' "$1" "$1" > d1.log; printf '%-55s -> ' "$1"; $S4 -u -t=-03:30 --color=never d1.log 2>/dev/null | head -1 | cut -d: -f1; }
t "2021 January 09 20:16:46 -10:15"       # expect 20210110T063146
t "2020 October 10 12:00:00 +05:45"       # expect 20201010T061500
t "2020 September 10 12:00:00 +0545"      # expect 20200910T061500
t "2020 November 10 12:00:00 +0545"       # expect 20201110T061500
t "2020 September 10 12:00:00 WITA"       # expect 20200910T040000
t "2020 September 10 12:00:00 PETT"       # expect 20200910T000000
t "2020 September 10 12:00:00"            # expect 20200910T153000
t "2021  Jan  09  20:28:23  -10:15"       # expect 20210110T064323
t "Wednesday, September 10, 2025, 12:00:00 +05:45"   # expect 20250910T061500
t "Wednesday, September 10, 2025  12:00:00 +05:45"   # expect 20250910T061500
t "Wednesday, September 10, 2025 12:00:00 −05:45"    # expect 20250910T174500
t "Wednesday, September 10, 2025, 12:00:00 WITA"     # expect 20250910T040000
t "<191> September 10 12:00:00 2020 −05:45"          # expect 20200910T174500
