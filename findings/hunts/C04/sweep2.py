#!/usr/bin/env python3
"""Sweep 2: ad-hoc notations, single-digit variants, epoch forms."""
import sys, random
sys.path.insert(0, "/tmp/seedout/C04/work")
from harness import *
rng = random.Random(42)

def F(fr, sep="."):
    return sep + fr if fr else ""

# name -> (fn(y,m,d,H,M,S,fr,wd), fracmode) ; fracmode: 0 none, N fixed digits, -1 = 1..9 var
T = {
 "Y-m-d_single":   (lambda y,m,d,H,M,S,fr,wd: "%d-%d-%d %d:%02d:%02d msg" % (y,m,d,H,M,S), 0),
 "Y/m/d_single":   (lambda y,m,d,H,M,S,fr,wd: "%d/%d/%d %d:%02d:%02d msg" % (y,m,d,H,M,S), 0),
 "START_single":   (lambda y,m,d,H,M,S,fr,wd: "START: %d/%d/%d %d:%02d:%02d msg" % (y,m,d,H,M,S), 0),
 "end_single_mid": (lambda y,m,d,H,M,S,fr,wd: "job 7 end %d-%d-%d_%d:%02d:%02d msg" % (y,m,d,H,M,S), 0),
 "colonfrac_z":    (lambda y,m,d,H,M,S,fr,wd: "x %04d-%02d-%02d %02d:%02d:%02d:%s +0545 msg" % (y,m,d,H,M,S,fr), 3),
 "YmdHM_br":       (lambda y,m,d,H,M,S,fr,wd: "[%04d-%02d-%02d %02d:%02d] msg" % (y,m,d,H,M), 0),
 "mdY_frac":       (lambda y,m,d,H,M,S,fr,wd: "%02d/%02d/%04d %02d:%02d:%02d.%s msg" % (m,d,y,H,M,S,fr), -1),
 "mdY_frac_br":    (lambda y,m,d,H,M,S,fr,wd: "[%02d/%02d/%04d %02d:%02d:%02d.%s] msg" % (m,d,y,H,M,S,fr), -1),
 "mdY_frac_mid":   (lambda y,m,d,H,M,S,fr,wd: "abc (%02d/%02d/%04d %02d:%02d:%02d.%s) msg" % (m,d,y,H,M,S,fr), -1),
 "dbY_f3":         (lambda y,m,d,H,M,S,fr,wd: "%02d-%s-%04d %02d:%02d:%02d.%s msg" % (d,MON3[m-1],y,H,M,S,fr), 3),
 "dbY_f3_single":  (lambda y,m,d,H,M,S,fr,wd: "%d-%s-%04d %02d:%02d:%02d.%s msg" % (d,MON3[m-1],y,H,M,S,fr), 3),
 "apache_err":     (lambda y,m,d,H,M,S,fr,wd: "[%s %s %02d %02d:%02d:%02d.%s %04d] [core:notice] msg" % (DAY3[wd],MON3[m-1],d,H,M,S,fr,y), 6),
 "apache_err_var": (lambda y,m,d,H,M,S,fr,wd: "[%s %s %02d %02d:%02d:%02d.%s %04d] [core:notice] msg" % (DAY3[wd],MON3[m-1],d,H,M,S,fr,y), -1),
 "apache_err_nof": (lambda y,m,d,H,M,S,fr,wd: "[%s %s %02d %02d:%02d:%02d %04d] [error] msg" % (DAY3[wd],MON3[m-1],d,H,M,S,y), 0),
 "apache_err_sp":  (lambda y,m,d,H,M,S,fr,wd: "[%s %s %2d %02d:%02d:%02d %04d] [error] msg" % (DAY3[wd],MON3[m-1],d,H,M,S,y), 0),
 "logstarted":     (lambda y,m,d,H,M,S,fr,wd: "Log started: %04d-%02d-%02d  %02d:%02d:%02d" % (y,m,d,H,M,S), 0),
 "startedon":      (lambda y,m,d,H,M,S,fr,wd: "Started On: %s %s %2d %02d:%02d:%02d %04d" % (DAY3[wd],MON3[m-1],d,H,M,S,y), 0),
 "startdate":      (lambda y,m,d,H,M,S,fr,wd: "Start-Date: %04d-%02d-%02d  %02d:%02d:%02d" % (y,m,d,H,M,S), 0),
 "colon_after":    (lambda y,m,d,H,M,S,fr,wd: "%04d-%02d-%02d %02d:%02d:%02d: msg" % (y,m,d,H,M,S), 0),
 "frac_pipe":      (lambda y,m,d,H,M,S,fr,wd: "%04d-%02d-%02d %02d:%02d:%02d.%s | INFO msg" % (y,m,d,H,M,S,fr), -1),
 "frac_comma_lvl": (lambda y,m,d,H,M,S,fr,wd: "%04d-%02d-%02d %02d:%02d:%02d,%s INFO msg" % (y,m,d,H,M,S,fr), -1),
 "us_under":       (lambda y,m,d,H,M,S,fr,wd: "app %04d-%02d-%02d_%02d:%02d:%02d msg" % (y,m,d,H,M,S), 0),
 "Ymd_dash_T":     (lambda y,m,d,H,M,S,fr,wd: "%04d-%02d-%02d-%02d:%02d:%02d msg" % (y,m,d,H,M,S), 0),
 "Ymd_colon_T":    (lambda y,m,d,H,M,S,fr,wd: "%04d-%02d-%02d:%02d:%02d:%02d msg" % (y,m,d,H,M,S), 0),
 "Ymd_compact":    (lambda y,m,d,H,M,S,fr,wd: "%04d%02d%02d%02d%02d%02d msg" % (y,m,d,H,M,S), 0),
 "Ymd_compact_sp": (lambda y,m,d,H,M,S,fr,wd: "%04d%02d%02d %02d%02d%02d msg" % (y,m,d,H,M,S), 0),
 "Ymd_compact_d":  (lambda y,m,d,H,M,S,fr,wd: "%04d%02d%02d-%02d%02d%02d msg" % (y,m,d,H,M,S), 0),
 "Ymd_compactfr":  (lambda y,m,d,H,M,S,fr,wd: "%04d%02d%02dT%02d%02d%02d.%sZ msg" % (y,m,d,H,M,S,fr), -1),
 "Y_b_d":          (lambda y,m,d,H,M,S,fr,wd: "%04d %s %2d %02d:%02d:%02d msg" % (y,MON3[m-1],d,H,M,S), 0),
 "Y_B_d":          (lambda y,m,d,H,M,S,fr,wd: "%04d %s %d %02d:%02d:%02d msg" % (y,MONF[m-1],d,H,M,S), 0),
 "upper_mon":      (lambda y,m,d,H,M,S,fr,wd: "%s %s %2d %02d:%02d:%02d %04d msg" % (DAY3[wd].upper(),MON3[m-1].upper(),d,H,M,S,y), 0),
 "lower_mon":      (lambda y,m,d,H,M,S,fr,wd: "%s %s %2d %02d:%02d:%02d %04d msg" % (DAY3[wd].lower(),MON3[m-1].lower(),d,H,M,S,y), 0),
 "upper_monF":     (lambda y,m,d,H,M,S,fr,wd: "%s, %s %d, %04d %02d:%02d:%02d +0545 msg" % (DAYF[wd].upper(),MONF[m-1].upper(),d,y,H,M,S), 0),
 "lower_monF":     (lambda y,m,d,H,M,S,fr,wd: "%s, %s %d, %04d %02d:%02d:%02d -03:30 msg" % (DAYF[wd].lower(),MONF[m-1].lower(),d,y,H,M,S), 0),
 "mon_dot":        (lambda y,m,d,H,M,S,fr,wd: "%s. %s. %d, %04d %02d:%02d:%02d +0545 msg" % (DAY3[wd],MON3[m-1],d,y,H,M,S), 0),
 "mon_dot_bdY":    (lambda y,m,d,H,M,S,fr,wd: "%s. %2d %02d:%02d:%02d %04d +0545 msg" % (MON3[m-1],d,H,M,S,y), 0),
 "rfc2822_upper":  (lambda y,m,d,H,M,S,fr,wd: "%s, %02d %s %04d %02d:%02d:%02d +0545 msg" % (DAY3[wd].upper(),d,MON3[m-1].upper(),y,H,M,S), 0),
 "rfc2822_lower":  (lambda y,m,d,H,M,S,fr,wd: "%s, %02d %s %04d %02d:%02d:%02d +0545 msg" % (DAY3[wd].lower(),d,MON3[m-1].lower(),y,H,M,S), 0),
 "apache_upper":   (lambda y,m,d,H,M,S,fr,wd: "[%02d/%s/%04d:%02d:%02d:%02d +0545] msg" % (d,MON3[m-1].upper(),y,H,M,S), 0),
 "apache_lower":   (lambda y,m,d,H,M,S,fr,wd: "[%02d/%s/%04d:%02d:%02d:%02d +0545] msg" % (d,MON3[m-1].lower(),y,H,M,S), 0),
 "apache_sd":      (lambda y,m,d,H,M,S,fr,wd: "[%d/%s/%04d:%02d:%02d:%02d +0545] msg" % (d,MON3[m-1],y,H,M,S), 0),
}
OFFS = {"colonfrac_z": 5*3600+45*60, "upper_monF": 5*3600+45*60, "lower_monF": -(3*3600+30*60), "mon_dot": 5*3600+45*60,
        "mon_dot_bdY": 5*3600+45*60, "Ymd_compactfr": 0, "rfc2822_upper": 20700, "rfc2822_lower": 20700,
        "apache_upper": 20700, "apache_lower": 20700, "apache_sd": 20700}

def main():
    only = sys.argv[1:]
    sd = special_dates(); st = special_times()
    for name, (fn, fm) in T.items():
        if only and name not in only: continue
        for topt in ("-t=-03:30", "-t=+05:45"):
            dflt = -12600 if topt == "-t=-03:30" else 20700
            off = OFFS.get(name, dflt)
            lines = []; exp = {}
            for i in range(1100):
                y, m, d = sd[i] if i < len(sd) else rand_date(rng)
                H, M, S = st[(i // 3) % len(st)] if i % 3 == 0 else (rng.randint(0, 23), rng.randint(0, 59), rng.randint(0, 59))
                if fm == 0: fr = ""
                elif fm == -1: fr = "".join(rng.choice("0123456789") for _ in range(i % 9 + 1))
                else: fr = "".join(rng.choice("0123456789") for _ in range(fm))
                wd = weekday(y, m, d)
                lines.append(fn(y, m, d, H, M, S, fr, wd) + " id=%d" % i)
                if name == "YmdHM_br": S = 0
                exp[i] = epoch_ns(y, m, d, H, M, S, fr, off)
            check("s2_" + name.replace("/", "_") + ("_m0330" if dflt < 0 else "_p0545"), lines, exp, extra=(topt,), maxshow=3)

main()
