#!/usr/bin/env python3
"""Harness: generate log files in a given notation, run s4, compare with oracle.

Oracle: python integer arithmetic (days_from_civil), independent of s4/chrono.
"""
import subprocess, random, os, sys, calendar, re

S4 = "/tmp/wt/C04/target/release/s4"
WORK = "/tmp/seedout/C04/work/gen"
os.makedirs(WORK, exist_ok=True)

MON3 = ["Jan", "Feb", "Mar", "Apr", "May", "Jun", "Jul", "Aug", "Sep", "Oct", "Nov", "Dec"]
MONF = ["January", "February", "March", "April", "May", "June", "July", "August",
        "September", "October", "November", "December"]
DAY3 = ["Mon", "Tue", "Wed", "Thu", "Fri", "Sat", "Sun"]
DAYF = ["Monday", "Tuesday", "Wednesday", "Thursday", "Friday", "Saturday", "Sunday"]


def days_from_civil(y, m, d):
    y -= m <= 2
    era = (y if y >= 0 else y - 399) // 400
    yoe = y - era * 400
    doy = (153 * (m + (-3 if m > 2 else 9)) + 2) // 5 + d - 1
    doe = yoe * 365 + yoe // 4 - yoe // 100 + doy
    return era * 146097 + doe - 719468


def weekday(y, m, d):
    # 1970-01-01 was Thursday (index 3 with Monday=0)
    return (days_from_civil(y, m, d) + 3) % 7


def epoch_ns(y, m, d, H, M, S, frac, off_s):
    """frac: string of 0..9 digits"""
    ns = int((frac + "000000000")[:9]) if frac else 0
    return ((days_from_civil(y, m, d) * 86400 + H * 3600 + M * 60 + S) - off_s) * 10**9 + ns


def fmt_off(off_s, style):
    sign = "+" if off_s >= 0 else "-"
    a = abs(off_s)
    hh, mm = a // 3600, (a % 3600) // 60
    if style == "zc":
        return "%s%02d:%02d" % (sign, hh, mm)
    if style == "z":
        return "%s%02d%02d" % (sign, hh, mm)
    if style == "zp":
        assert mm == 0
        return "%s%02d" % (sign, hh)
    if style == "zcu":  # unicode minus
        return "%s%02d:%02d" % ("+" if off_s >= 0 else "−", hh, mm)
    if style == "zu":
        return "%s%02d%02d" % ("+" if off_s >= 0 else "−", hh, mm)
    raise ValueError(style)


def run_s4(path, extra=()):
    cmd = [S4, "-u", "-d", "%Y%m%dT%H%M%S%.9f", "--prepend-separator", "|", "--color=never"] + list(extra) + [path]
    p = subprocess.run(cmd, stdout=subprocess.PIPE, stderr=subprocess.PIPE)
    return p.stdout.decode("utf-8", "replace"), p.stderr.decode("utf-8", "replace"), p.returncode


def parse_out(out):
    """returns dict id -> epoch ns"""
    res = {}
    for line in out.splitlines():
        if "|" not in line:
            continue
        pre, rest = line.split("|", 1)
        m = re.search(r"id=(\d+)", rest)
        if not m:
            continue
        mm = re.match(r"(\d{4})(\d\d)(\d\d)T(\d\d)(\d\d)(\d\d)\.(\d{9})$", pre)
        if not mm:
            res[int(m.group(1))] = ("BADPREFIX", pre)
            continue
        y, mo, d, H, M, S, ns = mm.groups()
        res[int(m.group(1))] = epoch_ns(int(y), int(mo), int(d), int(H), int(M), int(S), ns, 0)
    return res


def check(name, lines, expected, extra=(), verbose=True, maxshow=5):
    """lines: list of str (each containing id=N); expected: dict id -> epoch ns"""
    path = os.path.join(WORK, name + ".log")
    with open(path, "w", encoding="utf-8") as f:
        f.write("\n".join(lines) + "\n")
    out, err, rc = run_s4(path, extra)
    got = parse_out(out)
    bad = []
    for i, exp in expected.items():
        g = got.get(i)
        if g != exp:
            bad.append((i, exp, g))
    if verbose:
        status = "OK " if not bad else "BAD"
        print("%s %-40s n=%d bad=%d extra=%s" % (status, name, len(expected), len(bad), " ".join(extra)))
        for i, exp, g in bad[:maxshow]:
            line = [l for l in lines if re.search(r"id=%d\b" % i, l)][0]
            if isinstance(g, int):
                d = (g - exp) / 1e9
                print("     id=%d line=%r exp=%d got=%d diff=%+.9fs" % (i, line, exp, g, d))
            else:
                print("     id=%d line=%r exp=%d got=%r" % (i, line, exp, g))
    return bad


def all_offsets():
    return [q * 900 for q in range(-12 * 4, 14 * 4 + 1)]


def rand_date(rng):
    y = rng.randint(1970, 2099)
    m = rng.randint(1, 12)
    d = rng.randint(1, calendar.monthrange(y, m)[1])
    if (y, m, d) == (1970, 1, 1):
        d = 2
    if (y, m, d) == (2099, 12, 31):
        d = 30
    return y, m, d


def special_dates():
    res = []
    for y in (1970, 1971, 1972, 1979, 1980, 1989, 1990, 1999, 2000, 2001, 2004, 2019, 2020, 2024, 2038, 2039, 2069, 2070, 2096, 2099):
        for m in range(1, 13):
            last = calendar.monthrange(y, m)[1]
            for d in (1, 9, 10, last):
                if (y, m, d) in ((1970, 1, 1), (2099, 12, 31)):
                    continue
                res.append((y, m, d))
    return res


def special_times():
    return [(0, 0, 0), (23, 59, 59), (12, 0, 0), (0, 0, 1), (9, 9, 9), (10, 10, 10), (19, 59, 59), (20, 0, 0), (1, 2, 3)]
