import os,subprocess,calendar
from datetime import datetime
S4="/tmp/wt/C11/target/release/s4"
short=["jan","feb","mar","apr","may","jun","jul","aug","sep","oct","nov","dec"]
long_=["january","february","march","april","may","june","july","august","september","october","november","december"]
def forms(m):
    out=[]
    for base in (short[m],long_[m]):
        for f in (base, base.capitalize(), base.upper()):
            out.append(f)
            if base==short[m] : out.append(f+".")
    return list(dict.fromkeys(out))
bad=0;n=0
for m in range(12):
    for sp in forms(m):
        for tmpl in ("%s %2d 12:00:00 host p: x","<13>%s %2d 12:00:00 host p: x","INFO %s-%02d 12:00:00 === x", "%s %2d 12:00:00 UTC host p: x"):
            Y=2021
            pm=(m-1)%12
            l1=tmpl%(sp,15); l2=tmpl%(short[pm].capitalize(),14)
            # l1 in Y-1 ; l2 in Y (11 months later, or for m==0: Jan 15 Y-1 -> Dec 14 Y-1!! handle)
            if m==0:
                y1=Y-1; y2=Y-1  # Jan 15 -> Dec 14 same year
                mt=datetime(Y-1,12,20)
            else:
                y1=Y-1; y2=Y; mt=datetime(Y,6,1) if pm<5 else datetime(Y,12,31)
            p="t/m.log"; open(p,"w").write(l1+"\n"+l2+"\n"); e=calendar.timegm(mt.timetuple()); os.utime(p,(e,e))
            out=subprocess.run([S4,"-t=+00:00","-u","--color=never",p],capture_output=True,text=True).stdout.splitlines()
            exp=["%04d%02d15T120000.000+0000:%s"%(y1,m+1,l1),"%04d%02d14T120000.000+0000:%s"%(y2,pm+1,l2)]
            n+=1
            if out!=exp:
                bad+=1; print("MISMATCH",repr(sp),tmpl,out,exp)
print("checked",n,"bad",bad)
