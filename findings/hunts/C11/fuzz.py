#!/usr/bin/env python3
"""Fuzz year-less logs against s4; oracle = the generator's own instants."""
import os, sys, random, subprocess, gzip, tarfile, io, lzma, bz2, calendar
from datetime import datetime, timedelta, timezone

S4 = "/tmp/wt/C11/target/release/s4"
W = "/tmp/seedout/C11/work/fz"
os.makedirs(W, exist_ok=True)
MON = ["Jan","Feb","Mar","Apr","May","Jun","Jul","Aug","Sep","Oct","Nov","Dec"]
MONL = ["January","February","March","April","May","June","July","August","September","October","November","December"]

def fmt_line(style, ldt, i, pad):
    # ldt naive local datetime
    m = MON[ldt.month-1]
    if style == 0:
        s = "%s %2d %02d:%02d:%02d host prog[%d]: msg %d" % (m, ldt.day, ldt.hour, ldt.minute, ldt.second, i, i)
    elif style == 1:
        s = "<%d>%s %2d %02d:%02d:%02d host prog: msg %d" % (i % 192, m, ldt.day, ldt.hour, ldt.minute, ldt.second, i)
    elif style == 2:
        s = "%s %02d %02d:%02d:%02d host prog: msg %d" % (MONL[ldt.month-1], ldt.day, ldt.hour, ldt.minute, ldt.second, i)
    elif style == 3:
        s = "INFO %s-%02d %02d:%02d:%02d === msg %d" % (m, ldt.day, ldt.hour, ldt.minute, ldt.second, i)
    elif style == 4:
        s = '{"logTime": "%02d%02d/%02d%02d%02d", "n":"%d"}' % (ldt.month, ldt.day, ldt.hour, ldt.minute, ldt.second, i)
    elif style == 5:
        s = "[x] %s %d %02d:%02d:%02d msg %d" % (m, ldt.day, ldt.hour, ldt.minute, ldt.second, i)
    return s + " " + "p" * pad

def gen(rng, nyears=None, n=None, mono=False):
    """return list of UTC-naive local datetimes (in file tz) - oracle"""
    if nyears is None:
        nyears = rng.choice([0, 0, 1, 1, 2, 3, 5])
    if n is None:
        n = rng.randint(2, 60)
    endyear = rng.randint(2001, 2037)
    # choose last instant
    last = datetime(endyear, 1, 1) + timedelta(seconds=rng.randint(0, 365*86400 - 1))
    dts = [last]
    cur = last
    target_first_year = endyear - nyears
    while len(dts) < n or cur.year > target_first_year:
        # gap going backwards in file: previous message is earlier by gap (or slightly later: out-of-order < 1 day)
        r = rng.random()
        if r < 0.1 and not mono:
            gap = -rng.randint(0, 86400 - 1)  # previous is LATER by < 1 day (time runs backwards in file)
        elif r < 0.5:
            gap = rng.randint(0, 3600)
        elif r < 0.8:
            gap = rng.randint(0, 40 * 86400)
        else:
            gap = rng.randint(0, 364 * 86400)
        prev = cur - timedelta(seconds=gap)
        if prev.year < target_first_year:
            if len(dts) >= n:
                break
            prev = cur - timedelta(seconds=rng.randint(0, 60))
            if prev.year < target_first_year:
                break
        if prev.year > endyear:
            continue
        dts.append(prev)
        cur = prev
        if len(dts) > 400:
            break
    dts.reverse()
    return dts

def excluded_245(dts):
    for i, d in enumerate(dts):
        if d.month == 2 and d.day == 29:
            if any(e.year > d.year for e in dts[i+1:]):
                return True
    return False

def ambiguous(dts):
    """cases where the property's own rule is ambiguous: backward step >= 23h, or a forward gap such that
    wrap not detectable (prev with year+1 is within 25h after next)."""
    for a, b in zip(dts, dts[1:]):
        if a > b and (a - b) >= timedelta(hours=23):
            return True
        if a.year < b.year:
            try:
                a2 = a.replace(year=b.year)
            except ValueError:
                return True
            # if a2 <= b + 25h then wrap not detectable
            if a2 <= b + timedelta(hours=26):
                return True
        if a.year > b.year:
            return True
    return False

def run(args, env=None):
    p = subprocess.run([S4] + args, stdout=subprocess.PIPE, stderr=subprocess.PIPE, env=env)
    return p.returncode, p.stdout.decode("utf-8", "replace"), p.stderr.decode("utf-8", "replace")

def tzstr(mins):
    sign = "+" if mins >= 0 else "-"
    a = abs(mins)
    return "%s%02d:%02d" % (sign, a // 60, a % 60)

def write_form(form, path_base, data, mtime_epoch, rng):
    """returns path to give to s4"""
    if form == "plain":
        p = path_base + ".log"
        open(p, "wb").write(data)
        os.utime(p, (mtime_epoch, mtime_epoch))
        return p
    other = mtime_epoch + rng.choice([-1, 1]) * rng.randint(400, 2000) * 86400  # outer file mtime in a different year
    if other < 86400: other = mtime_epoch + 800 * 86400
    if form == "gz":
        p = path_base + ".log.gz"
        with open(p, "wb") as f:
            with gzip.GzipFile(filename="x.log", mode="wb", fileobj=f, mtime=mtime_epoch) as g:
                g.write(data)
        os.utime(p, (other, other))
        return p
    if form == "tar":
        p = path_base + ".tar"
        with tarfile.open(p, "w", format=rng.choice([tarfile.USTAR_FORMAT, tarfile.GNU_FORMAT, tarfile.PAX_FORMAT])) as t:
            ti = tarfile.TarInfo("dir/x.log")
            ti.size = len(data)
            ti.mtime = mtime_epoch
            t.addfile(ti, io.BytesIO(data))
        os.utime(p, (other, other))
        return p
    if form == "xz":
        p = path_base + ".log.xz"
        open(p, "wb").write(lzma.compress(data))
        os.utime(p, (mtime_epoch, mtime_epoch))
        return p
    if form == "bz2":
        p = path_base + ".log.bz2"
        open(p, "wb").write(bz2.compress(data))
        os.utime(p, (mtime_epoch, mtime_epoch))
        return p
    raise Exception(form)

def expected_lines(dts, lines, tzmin, a=None, b=None):
    out = []
    for d, l in zip(dts, lines):
        u = d - timedelta(minutes=tzmin)
        if a is not None and u < a: continue
        if b is not None and u > b: continue
        out.append("%s.000+0000:%s" % (u.strftime("%Y%m%dT%H%M%S"), l))
    return out

def main():
    seed = int(sys.argv[1]) if len(sys.argv) > 1 else 1
    iters = int(sys.argv[2]) if len(sys.argv) > 2 else 200
    rng = random.Random(seed)
    nfail = 0
    for it in range(iters):
        usewin = rng.random() < 0.5
        dts = gen(rng, mono=usewin)
        if excluded_245(dts) or ambiguous(dts):
            continue
        style = rng.choice([0, 0, 1, 2, 3, 4, 5])
        tzmin = rng.choice([0, 0, -300, 330, 840, -720, 60, -570, 765])
        pads = [rng.choice([0, 0, 5, 50, 300]) for _ in dts]
        lines = [fmt_line(style, d, i, pads[i]) for i, d in enumerate(dts)]
        data = ("\n".join(lines) + "\n").encode()
        # mtime: any instant within the last message's local year
        y = dts[-1].year
        lo = datetime(y, 1, 1); hi = datetime(y + 1, 1, 1)
        k = rng.random()
        if k < 0.2: ml = lo
        elif k < 0.4: ml = hi - timedelta(seconds=1)
        elif k < 0.6: ml = dts[-1]
        else: ml = lo + timedelta(seconds=rng.randint(0, int((hi - lo).total_seconds()) - 1))
        mu = ml - timedelta(minutes=tzmin)
        mtime_epoch = calendar.timegm(mu.timetuple())
        form = rng.choice(["plain", "plain", "gz", "tar", "xz", "bz2"])
        base = os.path.join(W, "s%d_i%d" % (seed, it))
        p = write_form(form, base, data, mtime_epoch, rng)
        first_len = len(lines[0]) + 1
        bsz = rng.choice([65536, 65536, 64, 128, 256, 1024, 4096, 0x100000])
        maxl = max(len(l) for l in lines) + 1
        while bsz < maxl + 2 or bsz < first_len * 2:
            bsz *= 2
        if bsz % 2: bsz += 1
        args = ["-t=" + tzstr(tzmin), "-u", "--color=never", "--blocksz", str(bsz)]
        a = b = None
        us = [d - timedelta(minutes=tzmin) for d in dts]
        if usewin and rng.random() < 0.7:
            a = rng.choice(us) + timedelta(seconds=rng.choice([-1, 0, 1, 3600, -86400 * 3]))
            args += ["-a=" + a.strftime("%Y%m%dT%H%M%S") + "+00:00"]
        if usewin and rng.random() < 0.7:
            b = rng.choice(us) + timedelta(seconds=rng.choice([-1, 0, 1, 3600, 86400 * 3]))
            args += ["-b=" + b.strftime("%Y%m%dT%H%M%S") + "+00:00"]
        rc, out, err = run(args + [p])
        got = out.split("\n")
        if got and got[-1] == "": got.pop()
        exp = expected_lines(dts, lines, tzmin, a, b)
        if got != exp:
            nfail += 1
            print("FAIL seed=%d it=%d form=%s style=%d tz=%s bsz=%d n=%d args=%s file=%s rc=%d" % (seed, it, form, style, tzstr(tzmin), bsz, len(dts), " ".join(args), p, rc))
            # show first diff
            for j in range(max(len(got), len(exp))):
                g = got[j] if j < len(got) else None
                e = exp[j] if j < len(exp) else None
                if g != e:
                    print("   first diff at out line %d:\n     got %r\n     exp %r" % (j, g[:80] if g else g, e[:80] if e else e))
                    break
            ld=[j for j in range(min(len(got),len(exp))) if got[j]!=exp[j]]
            if ld:
                j=ld[-1]
                print("   last diff at %d:\n     got %r\n     exp %r" % (j, got[j][:70], exp[j][:70]))
                if j+1<len(got): print("     next got %r\n     next exp %r" % (got[j+1][:70], exp[j+1][:70]))
            print("   got %d lines, exp %d lines; stderr: %s" % (len(got), len(exp), err.strip()[:200]))
        else:
            os.remove(p)
    print("seed", seed, "done fails", nfail)

main()
