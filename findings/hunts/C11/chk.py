import sys,subprocess,re
from datetime import datetime,timedelta
# independent oracle: given lines (Month dd HH:MM:SS), final year -> assign years by rule: scanning backwards, keep year unless that makes prev later than next by > 1 day; then year-1
MON={m:i+1 for i,m in enumerate("jan feb mar apr may jun jul aug sep oct nov dec".split())}
def parse(line):
    m=re.search(r'([A-Za-z]{3})[a-z]*[ -]+(\d+) (\d\d):(\d\d):(\d\d)',line)
    return MON[m.group(1).lower()],int(m.group(2)),int(m.group(3)),int(m.group(4)),int(m.group(5))
def oracle(lines,year):
    out=[];nxt=None
    for l in reversed(lines):
        mo,d,h,mi,s=parse(l)
        dt=datetime(year,mo,d,h,mi,s)
        if nxt is not None and dt-nxt>timedelta(days=1):
            year-=1; dt=datetime(year,mo,d,h,mi,s)
        out.append(dt);nxt=dt
    return out[::-1]
if __name__=="__main__":
    lines=open(sys.argv[1]).read().splitlines()
    for l,d in zip(lines,oracle(lines,int(sys.argv[2]))): print(d.strftime("%Y%m%dT%H%M%S"),l[:40])
