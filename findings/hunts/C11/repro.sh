#!/bin/sh
# Reproductions for C11 findings
S4=/tmp/wt/C11/target/release/s4
D=/tmp/seedout/C11/work/repro; mkdir -p $D; cd $D
echo "== F1: year-less stamp with its own zone name; mtime year taken in -t zone"
printf 'Dec 30 10:00:00 EST host p: a\nDec 31 23:30:00 EST host p: b\n' > f1.log; touch -d '2022-01-01 04:30:00 UTC' f1.log
$S4 -t=+00:00 -u --color=never f1.log
printf 'Dec 31 10:00:00 JST host p: a\nJan  1 00:30:00 JST host p: b\n' > f1b.log; touch -d '2021-12-31 15:30:00 UTC' f1b.log
$S4 -t=+00:00 -u --color=never f1b.log
echo "== F2: out-of-order pair across New Year"
printf 'Dec 31 23:59:58 host p: m0\nJan  1 00:00:01 host p: m1\nDec 31 23:59:59 host p: m2\nJan  1 00:00:02 host p: m3\n' > f2.log; touch -d '2022-01-01 00:00:05 UTC' f2.log
$S4 -t=+00:00 -u --color=never f2.log
echo "== F3: dummy year 1972 leaks into the window"
printf 'Jun  1 10:00:00 host p: a71\nFeb  1 10:00:00 host p: b72\nMay  1 10:00:00 host p: c72\nAug  1 10:00:00 host p: d72\nJan  5 10:00:00 host p: e73\n' > f3.log; touch -d '1973-02-01 12:00:00 UTC' f3.log
$S4 -t=+00:00 -u --color=never -a=19720301T000000+00:00 -b=19721231T000000+00:00 f3.log
echo "== F4: backwards step of 24h30m is not treated as a year step (threshold 25h)"
printf 'Jun  2 12:30:00 host p: first\nJun  1 12:00:00 host p: second\n' > f4.log; touch -d '2021-06-01 12:00:00 UTC' f4.log
$S4 -t=+00:00 -u --color=never f4.log
echo "== F5: pax tar, mtime only in the pax extended header"
python3 - <<'PY'
import tarfile,io,os,calendar
from datetime import datetime
data=b"Dec 31 23:00:00 host p: a\nJan  1 01:00:00 host p: b\n"
e=calendar.timegm(datetime(2015,1,1,2).timetuple())
with tarfile.open("f5.tar","w",format=tarfile.PAX_FORMAT) as t:
    ti=tarfile.TarInfo("x.log"); ti.size=len(data); ti.mtime=0; ti.pax_headers={"mtime":"%d.25"%e}; t.addfile(ti,io.BytesIO(data))
o=calendar.timegm(datetime(2020,5,5).timetuple()); os.utime("f5.tar",(o,o))
PY
tar -tvf f5.tar --full-time; $S4 -t=+00:00 -u --color=never f5.tar
