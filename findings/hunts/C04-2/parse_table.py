import re, json, sys
src = open('/tmp/wt/C04/src/data/datetime.rs', encoding='utf8').read()
def _conv(m):
    body=m.group(1)
    return '"' + body.replace('\\','\\\\').replace('"','\\"') + '"'
src = re.sub(r'r#"(.*?)"#', _conv, src, flags=re.S)
src = re.sub(r'\n\s*/\*.*?\*/', lambda m: '\n'*m.group(0).count('\n'), src, flags=re.S)
src = re.sub(r'\n\s*//DTPD!\(', '\n//DTPDx(', src)
lines = src.split('\n')
# constants: const NAME: &Type = <expr>;
consts = {}
cre = re.compile(r'^(?:pub(?:\(crate\))? )?const (\w+): &\w+ = (.*?);\s*(?://.*)?$', re.S)
# gather multi-line const statements
i = 0
stmts = []
while i < len(lines):
    l = lines[i]
    if re.match(r'^(pub(\(crate\))? )?const \w+: &(RegexPattern|CaptureGroupPattern|CaptureGroupName|DateTimePattern_str|str) =', l):
        s = l
        while not s.rstrip().endswith(';') and not re.search(r';\s*//', s):
            i += 1
            s += '\n' + lines[i]
        stmts.append(s)
    i += 1
def parse_str(tok):
    tok = tok.strip()
    m = re.match(r'^r(#*)"(.*)"\1$', tok, re.S)
    if m: return m.group(2)
    m = re.match(r'^"(.*)"$', tok, re.S)
    if m:
        s = m.group(1)
        return s.replace('\\\\', '\x00').replace('\\"', '"').replace('\\t','\t').replace('\\n','\n').replace('\x00','\\')
    return None
def split_args(s):
    out=[];cur='';depth=0;i=0;instr=False;raw=False
    while i < len(s):
        c=s[i]
        if instr:
            cur+=c
            if raw:
                if c=='"': instr=False
            else:
                if c=='\\': cur+=s[i+1]; i+=1
                elif c=='"': instr=False
        else:
            if c=='"':
                instr=True; raw = cur.rstrip().endswith('r') ; cur+=c
            elif c in '([': depth+=1; cur+=c
            elif c in ')]': depth-=1; cur+=c
            elif c==',' and depth==0: out.append(cur); cur=''
            else: cur+=c
        i+=1
    if cur.strip(): out.append(cur)
    return [o.strip() for o in out]
def evalexpr(e):
    e = e.strip()
    v = parse_str(e)
    if v is not None: return v
    m = re.match(r'^concatcp!\((.*)\)$', e, re.S)
    if m:
        return ''.join(evalexpr(a) for a in split_args(m.group(1)))
    if e in consts: return consts[e]
    raise KeyError(e)
pending = []
for s in stmts:
    m = re.match(r'^(?:pub(?:\(crate\))? )?const (\w+): &\w+ =\s*(.*?);', s, re.S)
    pending.append((m.group(1), m.group(2)))
for _ in range(5):
    rest=[]
    for n,e in pending:
        try: consts[n]=evalexpr(e)
        except KeyError: rest.append((n,e))
    pending=rest
print('unresolved', [n for n,_ in pending], file=sys.stderr)
# DTFSS
dtfss = {}
for m in re.finditer(r'const (DTFSS_\w+): DTFSSet = DTFSSet \{(.*?)\n\};', src, re.S):
    body = m.group(2)
    d = {}
    for f in re.finditer(r'(\w+): ([^,\n]+),', body):
        d[f.group(1)] = f.group(2).strip()
    dtfss[m.group(1)] = d
# rows
start = src.index('pub const DATETIME_PARSE_DATAS: [DateTimeParseInstr')
rows=[]
pos = start
while True:
    j = src.find('DTPD!(', pos)
    if j < 0: break
    # find matching paren
    k = j+6; depth=1; instr=False; raw=False
    while depth>0:
        c=src[k]
        if instr:
            if raw:
                if c=='"': instr=False
            else:
                if c=='\\': k+=1
                elif c=='"': instr=False
        else:
            if c=='"': instr=True; raw = src[k-1]=='r'
            elif c=='/' and src[k+1]=='/':
                k = src.index('\n', k)
            elif c in '([': depth+=1
            elif c in ')]': depth-=1
        k+=1
    body = src[j+6:k-1]
    # strip comment lines
    body2 = '\n'.join(l for l in body.split('\n') if not l.strip().startswith('//'))
    args = split_args(body2)
    if len(args)<7:
        print('SKIP', src.count('\n',0,j)+1, file=sys.stderr); pos=k; continue
    lineno = src.count('\n',0,j)+1
    try:
        rx = evalexpr(args[0])
    except KeyError as ex:
        print('ERR', lineno, ex, file=sys.stderr); pos=k; continue
    tcs=[]
    for t in re.finditer(r'\(\s*(\d+),\s*(\d+),\s*\((\w+),\s*(\d+),\s*(\d+),\s*(\d+),\s*(\d+),\s*(\d+),\s*(\d+),\s*(\d+)\),\s*(r?"(?:[^"\\]|\\.)*")', args[6], re.S):
        tcs.append(dict(b=int(t.group(1)), e=int(t.group(2)), tz=t.group(3), dt=[int(t.group(x)) for x in range(4,11)], line=parse_str(t.group(11))))
    rows.append(dict(idx=len(rows), line=lineno, rx_src=args[0], rx=rx, dtfs=args[1], dtfs_d=dtfss.get(args[1]), sib=int(args[2]), sie=int(args[3]), first=args[4], last=args[5], tcs=tcs))
    pos = k
json.dump(dict(rows=rows, consts=consts), open('table.json','w'), indent=1)
print(len(rows))
