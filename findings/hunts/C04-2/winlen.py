import warnings; warnings.simplefilter('ignore')
from gen import ROWS, sp, sc
def mx(p, unb):
    n=0
    for op,av in p:
        if op in (sc.LITERAL,sc.NOT_LITERAL,sc.ANY,sc.IN): n+= (3 if op==sc.LITERAL and av>127 else 1)
        elif op==sc.BRANCH: n+=max(mx(a,unb) for a in av[1])
        elif op==sc.SUBPATTERN: n+=mx(av[3],unb)
        elif op in (sc.MAX_REPEAT,sc.MIN_REPEAT):
            lo,hi,sub=av; k = hi if hi<1000 else max(lo,unb); n+=k*mx(sub,unb)
    return n
for r in ROWS:
    p=sp.parse(r['py'])
    # drop trailing boundary group (NOALNUM etc.) -- count it anyway minus 1
    m=mx(p,1)
    hasu = '−' in r['py']
    extra = 2 if hasu else 0   # U+2212 is 3 bytes
    w=r['sie']-r['sib']
    if r['py'].startswith('^') and m+extra>w:
        print(r['idx'],r['line'],'window',w,'maxlen(unbounded=1)',m,'+utf8',extra, r['dtfs'])
