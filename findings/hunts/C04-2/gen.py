import json,re,sys,random,datetime,subprocess,os,shutil
try:
    import re._parser as sp, re._constants as sc
except ImportError:
    import sre_parse as sp, sre_constants as sc
T=json.load(open('table.json'))
ROWS=T['rows']
POS={'digit':'0-9','alpha':'A-Za-z','alnum':'A-Za-z0-9','blank':' \\t','word':'A-Za-z0-9_','upper':'A-Z','lower':'a-z','space':' \\t\\n\\r'}
def conv(rx):
    rx = re.sub(r'\\\n\s*', '', rx)
    rx = rx.replace('(?i)DEBUG','(?i:DEBUG').replace('ALERT(?-i)|PANIC','ALERT)|PANIC')
    rx = rx.replace('[[[:digit:]]]','[0-9]')
    rx = rx.replace('[^[[:alnum:]]\\+\\-]', '[^A-Za-z0-9+\\-]')
    rx = re.sub(r'\[\[:\^(\w+):\]\]', lambda m:'[^'+POS[m.group(1)]+']', rx)
    rx = re.sub(r'\[\^\[:(\w+):\]\]', lambda m:'[^'+POS[m.group(1)]+']', rx)
    rx = re.sub(r'\[\[:(\w+):\]\]', lambda m:'['+POS[m.group(1)]+']', rx)
    rx = re.sub(r'\[:(\w+):\]', lambda m:POS[m.group(1)], rx)
    rx = rx.replace('−','−')
    return rx
for r in ROWS:
    r['py']=conv(r['rx'])
    try:
        r['re']=re.compile(r['py'])
    except Exception as e:
        print('BADRX',r['idx'],e,r['py'][:100]); r['re']=None
# sampler: generate string from parsed pattern; named groups replaced via fields dict
def charfrom(items, mode):
    neg=False; cands=[]
    for op,av in items:
        if op==sc.NEGATE: neg=True
        elif op==sc.LITERAL: cands.append(chr(av))
        elif op==sc.RANGE: cands+= [chr(av[0]),chr(av[1])]
        elif op==sc.CATEGORY: cands.append('5')
    if neg:
        for c in ' :;#x5':
            if not re.match('['+ '^' + ''.join(re.escape(x) for x in cands)+']', c): continue
            # build real test
        return None
    return cands
def sample(p, fields, mode, groupnames):
    out=''
    for op,av in p:
        if op==sc.LITERAL: out+=chr(av)
        elif op==sc.NOT_LITERAL: out+='x' if chr(av)!='x' else 'y'
        elif op==sc.ANY: out+='x'
        elif op==sc.IN:
            neg = any(o==sc.NEGATE for o,_ in av)
            if not neg:
                o,a=[x for x in av][mode.get('inpick',0) % len(av)]
                if o==sc.LITERAL: out+=chr(a)
                elif o==sc.RANGE: out+=chr(a[0])
                elif o==sc.CATEGORY: out+='5'
            else:
                sub = sp.SubPattern(p.state if hasattr(p,'state') else None,[(op,av)])
                for c in mode.get('negchars',' ;#x5+'):
                    if matches_in(av,c): out+=c; break
                else: raise ValueError('no negchar')
        elif op==sc.AT:
            pass
        elif op==sc.BRANCH:
            alts=av[1]
            k=mode.get('branch',0)
            # avoid picking an empty/anchor-only alt unless last resort
            out+=sample(alts[k % len(alts)],fields,mode,groupnames)
        elif op==sc.SUBPATTERN:
            gid=av[0]; sub=av[3]
            name=groupnames.get(gid)
            if name and name in fields: out+=fields[name]
            else: out+=sample(sub,fields,mode,groupnames)
        elif op in (sc.MAX_REPEAT, sc.MIN_REPEAT):
            lo,hi,sub=av
            n = lo
            if mode.get('rep')=='max': n = hi if hi<100 else max(lo,mode.get('unb',2))
            elif mode.get('rep')=='one': n = max(lo, min(hi,1))
            for _ in range(n): out+=sample(sub,fields,mode,groupnames)
        else:
            raise ValueError(str(op))
    return out
def matches_in(av,c):
    neg=False; hit=False
    for o,a in av:
        if o==sc.NEGATE: neg=True
        elif o==sc.LITERAL and chr(a)==c: hit=True
        elif o==sc.RANGE and a[0]<=ord(c)<=a[1]: hit=True
        elif o==sc.CATEGORY:
            if a==sc.CATEGORY_DIGIT and c.isdigit(): hit=True
    return hit!=neg
def gen(row, fields, mode):
    p=sp.parse(row['py'])
    names={v:k for k,v in p.state.groupdict.items()}
    return sample(p,fields,mode,names)
if __name__=='__main__':
    for r in ROWS:
        try:
            s=gen(r,{}, {'rep':'one'})
            print(r['idx'], repr(s), bool(r['re'].search(s)))
        except Exception as e:
            print(r['idx'],'ERR',e)
