import sys,os,re,random,datetime,subprocess,shutil,json,warnings
warnings.simplefilter('ignore')
from gen import ROWS, gen, conv
S4='/tmp/wt/C04/target/release/s4'
MON=['january','february','march','april','may','june','july','august','september','october','november','december']
DOW=['monday','tuesday','wednesday','thursday','friday','saturday','sunday']
TZN={'Z':0,'z':0,'UTC':0,'utc':0,'PDT':-7*3600,'EDT':-4*3600,'CEST':7200,'JST':9*3600,'NZDT':13*3600,'ACWST':8*3600+45*60,'pdt':-7*3600,'WITA':8*3600,'PETT':12*3600,'CHAST':12*3600+45*60,'NPT':5*3600+45*60}
DEF_TZ=('+05:45', 5*3600+45*60)
def groupre(py,name):
    i=py.find('(?P<%s>'%name)
    if i<0: return None
    d=0;j=i
    while True:
        c=py[j]
        if c=='\\': j+=2; continue
        if c=='[':
            j=py.index(']',j+2)+1 if py[j+1]!='^' else py.index(']',j+3)+1; continue
        if c=='(': d+=1
        elif c==')':
            d-=1
            if d==0: break
        j+=1
    inner=py[i+len('(?P<%s>'%name):j]
    return re.compile('(?:'+inner+')')
def case_forms(s): return [s.lower(), s.capitalize(), s.upper()]
def cands(name, v):
    if name=='year': return ['%04d'%v, '%02d'%(v%100)]
    if name=='month':
        out=['%02d'%v,'%d'%v]
        full=MON[v-1]
        for f in case_forms(full)+case_forms(full[:3])+[x+'.' for x in case_forms(full[:3])]: out.append(f)
        return out
    if name=='day': return ['%02d'%v,'%d'%v,' %d'%v]
    if name=='hour': return ['%02d'%v,'%d'%v]
    if name in('minute','second'): return ['%02d'%v]
    if name=='dayIgnore':
        full=DOW[v]
        return case_forms(full)+case_forms(full[:3])+[x+'.' for x in case_forms(full[:3])]
    return [v]
def tzcands(kind):
    offs=[0,-0.0001,5*3600+45*60,-(9*3600+30*60),14*3600,-12*3600,3600,-3*3600-30*60, 12*3600+45*60]
    out=[]
    for o in offs:
        neg = o<0; a=abs(int(round(o))); h,m=divmod(a//60,60); 
        for sign in (['-','−'] if neg else ['+']):
            out.append((sign+'%02d%02d'%(h,m), -a if neg else a))
            out.append((sign+'%02d:%02d'%(h,m), -a if neg else a))
            if m==0: out.append((sign+'%02d'%h, -a if neg else a))
    for k,v in TZN.items(): out.append((k,v))
    for k in ['IST','CST','BST','ist']: out.append((k,None))
    return out
def build(outdir, seed=1, only=None):
    rnd=random.Random(seed)
    cases=[]
    for r in ROWS:
        if only and r['idx'] not in only: continue
        py=r['py']
        names=[n for n in ['year','month','day','hour','minute','second','fractional','tz','dayIgnore','epoch'] if '(?P<%s>'%n in py]
        gre={n:groupre(py,n) for n in names}
        anchored = py.startswith('^')
        tzs=[t for t in tzcands(0) if 'tz' in names and gre['tz'].fullmatch(t[0])] or [None]
        fracs=[k for k in range(1,10) if 'fractional' in names and gre['fractional'].fullmatch('1'*k)] or [0]
        pads=[0] if anchored else [0,7,45,120,280,390,500,700,1000]
        N = 40 if anchored else 70
        for it in range(N):
            d=datetime.date(1970,1,2)+datetime.timedelta(days=rnd.randrange(0,(datetime.date(2099,12,30)-datetime.date(1970,1,2)).days+1))
            if it%7==0: d=rnd.choice([datetime.date(2000,2,29),datetime.date(2024,2,29),datetime.date(1972,2,29),datetime.date(2096,2,29),datetime.date(2099,12,30),datetime.date(1970,1,2),datetime.date(2038,1,19)])
            H,M,Sx=rnd.choice([(0,0,0),(23,59,59),(rnd.randrange(24),rnd.randrange(60),rnd.randrange(60)),(9,5,7),(12,0,0)])
            fields={}
            ok=True
            vals={'year':d.year,'month':d.month,'day':d.day,'hour':H,'minute':M,'second':Sx,'dayIgnore':d.weekday()}
            for n in names:
                if n in vals:
                    cs=[c for c in cands(n,vals[n]) if gre[n].fullmatch(c)]
                    if n=='year' and len(cs)>1: cs=cs[:1]
                    if not cs: ok=False;break
                    mode_long = it%3==1
                    fields[n]= max(cs,key=len) if mode_long else rnd.choice(cs)
            if not ok: continue
            ns=0
            k=fracs[it%len(fracs)]
            if k:
                fs=''.join(rnd.choice('0123456789') for _ in range(k))
                if it%5==0: fs='9'*k
                if it%11==0: fs='0'*(k-1)+'1'
                fields['fractional']=fs; ns=int((fs+'0'*9)[:9])
            tz=tzs[it%len(tzs)]
            if tz: fields['tz']=tz[0]
            epoch=None
            if 'epoch' in names:
                epoch=rnd.randrange(900000000,2999999999); fields['epoch']=str(epoch)
            mode={'rep': ['one','max','min'][it%3] , 'inpick': rnd.randrange(6), 'branch':0, 'unb':3}
            try: s=gen(r,fields,mode)
            except Exception as e:
                print('GENERR',r['idx'],e); break
            pad=pads[it%len(pads)]
            if pad: s=('x'*(pad-1))+' '+s
            s=s+' tail message'
            # expected
            off = tz[1] if tz and tz[1] is not None else DEF_TZ[1]
            if epoch is not None:
                exp=datetime.datetime(1970,1,1)+datetime.timedelta(seconds=epoch)
            elif 'month' in names:
                yy=d.year
                if 'year' in names and len(fields['year'])==2: pass
                exp=datetime.datetime(yy,d.month,d.day,H,M,Sx)-datetime.timedelta(seconds=off)
            else: continue
            expstr=exp.strftime('%Y-%m-%dT%H:%M:%S')+'.%09d'%ns
            cases.append(dict(row=r['idx'],line=r['line'],text=s,exp=expstr,noyear=('year' not in names),pad=pad,fields=fields,it=it))
    shutil.rmtree(outdir,ignore_errors=True); os.makedirs(outdir)
    for i,c in enumerate(cases):
        c['fn']='c%05d.log'%i
        with open(os.path.join(outdir,c['fn']),'w',encoding='utf8') as f: f.write(c['text']+'\n')
        os.utime(os.path.join(outdir,c['fn']),(1735500000,1735500000))
    return cases
def run(outdir,cases):
    res={}
    B=400
    for i in range(0,len(cases),B):
        fns=[os.path.join(outdir,c['fn']) for c in cases[i:i+B]]
        p=subprocess.run([S4,'-u','-n','-t',DEF_TZ[0],'-d','%Y-%m-%dT%H:%M:%S.%9f','--prepend-separator','|','--color','never']+fns,capture_output=True)
        for l in p.stdout.decode('utf8','replace').split('\n'):
            m=re.match(r'(c\d+\.log)\|([^|]*)\|',l)
            if m: res[m.group(1)]=m.group(2)
    return res
if __name__=='__main__':
    outdir=sys.argv[1]; seed=int(sys.argv[2])
    only=set(int(x) for x in sys.argv[3].split(',')) if len(sys.argv)>3 else None
    cases=build(outdir,seed,only)
    res=run(outdir,cases)
    bad=[]
    for c in cases:
        got=res.get(c['fn'])
        e=c['exp']
        if got is None: c['got']=None; c['kind']='NOMATCH'; bad.append(c); continue
        g=got
        if c['noyear']: e=e[4:]; g=got[4:]
        if g!=e: c['got']=got; c['kind']='WRONG'; bad.append(c)
    json.dump(bad,open(outdir+'.bad.json','w'),indent=1,ensure_ascii=False)
    print('cases',len(cases),'bad',len(bad))
    import collections
    cnt=collections.Counter((c['row'],c['kind']) for c in bad)
    tot=collections.Counter(c['row'] for c in cases)
    for (row,k),v in sorted(cnt.items()): print(row,k,v,'/',tot[row])
