#!/bin/sh
# C02 reproductions: whole file silently dropped (rc 0, empty stdout+stderr) by block-zero analysis
cd /tmp/hunt/C02/work
S4=/tmp/hunt/C02/s4
# R1: first line longer than one block (default blocksz 65536)
python3 -c "import sys;sys.stdout.buffer.write(b'2020-01-01 00:00:01 '+b'a'*70000+b'\n2020-01-01 00:00:02 b\n')" > r1.log
echo "R1 expect 70043 bytes, got: $($S4 --color never -t +00:00 r1.log | wc -c)"
# R2: short first message, second line crosses block-zero end (fewer than 3 lines / 2 syslines in block 0)
python3 -c "import sys;sys.stdout.buffer.write(b'2020-01-01 00:00:01 a\n2020-01-01 00:00:02 '+b'b'*70000+b'\n')" > r2.log
echo "R2 expect 70043 bytes, got: $($S4 --color never -t +00:00 r2.log | wc -c)"
# R3: one message, 3 short lines then a long continuation line (only 1 sysline in block 0)
python3 -c "import sys;sys.stdout.buffer.write(b'2020-01-01 00:00:01 a\ncont\ncont2\n'+b'c'*70000+b'\n2020-01-01 00:00:02 b\n')" > r3.log
echo "R3 expect 70056 bytes, got: $($S4 --color never -t +00:00 r3.log | wc -c)"
# R4: small block: first line 1 byte longer than the block
python3 -c "import sys;sys.stdout.buffer.write(b'2020-01-01 00:00:01 '+b'a'*44+b'\n2020-01-01 00:00:02 b\n')" > r4.log
echo "R4 expect 87 bytes, got: $($S4 --color never -t +00:00 --blocksz 64 r4.log | wc -c)   (same file, --blocksz 128: $($S4 --color never -t +00:00 --blocksz 128 r4.log | wc -c))"
# R5: leading non-timestamped line of >=128 NUL bytes -> file rejected
python3 -c "import sys;sys.stdout.buffer.write(b'\0'*130+b'\n2020-01-01 00:00:01 a\n2020-01-01 00:00:02 b\n')" > r5.log
echo "R5 expect 44 bytes, got: $($S4 --color never -t +00:00 r5.log | wc -c)"
