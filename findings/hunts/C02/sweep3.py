#!/usr/bin/env python3
import os, random, subprocess, sys, time
S4='/tmp/hunt/C02/s4'
W='/tmp/hunt/C02/work'
random.seed(int(sys.argv[1]) if len(sys.argv)>1 else 1)
TLIM=float(sys.argv[2]) if len(sys.argv)>2 else 240
FMTS=[
 lambda i: b"2020-01-%02d %02d:%02d:%02d " % (1+i//86400, (i//3600)%24,(i//60)%60,i%60),
 lambda i: b"2020-01-%02dT%02d:%02d:%02d+00:00 " % (1+i//86400, (i//3600)%24,(i//60)%60,i%60),
 lambda i: b"[2020/01/%02d %02d:%02d:%02d] " % (1+i//86400, (i//3600)%24,(i//60)%60,i%60),
 lambda i: b"Jan %2d %02d:%02d:%02d 2020 host prog: " % (1+i//86400, (i//3600)%24,(i//60)%60,i%60),
 lambda i: b"20200101T%02d%02d%02d " % ((i//3600)%24,(i//60)%60,i%60),
]
def randbytes(n, mode):
    if mode==0: return bytes(random.choice(b"abcdefghij klmnop") for _ in range(n))
    if mode==1: return bytes(random.choice(b"ab\x00\xff\xfe\x80\xc3\x28 \t\r") for _ in range(n))
    if mode==2: return b"\x00"*n
    if mode==3: return bytes(random.choice(b"\xe2\x82\xac\xf0\x9f\x98\x80x") for _ in range(n))
    return bytes(random.randrange(256) for _ in range(n)).replace(b"\n",b"x")
def gen(bs):
    fmt=random.choice(FMTS); nmsg=random.choice([1,2,3,5,8,20,60])
    eol=random.choice([b"\n",b"\n",b"\r\n"]); mode=random.randrange(5)
    lens=[0,1,2,bs-1,bs,bs+1,2*bs,2*bs+1,3*bs+3,7,30]
    out=b""; t=0
    pre=random.random()<0.2
    if pre: out+=b"junk"+eol
    start=len(out)
    for m in range(3):
        out+=fmt(t)+b"s"+eol; t+=1
    for m in range(nmsg):
        t+=random.choice([0,1,1,5,60])
        out+=fmt(t)+randbytes(random.choice(lens),mode if mode!=4 else 0)+eol
        for c in range(random.choice([0,0,0,1,2,5])):
            k=random.choice([0,1,3]+lens)
            ln=randbytes(k,mode)
            if random.random()<0.3: ln=b""
            out+=ln+eol
    # size adjust
    r=random.random()
    if r<0.3:
        # pad last line so size hits multiple of bs +-1
        tgt=((len(out)//bs)+1)*bs+random.choice([-1,0,1])
        padn=tgt-len(out)
        if padn>0:
            out=out[:-len(eol)]+b"p"*padn+eol
    if random.random()<0.4: out=out[:-len(eol)] if eol==b"\n" or random.random()<.5 else out[:-1]
    return out,start
def run(data,bs,name='t%s.log'%sys.argv[1]):
    p=os.path.join(W,name); open(p,'wb').write(data)
    r=subprocess.run([S4,'--color','never','--blocksz',str(bs),'-t','+00:00',p],capture_output=True,timeout=60)
    return r
n=0;bad=0;t0=time.time()
while time.time()-t0<TLIM:
    bs=random.randrange(64,400)
    data,start=gen(bs if bs<5000 else 64)
    exp=data[start:]
    if not exp.endswith(b"\n"): exp+=b"\n"
    try: r=run(data,bs)
    except subprocess.TimeoutExpired:
        print("TIMEOUT",bs); open(os.path.join(W,'bad_%d_to.log'%n),'wb').write(data); bad+=1; n+=1; continue
    n+=1
    if r.stdout!=exp:
        bad+=1
        fn=os.path.join(W,'bad_%s_%d_bs%d.log'%(sys.argv[1] if len(sys.argv)>1 else '1',n,bs)); open(fn,'wb').write(data)
        print("MISMATCH",fn,"bs",bs,"len",len(data),"explen",len(exp),"gotlen",len(r.stdout),"rc",r.returncode,r.stderr[:200])
        if bad>25: break
print("ran",n,"bad",bad)
