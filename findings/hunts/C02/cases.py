import subprocess,os
S4='/tmp/hunt/C02/s4'
def t(name,data,bs=None,extra=[]):
    p='/tmp/hunt/C02/work/case_'+name+'.log'; open(p,'wb').write(data)
    cmd=[S4,'--color','never','-t','+00:00']+(['--blocksz',str(bs)] if bs else [])+extra+[p]
    r=subprocess.run(cmd,capture_output=True)
    exp=data if data.endswith(b'\n') else data+b'\n'
    print(name,'bs',bs,'size',len(data),'OK' if r.stdout==exp else 'FAIL gotlen %d explen %d'%(len(r.stdout),len(exp)), r.stderr[:100])
    return r.stdout
H=b'2020-01-01 00:00:0%d '
# A: first line longer than a block, default bs
t('A_long1st_default', H%1+b'a'*70000+b'\n'+H%2+b'b\n')
t('A2_long1st_bs64', H%1+b'a'*70+b'\n'+H%2+b'b\n',64)
t('A3_short1st_long2nd_bs64', H%1+b'a\n'+H%2+b'b'*200+b'\n'+H%3+b'c\n',64)
t('A4_short1st_long2nd_default', H%1+b'a\n'+H%2+b'b'*200000+b'\n'+H%3+b'c\n')
t('A5_line1_ends_exactly_block', H%1+b'a'*(64-21)+b'\n'+H%2+b'b\n',64)
t('A6_line1_63', H%1+b'a'*(64-22)+b'\n'+H%2+b'b\n',64)
t('A7_line1_65', H%1+b'a'*(64-20)+b'\n'+H%2+b'b\n',64)
# B: NUL bytes
t('B_nul', H%1+b'a\x00b\n'+H%2+b'b\n')
t('B2_ff', H%1+b'a\xff\xfeb\n'+H%2+b'b\n')
t('B3_cr', H%1+b'a\r\n'+H%2+b'b\r\n')
t('B4_manyNUL', H%1+b'\x00'*40+b'\n'+H%2+b'b\n')
t('B5_contNUL', H%1+b'x\n'+b'\x00'*40+b'\n'+H%2+b'b\n')
# C: blank/continuation
t('C_blank', H%1+b'a\n\n\ncont\n'+H%2+b'b\n\n')
t('C2_nonl', H%1+b'a\n'+H%2+b'b')
t('C3_single', H%1+b'a\n')
t('C4_single_nonl', H%1+b'a')
t('C5_cont_long_default', H%1+b'a\n'+b'c'*200000+b'\n'+H%2+b'b\n')
t('C6_cont_long_bs64', H%1+b'a\n'+b'c'*200+b'\n'+H%2+b'b\n',64)
