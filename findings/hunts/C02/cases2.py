exec(open('/tmp/hunt/C02/work/cases.py').read().split('# A: first')[0])
H=b'2020-01-01 00:00:0%d '
pre=H%0+b's\n'+H%0+b't\n'+H%0+b'u\n'
for bs in (None,0x10000,4096):
    B=bs or 65536
    t('D1_longhead',pre+H%1+b'a'*(3*B+3)+b'\n'+H%2+b'b\n',bs)
    t('D2_longcont',pre+H%1+b'a\n'+b'c'*(2*B)+b'\n\n'+b'\xff'*(B+1)+b'\n'+H%2+b'b',bs)
    for d in (-1,0,1):
        body=pre+H%1+b'a\n'
        pad=2*B+d-len(body)-1
        t('D3_exact%+d'%d,body[:-1]+b'p'*pad+b'\n',bs)
        t('D4_exact_nonl%+d'%d,body[:-1]+b'p'*(pad+1),bs)
# 2 lines only in block zero at default bs (file > 1 block)
t('E1_two_lines_blk0', H%1+b'a'*40000+b'\n'+H%2+b'b'*40000+b'\n')
t('E2_3lines_1sysline_blk0', H%1+b'a\ncont\ncont2\n'+b'c'*70000+b'\n'+H%2+b'b\n')
t('E3_small_file_2048', H%1+b'a'*2100+b'\n')
t('E4_file_2blocks_line1_fills', H%1+b'a\n'+H%2+b'b'*70000+b'\n')
t('F1_empty', b'')
t('F2_dup_ts', pre+H%1+b'same\n'+H%1+b'same\n'+H%1+b'same\n')
t('F3_crlf_nonl', pre+H%1+b'x\r\n'+H%2+b'y\r')
