exec(open('/tmp/hunt/C02/work/cases.py').read().split('# A: first')[0])
H=b'2020-01-01 00:00:0%d '
pre=H%0+b's\n'+H%0+b't\n'+H%0+b'u\n'
t('G1_nuljunk128', b'\x00'*130+b'\n'+pre+H%1+b'a\n')[:0]
t('G2_nuljunk_short', b'\x00'*10+b'\n'+pre+H%1+b'a\n')[:0]
t('G3_nul_after_ts', pre+b'2020-01-01 00:00:01\x00x\n'+H%2+b'b\n')
t('G4_ff_after_ts', pre+b'2020-01-01 00:00:01\xffx\n'+H%2+b'b\n')
t('G5_headonly_ts', pre+b'2020-01-01 00:00:01\n'+b'2020-01-01 00:00:02\n')
t('G6_headonly_ts_nonl', pre+b'2020-01-01 00:00:01\n'+b'2020-01-01 00:00:02')
t('G7_many_cont', pre+H%1+b'a\n'+b'c\n'*50000+H%2+b'b\n')
t('G8_many_blank', pre+H%1+b'a\n'+b'\n'*70000+H%2+b'b\n')
t('G9_cr_only', pre+H%1+b'a\rb\rc\n'+H%2+b'b\n')
t('G10_bom', b'\xef\xbb\xbf'+pre+H%1+b'a\n')
t('G11_many_msgs', b''.join(b'2020-01-01 00:%02d:%02d m%d\n'%(i//60,i%60,i) for i in range(3600))*1)
t('G12_last_line_blank_nonl', pre+H%1+b'a\n\n\n')
t('G13_tab_lead_cont', pre+H%1+b'a\n\tat foo\n  at bar\n'+H%2+b'b\n')
t('G14_nul_cont_bs64', pre+H%1+b'a\n'+b'\x00'*200+b'\n'+H%2+b'b\n',64)
t('G15_only_nl_after', pre+H%1+b'\n')
