import glob
from oracle import *
for f in sorted(glob.glob("real/*.journal")):
    exp = parse_export(jctl(f, "-o", "export", "--all"))
    rts = [int(dict(e)[b"__REALTIME_TIMESTAMP"]) for e in exp]
    bad = sum(1 for i in range(1, len(rts)) if rts[i] < rts[i-1])
    print(f, len(rts), "backwards steps", bad, "dup ts", len(rts) - len(set(rts)))
