import glob
from oracle import *
for f in sorted(glob.glob("/tmp/seedout/C09/work/real/*.journal")):
    n, probs, rc, err = check_export(f)
    print(f, n, "problems", len(probs), rc, err[:100])
    for p in probs[:2]: print("   ", p)
