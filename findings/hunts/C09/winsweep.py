import sys, re, datetime, itertools, random
from oracle import *
OUTS = ["short","short-precise","short-iso","short-iso-precise","short-full","short-monotonic","short-unix","verbose","export","cat"]
def fmt(us, tzmin, style):
    dt = datetime.datetime(1970,1,1) + datetime.timedelta(microseconds=us) + datetime.timedelta(minutes=tzmin)
    sign = "+" if tzmin >= 0 else "-"; a = abs(tzmin)
    tz = "%s%02d:%02d" % (sign, a//60, a%60)
    if style == 0: return dt.strftime("%Y-%m-%dT%H:%M:%S.%f") + tz, None
    if style == 1: return dt.strftime("%Y%m%dT%H%M%S.%f"), tz       # naive, needs -t
    if style == 2: return dt.strftime("%Y-%m-%d %H:%M:%S.%f") + " " + tz.replace(":", ""), None
    if style == 3: return dt.strftime("%Y/%m/%d %H:%M:%S.%f"), tz
def chunks_for(path, R, ents):
    out, err, rc = s4(path, "--journal-output=" + R)
    if R == "export":
        parts = re.split(rb"(?=^__CURSOR=)", out, flags=re.M); parts = [p for p in parts if p]
    elif R == "verbose":
        parts = re.split(rb"(?=^\w{3} \d{4}-\d\d-\d\d \d\d:\d\d:\d\d\.\d{6} \S+ \[s=)", out, flags=re.M); parts = [p for p in parts if p]
    else:
        lines = out.split(b"\n"); assert lines[-1] == b""; lines = lines[:-1]
        parts = []; i = 0
        for e in ents:
            msg = e["msg"]
            if R == "cat":
                if msg is None: parts.append(b""); continue
            n = 1 + (msg.count(b"\n") if msg is not None else 0)
            parts.append(b"".join(l + b"\n" for l in lines[i:i+n])); i += n
        if i != len(lines): print("  !! line count mismatch", R, i, len(lines))
    if len(parts) != len(ents): print("  !! parts mismatch", R, len(parts), len(ents))
    return parts, out
def main(path, maxt=6, seed=1):
    rnd = random.Random(seed)
    exp = parse_export(jctl(path, "-o", "export", "--all"))
    ents = []
    for e in exp:
        d = {}
        for k, v in e: d.setdefault(k, v)
        ents.append(dict(rt=int(d[b"__REALTIME_TIMESTAMP"]), msg=d.get(b"MESSAGE")))
    rts = [e["rt"] for e in ents]
    uniq = sorted(set(rts))
    pick = set([uniq[0], uniq[-1]])
    # prefer timestamps shared by several entries and out-of-order neighbours
    for i in range(1, len(rts)):
        if rts[i] < rts[i-1]: pick.add(rts[i]); pick.add(rts[i-1])
    pick = list(pick)[:maxt*2]
    while len(pick) < min(maxt, len(uniq)): 
        c = rnd.choice(uniq)
        if c not in pick: pick.append(c)
    pick = sorted(pick)
    bounds = sorted(set(b for t in pick for b in (t-1, t, t+1)))
    nbad = 0; nrun = 0
    for R in OUTS:
        parts, full = chunks_for(path, R, ents)
        if len(parts) != len(ents): nbad += 1; continue
        cases = [(a, None) for a in bounds] + [(None, b) for b in bounds] + [(a, b) for a in bounds for b in bounds if a <= b]
        if len(cases) > 150: cases = rnd.sample(cases, 150)
        for n, (a, b) in enumerate(cases):
            tzmin = rnd.choice([0, 330, -480, 765, -210, 60])
            style = n % 4
            args = []; tzarg = None
            if a is not None:
                s, tzarg = fmt(a, tzmin, style); args += ["-a", s]
            if b is not None:
                s, tzarg = fmt(b, tzmin, style); args += ["-b", s]
            if tzarg is not None: args += ["-t=" + tzarg]
            else: args += ["-t=" + rnd.choice(["+00:00", "-07:00", "+09:30"])]
            if R in ("short-monotonic", "short-unix", "export", "cat"):
                got, err, rc = s4(path, "--journal-output=" + R, *args)
                want = b"".join(p for p, e in zip(parts, ents) if (a is None or e["rt"] >= a) and (b is None or e["rt"] <= b))
            else:
                # datetime rendered depends on -t ; compare against re-render with same -t
                tzv = [x for x in args if x.startswith("-t=")][0]
                p2, _ = chunks_for(path, R, ents) if False else (None, None)
                got, err, rc = s4(path, "--journal-output=" + R, *args)
                fullt, _, _ = s4(path, "--journal-output=" + R, tzv)
                # reslice fullt with same sizes? sizes may differ with tz text; recompute chunks
                if R == "verbose":
                    pt = [p for p in re.split(rb"(?=^\w{3} \d{4}-\d\d-\d\d \d\d:\d\d:\d\d\.\d{6} \S+ \[s=)", fullt, flags=re.M) if p]
                else:
                    lines = fullt.split(b"\n")[:-1]; pt = []; i = 0
                    for e in ents:
                        k = 1 + (e["msg"].count(b"\n") if e["msg"] is not None else 0)
                        pt.append(b"".join(l + b"\n" for l in lines[i:i+k])); i += k
                want = b"".join(p for p, e in zip(pt, ents) if (a is None or e["rt"] >= a) and (b is None or e["rt"] <= b))
            nrun += 1
            if got != want:
                nbad += 1
                if nbad <= 8:
                    print("MISMATCH", R, args, "want entries", sum(1 for e in ents if (a is None or e["rt"] >= a) and (b is None or e["rt"] <= b)), "got bytes", len(got), "want bytes", len(want), err[:200])
    print(path, "runs", nrun, "bad", nbad)
if __name__ == "__main__":
    for p in sys.argv[1:]: main(p)
