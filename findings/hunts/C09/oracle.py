#!/usr/bin/env python3
"""helpers: parse journalctl -o export (binary-safe) and s4 export"""
import subprocess, struct, sys, os
S4 = "/tmp/wt/C09/target/release/s4"
ENV = dict(os.environ, TZ="UTC", PAGER="", SYSTEMD_COLORS="0")

def jctl(path, *args):
    return subprocess.run(["journalctl", "--file", path, "--utc", "--no-pager", "-q", *args], capture_output=True, env=ENV).stdout

def s4(path, *args):
    p = subprocess.run([S4, "--color=never", *args, path], capture_output=True, env=ENV)
    return p.stdout, p.stderr, p.returncode

def parse_export(b):
    """journalctl export format -> list of entries; entry = list of (name, value)"""
    entries = []; cur = []; i = 0; n = len(b)
    while i < n:
        j = b.find(b"\n", i)
        if j < 0: j = n
        line = b[i:j]
        if line == b"":
            if cur: entries.append(cur); cur = []
            i = j + 1; continue
        eq = line.find(b"=")
        if eq >= 0:
            cur.append((line[:eq], line[eq+1:])); i = j + 1
        else:
            (ln,) = struct.unpack_from("<Q", b, j + 1)
            val = b[j+9:j+9+ln]
            cur.append((line, val)); i = j + 9 + ln + 1
    if cur: entries.append(cur)
    return entries

def check_export(path, extra=()):
    """compare s4 export with journalctl export, entry by entry (field multiset, order of entries). returns list of problems"""
    exp = parse_export(jctl(path, "-o", "export", "--all"))
    out, err, rc = s4(path, "--journal-output=export", *extra)
    probs = []
    pos = 0
    for idx, e in enumerate(exp):
        hdr = b""; fields = []
        for k, v in e:
            if k in (b"__CURSOR", b"__REALTIME_TIMESTAMP", b"__MONOTONIC_TIMESTAMP"):
                hdr += k + b"=" + v + b"\n"
            elif k.startswith(b"__"): pass
            else: fields.append(k + b"=" + v + b"\n")
        total = len(hdr) + sum(map(len, fields)) + 1
        blk = out[pos:pos+total]
        ok = blk.startswith(hdr) and blk.endswith(b"\n")
        if ok:
            # split rest into fields using expected as multiset: greedy
            rest = blk[len(hdr):-1]
            want = sorted(fields)
            # try to consume
            got = []
            r = rest
            pool = list(fields)
            while r and pool:
                m = [f for f in pool if r.startswith(f)]
                if not m: break
                f = max(m, key=len); pool.remove(f); r = r[len(f):]
            ok = (not r) and (not pool)
        if not ok:
            probs.append((idx, blk[:300], hdr, fields[:40]))
            # try resync: find next cursor
            if idx + 1 < len(exp):
                nxt = b"__CURSOR=" + dict(exp[idx+1])[b"__CURSOR"]
                p = out.find(nxt, pos)
                if p < 0: break
                pos = p
                continue
        pos += total
    if pos != len(out) and not probs:
        probs.append(("trailing", out[pos:pos+300]))
    return len(exp), probs, rc, err
