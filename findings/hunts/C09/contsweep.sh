#!/bin/bash
# containers: compare every rendering of plain vs gz/bz2/xz/lz4/tar
S4=/tmp/wt/C09/target/release/s4
cd /tmp/seedout/C09/work/cont
for src in ../spA.journal ../spB_xz.journal ../spE.journal ../real/u16_system.journal ../real/RHE_91_system.journal; do
  b=$(basename $src .journal); rm -rf $b; mkdir $b; cp $src $b/$b.journal
  ( cd $b; gzip -k $b.journal; bzip2 -k $b.journal; xz -k $b.journal; lz4 -q -k $b.journal $b.journal.lz4 2>/dev/null; tar cf $b.tar $b.journal; tar cf ${b}_journal.tar $b.journal )
  for o in short short-precise short-iso short-iso-precise short-full short-monotonic short-unix verbose export cat; do
    $S4 --color=never --journal-output=$o $b/$b.journal > /tmp/seedout/C09/work/cont/plain.out 2>/dev/null
    for c in $b/$b.journal.gz $b/$b.journal.bz2 $b/$b.journal.xz $b/$b.journal.lz4 $b/$b.tar; do
      [ -f $c ] || { echo "missing $c"; continue; }
      $S4 --color=never --journal-output=$o $c > /tmp/seedout/C09/work/cont/c.out 2>/tmp/seedout/C09/work/cont/c.err
      cmp -s plain.out c.out || echo "DIFF $o $c plain=$(wc -c < plain.out) cont=$(wc -c < c.out) $(head -c 200 c.err)"
    done
  done
  echo "done $b"
done
