from mkjournal import write_journal
import os
base = 1700000000000000
def E(i, fields, rt=None, mono=None):
    return dict(realtime=base + i*1000000 if rt is None else rt, monotonic=5000000 + i*1000000 if mono is None else mono, fields=fields)
common = [b"_BOOT_ID=0f1e2d3c4b5a69788796a5b4c3d2e1f0", b"PRIORITY=6", b"SYSLOG_IDENTIFIER=gen", b"_PID=42", b"_HOSTNAME=host"]
# A: newline in MESSAGE, non-UTF8, empty value, no MESSAGE, duplicate MESSAGE
ents = [
 E(0, [b"MESSAGE=plain zero"] + common),
 E(1, [b"MESSAGE=line one\nline two"] + common),
 E(2, [b"MESSAGE=bad \xff\xfe bytes"] + common),
 E(3, [b"MESSAGE="] + common),
 E(4, [b"OTHER=no message here"] + common),
 E(5, [b"MESSAGE=first dup", b"MESSAGE=second dup"] + common),
 E(6, [b"MESSAGE=tab\there and NUL \x00 inside"] + common),
 E(7, [b"MESSAGE=trailing newline\n"] + common),
 E(8, [b"MESSAGE=last"] + common + [b"CUSTOM=a=b=c", b"_SELINUX_CONTEXT=unconfined\n"]),
]
write_journal("spA.journal", ents)
# B: big fields, compressed and not
big = b"MESSAGE=" + bytes((65 + (i % 26)) for i in range(100000))
mid = b"MESSAGE=" + b"x" * 600
ents = [E(0, [mid] + common), E(1, [big] + common), E(2, [b"MESSAGE=small after big"] + common + [b"BIGF=" + b"y"*70000])]
write_journal("spB_plain.journal", ents)
write_journal("spB_xz.journal", ents, compress_min=512)
# C: many fields
ents = [E(0, [b"MESSAGE=many"] + common + [b"F%04d=%d" % (i, i) for i in range(1100)]),
        E(1, [b"MESSAGE=after many"] + common)]
write_journal("spC.journal", ents)
# D: non-monotonic realtime
rts = [0, 10, 20, 5, 30, 15, 40]
ents = [E(i, [b"MESSAGE=nm %d rt+%d" % (i, r)] + common, rt=base + r*1000000) for i, r in enumerate(rts)]
write_journal("spD.journal", ents)
# E: equal realtimes and microsecond-adjacent
rts = [0, 0, 1, 1, 2, 999999, 1000000, 1000000, 1000001]
ents = [E(i, [b"MESSAGE=eq %d rt+%dus" % (i, r)] + common, rt=base + r) for i, r in enumerate(rts)]
write_journal("spE.journal", ents)
