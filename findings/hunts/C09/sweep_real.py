import sys, glob, os
from oracle import *
files = sorted(glob.glob("/tmp/seedout/C09/work/real/*.journal"))
for f in files:
    exp = parse_export(jctl(f, "-o", "export", "--all"))
    n = len(exp)
    out, err, rc = s4(f, "--journal-output=export")
    # naive s4 export parse: split on blank line
    print(os.path.basename(f), "entries", n, "rc", rc, "stderr", err[:200])
    # cat
    jc = jctl(f, "-o", "cat", "--all")
    sc, _, _ = s4(f, "--journal-output=cat")
    print("  cat equal:", jc == sc, len(jc), len(sc))
    # expected raw s4 export (as the code writes): cursor, realtime, monotonic then fields raw "name=value\n"
    expect = b""
    for e in exp:
        d = dict()
        for k, v in e:
            if k in (b"__CURSOR", b"__REALTIME_TIMESTAMP", b"__MONOTONIC_TIMESTAMP"):
                expect += k + b"=" + v + b"\n"
        first_boot = True
        for k, v in e:
            if k.startswith(b"__"): continue
            expect += k + b"=" + v + b"\n"
        expect += b"\n"
    print("  export raw equal (incl. _BOOT_ID dup caveat):", expect == out, len(expect), len(out))
    if expect != out:
        # find first diff
        for i, (a, b) in enumerate(zip(expect, out)):
            if a != b:
                print("   first diff at", i, expect[max(0,i-200):i+100], "\n   S4:", out[max(0,i-200):i+100]); break
    for o in ["short","short-precise","short-iso","short-iso-precise","short-full","short-monotonic","short-unix","verbose"]:
        so, _, rc = s4(f, "--journal-output=" + o)
        jo = jctl(f, "-o", o, "--all")
        print("  ", o, "s4 lines", so.count(b"\n"), "jctl lines", jo.count(b"\n"), "rc", rc)
