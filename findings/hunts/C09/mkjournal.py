#!/usr/bin/env python3
"""Minimal writer of systemd .journal files (regular non-compact format, jenkins hash).

write_journal(path, entries, compress_min=None)
  entries: list of dict(realtime=int usec, monotonic=int usec, fields=[bytes "NAME=value", ...])
  compress_min: if set, a field whose length is >= compress_min is stored XZ compressed
                (as journald does for fields >= 512 bytes with Compress=yes)
"""
import lzma
import struct

M = 0xFFFFFFFF


def _rot(x, k):
    return ((x << k) | (x >> (32 - k))) & M


def jenkins_hash64(key):
    n = len(key)
    a = b = c = (0xDEADBEEF + n) & M
    i = 0
    while n > 12:
        a = (a + int.from_bytes(key[i:i + 4], "little")) & M
        b = (b + int.from_bytes(key[i + 4:i + 8], "little")) & M
        c = (c + int.from_bytes(key[i + 8:i + 12], "little")) & M
        a = (a - c) & M; a ^= _rot(c, 4); c = (c + b) & M
        b = (b - a) & M; b ^= _rot(a, 6); a = (a + c) & M
        c = (c - b) & M; c ^= _rot(b, 8); b = (b + a) & M
        a = (a - c) & M; a ^= _rot(c, 16); c = (c + b) & M
        b = (b - a) & M; b ^= _rot(a, 19); a = (a + c) & M
        c = (c - b) & M; c ^= _rot(b, 4); b = (b + a) & M
        i += 12
        n -= 12
    if n == 0:
        return (c << 32) | b
    tail = key[i:] + b"\0" * (12 - n)
    a = (a + int.from_bytes(tail[0:4], "little")) & M
    b = (b + int.from_bytes(tail[4:8], "little")) & M
    c = (c + int.from_bytes(tail[8:12], "little")) & M
    c ^= b; c = (c - _rot(b, 14)) & M
    a ^= c; a = (a - _rot(c, 11)) & M
    b ^= a; b = (b - _rot(a, 25)) & M
    c ^= b; c = (c - _rot(b, 16)) & M
    a ^= c; a = (a - _rot(c, 4)) & M
    b ^= a; b = (b - _rot(a, 14)) & M
    c ^= b; c = (c - _rot(b, 24)) & M
    return (c << 32) | b


OBJECT_DATA, OBJECT_FIELD, OBJECT_ENTRY, OBJECT_DATA_HASH_TABLE, OBJECT_FIELD_HASH_TABLE, OBJECT_ENTRY_ARRAY = 1, 2, 3, 4, 5, 6
HEADER_SIZE = 256
N_DATA_BUCKETS = 251
N_FIELD_BUCKETS = 61


def _align8(n):
    return (n + 7) & ~7


def write_journal(path, entries, compress_min=None,
                  machine_id=bytes.fromhex("00112233445566778899aabbccddeeff"),
                  boot_id=bytes.fromhex("0f1e2d3c4b5a69788796a5b4c3d2e1f0"),
                  file_id=bytes.fromhex("a0a1a2a3a4a5a6a7a8a9aaabacadaeaf")):
    buf = bytearray(HEADER_SIZE)
    n_objects = 0
    tail_object = 0
    any_xz = False

    def add_object(otype, flags, payload):
        nonlocal n_objects, tail_object
        off = len(buf)
        assert off % 8 == 0
        size = 16 + len(payload)
        buf.extend(struct.pack("<BB6xQ", otype, flags, size))
        buf.extend(payload)
        buf.extend(b"\0" * (_align8(size) - size))
        n_objects += 1
        tail_object = off
        return off

    fht = add_object(OBJECT_FIELD_HASH_TABLE, 0, bytes(16 * N_FIELD_BUCKETS))
    dht = add_object(OBJECT_DATA_HASH_TABLE, 0, bytes(16 * N_DATA_BUCKETS))

    def hash_link(table_off, nbuckets, h, obj_off):
        item = table_off + 16 + 16 * (h % nbuckets)
        head, tail = struct.unpack_from("<QQ", buf, item)
        if head == 0:
            struct.pack_into("<QQ", buf, item, obj_off, obj_off)
        else:
            # next_hash_offset is at the same place in data and field objects
            struct.pack_into("<Q", buf, tail + 24, obj_off)
            struct.pack_into("<Q", buf, item + 8, obj_off)

    n_data = 0
    n_fields = 0
    field_objs = {}
    entry_offsets = []
    seqnum = 0
    for e in entries:
        seqnum += 1
        items = []
        data_offs = []
        xor_hash = 0
        for f in e["fields"]:
            h = jenkins_hash64(f)
            flags = 0
            payload = f
            if compress_min is not None and len(f) >= compress_min:
                payload = lzma.compress(f, format=lzma.FORMAT_XZ, check=lzma.CHECK_NONE)
                flags = 1  # OBJECT_COMPRESSED_XZ
                any_xz = True
            # hash, next_hash_offset, next_field_offset, entry_offset, entry_array_offset, n_entries
            off = add_object(OBJECT_DATA, flags, struct.pack("<QQQQQQ", h, 0, 0, 0, 0, 1) + payload)
            hash_link(dht, N_DATA_BUCKETS, h, off)
            n_data += 1
            name = f.split(b"=", 1)[0]
            if name not in field_objs:
                fh = jenkins_hash64(name)
                # hash, next_hash_offset, head_data_offset
                foff = add_object(OBJECT_FIELD, 0, struct.pack("<QQQ", fh, 0, 0) + name)
                hash_link(fht, N_FIELD_BUCKETS, fh, foff)
                field_objs[name] = foff
                n_fields += 1
            foff = field_objs[name]
            # prepend to the field's list of data objects
            (head_data,) = struct.unpack_from("<Q", buf, foff + 32)
            struct.pack_into("<Q", buf, off + 32, head_data)
            struct.pack_into("<Q", buf, foff + 32, off)
            items.append((off, h))
            data_offs.append(off)
            xor_hash ^= h
        payload = struct.pack("<QQQ", seqnum, e["realtime"], e["monotonic"]) + e.get("boot_id", boot_id) + struct.pack("<Q", xor_hash)
        for off, h in items:
            payload += struct.pack("<QQ", off, h)
        eoff = add_object(OBJECT_ENTRY, 0, payload)
        for off in data_offs:
            struct.pack_into("<Q", buf, off + 40, eoff)  # data.entry_offset
        entry_offsets.append(eoff)

    ea = add_object(OBJECT_ENTRY_ARRAY, 0, struct.pack("<Q", 0) + b"".join(struct.pack("<Q", o) for o in entry_offsets))

    total = (len(buf) + 4095) & ~4095
    buf.extend(b"\0" * (total - len(buf)))
    arena_size = total - HEADER_SIZE

    hdr = struct.pack(
        "<8sIIB7x16s16s16s16s" + "Q" * 21,
        b"LPKSHHRH",
        0,                      # compatible_flags
        1 if any_xz else 0,     # incompatible_flags (COMPRESSED_XZ)
        0,                      # state OFFLINE
        file_id, machine_id, boot_id, file_id,  # file_id, machine_id, boot_id, seqnum_id
        HEADER_SIZE, arena_size,
        dht + 16, 16 * N_DATA_BUCKETS,
        fht + 16, 16 * N_FIELD_BUCKETS,
        tail_object, n_objects, len(entries),
        seqnum, 1,              # tail_entry_seqnum, head_entry_seqnum
        ea,
        entries[0]["realtime"], entries[-1]["realtime"], entries[-1]["monotonic"],
        n_data, n_fields,
        0, 1,                   # n_tags, n_entry_arrays
        1, 1,                   # data_hash_chain_depth, field_hash_chain_depth
    )
    assert len(hdr) == HEADER_SIZE, len(hdr)
    buf[0:HEADER_SIZE] = hdr
    with open(path, "wb") as fh:
        fh.write(buf)


if __name__ == "__main__":
    import sys
    base = 1700000000000000
    ents = []
    for i in range(5):
        ents.append(dict(realtime=base + i * 1000001, monotonic=5000000 + i * 1000001, fields=[
            b"MESSAGE=hello world %d" % i,
            b"PRIORITY=6",
            b"SYSLOG_IDENTIFIER=mkjournal",
            b"_PID=%d" % (100 + i),
            b"_HOSTNAME=testhost",
            b"_TRANSPORT=journal",
        ]))
    write_journal(sys.argv[1], ents)
