from oracle import *
import sys
for f in sys.argv[1:]:
    print("=====", f)
    n, probs, rc, err = check_export(f)
    print("export: entries", n, "problems", len(probs), "rc", rc, err[:200])
    for p in probs[:6]: print("   ", repr(p)[:700])
    jc = jctl(f, "-o", "cat", "--all"); sc, e2, rc2 = s4(f, "--journal-output=cat")
    print("cat equal", jc == sc, len(jc), len(sc), rc2, e2[:200])
    if jc != sc:
        print("  jctl:", jc[:400]); print("  s4  :", sc[:400])
