import sys,random,os,time
from h1 import run,W
def gen2(rnd,n,fmt):
    out=[]; t=1600000000+rnd.randrange(0,300*86400)
    for i in range(n):
        t+=rnd.choice([0,1,2,60,3600,86400,86400*20])
        ts=time.strftime(fmt,time.gmtime(t))
        L=rnd.choice([0,1,5,20,40,63,64,65,100,127,128,129,200,300]) if i>0 else rnd.choice([0,5,20])
        body=''.join(rnd.choice('abcdefghij é€') for _ in range(L))
        k=rnd.random()
        if k<0.7 or i==0: line=ts+' h p: '+body
        elif k<0.9: line='\t'+body
        else: line=''
        out.append(line)
    eol=rnd.choice(['\n','\n','\r\n'])
    s=eol.join(out)
    if rnd.random()<0.7: s+=eol
    return s.encode()
fmts=['%b %d %H:%M:%S','%Y-%m-%dT%H:%M:%S+01:00','[%d/%b/%Y:%H:%M:%S +0000]','%Y/%m/%d %H:%M:%S.123456 PST','%a %b %d %H:%M:%S %Y']
seed0=int(sys.argv[1]); n=int(sys.argv[2]); bad=0
for seed in range(seed0,seed0+n):
    rnd=random.Random(seed)
    fmt=rnd.choice(fmts)
    data=gen2(rnd,rnd.choice([1,2,3,5,10,30]),fmt)
    p=f'{W}/v_{seed}.log'; open(p,'wb').write(data)
    os.utime(p,(1700000000,1700000000))
    ex=rnd.choice([[],['--color=always'],['-u','-n'],['-a','2020-12-01'],['-b','2021-01-15']])
    rc0,o0,e0=run(p,None,ex)
    for b in list(range(64,132))+[191,192,193,255,256,257,len(data)-1,len(data),len(data)+1]:
        if b<64: continue
        rc,o,e=run(p,b,ex)
        if (rc,o)!=(rc0,o0):
            bad+=1; print('DIFF',seed,fmt,ex,'bsz',b,'len',len(data),rc0,rc,len(o0),len(o),e[:200]); break
    else: os.remove(p)
print('done bad',bad)
