import sys,subprocess,hashlib
from concurrent.futures import ThreadPoolExecutor
S4='/tmp/wt/C12/target/release/s4'
files=[l.strip() for l in open(sys.argv[1])]
BS=list(range(64,200))+list(range(280,300))+list(range(380,390))+list(range(760,775))+[1000,1151,1152,1153,4096,8192,65535]
def run(p,b):
    cmd=[S4,'--color=never','-t','+00:00']+([] if b is None else ['--blocksz',str(b)])+[p]
    r=subprocess.run(cmd,capture_output=True,timeout=300)
    return (r.returncode,hashlib.md5(r.stdout).hexdigest(),len(r.stdout),r.stderr[:200])
def one(p):
    r0=run(p,None); res=[]
    for b in BS:
        r=run(p,b)
        if r[:3]!=r0[:3]: res.append((b,r0,r))
    return p,r0,res
with ThreadPoolExecutor(8) as ex:
    for p,r0,res in ex.map(one,files):
        print(p,r0[2],len(res),res[:3],flush=True)
