# per-file sweep over sample logs with a few block sizes
import subprocess,sys,os,hashlib
from concurrent.futures import ThreadPoolExecutor
S4='/tmp/wt/C12/target/release/s4'
files=[l.strip() for l in open('files.txt')]
BS=[64,65,100,255,1024,4097,65535,65537,0x100000,0xFFFFFF]
def run(p,b):
    cmd=[S4,'--color=never','-t','+00:00']+([] if b is None else ['--blocksz',str(b)])+[p]
    try:
        r=subprocess.run(cmd,capture_output=True,timeout=120)
    except subprocess.TimeoutExpired:
        return ('TO',b'',b'')
    return (r.returncode,hashlib.md5(r.stdout).hexdigest()+':'+str(len(r.stdout)),r.stderr[:300])
def one(p):
    r0=run(p,None)
    res=[]
    for b in BS:
        r=run(p,b)
        if r[:2]!=r0[:2]:
            res.append((b,r0[:2],r[:2],r[2]))
    return p,res
with ThreadPoolExecutor(8) as ex:
    for p,res in ex.map(one,files):
        for x in res: print(p,x,flush=True)
print('done')
