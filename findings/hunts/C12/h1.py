import subprocess, random, os, sys, hashlib
S4='/tmp/wt/C12/target/release/s4'
W='/tmp/seedout/C12/work'
def run(path, bsz=None, extra=()):
    cmd=[S4,'--color=never','-t','+00:00']+list(extra)
    if bsz is not None: cmd+=['--blocksz',str(bsz)]
    cmd+= path if isinstance(path,list) else [path]
    p=subprocess.run(cmd,capture_output=True)
    return p.returncode,p.stdout,p.stderr
def gen(rnd, n, firstmax=60):
    out=[]
    t=1600000000
    for i in range(n):
        t+=rnd.choice([0,1,1,2,60,3600])
        import time
        ts=time.strftime('%Y-%m-%d %H:%M:%S',time.gmtime(t))
        kind=rnd.random()
        L=rnd.choice([0,1,5,20,40,63,64,65,100,127,128,129,200,300]) if i>0 else rnd.choice([0,5,20,30])
        body=''.join(rnd.choice('abcdefghij ') for _ in range(L))
        if kind<0.6 or i==0:
            line=ts+' '+body
        elif kind<0.75:
            # ts in middle of line
            pre='x'*rnd.choice([1,5,10,30])
            line='['+pre+'] '+ts+' '+body
        elif kind<0.9:
            line=' cont '+body   # continuation line
        else:
            line=''
        out.append(line)
    s='\n'.join(out)
    if rnd.random()<0.7: s+='\n'
    return s.encode()
if __name__=='__main__':
    seed0=int(sys.argv[1]); nseeds=int(sys.argv[2])
    bad=0
    for seed in range(seed0,seed0+nseeds):
        rnd=random.Random(seed)
        data=gen(rnd, rnd.choice([1,2,3,5,10,30]))
        p=f'{W}/t_{seed}.log'
        open(p,'wb').write(data)
        rc0,o0,e0=run(p)
        sizes=set(range(64,140))|{len(data)-1,len(data),len(data)+1,len(data)//2,len(data)//2+1,len(data)//3, 255,256,257,512,1000}
        for b in sorted(x for x in sizes if x>=64):
            rc,o,e=run(p,b)
            if o!=o0 or rc!=rc0:
                bad+=1
                print('DIFF seed',seed,'bsz',b,'len',len(data),'rc',rc0,rc,'outlen',len(o0),len(o), e[:200])
                break
        else:
            os.remove(p)
    print('done bad',bad)
