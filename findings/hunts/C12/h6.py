import sys,random,os,subprocess,tarfile,io
from h1 import run,W,gen
bad=0
for seed in range(int(sys.argv[1]),int(sys.argv[1])+int(sys.argv[2])):
    rnd=random.Random(seed)
    data=gen(rnd, rnd.choice([1,3,10,40]))
    base=f'{W}/c_{seed}.log'; open(base,'wb').write(data)
    paths=[]
    for ext,cmd in (('gz','gzip -kf'),('xz','xz -kf'),('bz2','bzip2 -kf'),('lz4','lz4 -qf')):
        if subprocess.run(f'{cmd} {base}'+(f' {base}.lz4' if ext=='lz4' else ''),shell=True,capture_output=True).returncode==0: paths.append(f'{base}.{ext}')
    tp=f'{W}/c_{seed}.tar'
    with tarfile.open(tp,'w') as tf:
        for i in range(rnd.choice([1,2,3])):
            d=gen(random.Random(seed*7+i), rnd.choice([1,3,10]))
            ti=tarfile.TarInfo(f'd/f{i}.log'); ti.size=len(d); ti.mtime=1600000000; tf.addfile(ti,io.BytesIO(d))
    paths.append(tp)
    for p in paths:
        r0=run(p)
        if len(r0[1])==0: print('empty default',p,r0[2][:200])
        for b in list(range(64,80))+[100,127,128,129,255,256,257,511,512,513,len(data)-1,len(data),len(data)+1,2055,2056,2057,4112]:
            if b<64: continue
            r=run(p,b)
            if r[:2]!=r0[:2]:
                bad+=1; print('DIFF',p,b,len(data),r0[0],r[0],len(r0[1]),len(r[1]),r[2][:300]); break
print('done bad',bad)
