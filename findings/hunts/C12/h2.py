import sys,random,os
from h1 import *
seed0=int(sys.argv[1]); nseeds=int(sys.argv[2])
extras=[['--color=always'],['-n','-u'],['-p','-l','-w','--separator','<<>>'],['-a','2020-09-13 12:30:00'],['-b','2020-09-13 13:30:00'],['-a','2020-09-13 12:28:00','-b','2020-09-13 14:30:00','--color=always','-z','+05:00']]
bad=0
for seed in range(seed0,seed0+nseeds):
    rnd=random.Random(seed)
    data=gen(rnd, rnd.choice([2,3,5,10,30,60]))
    p=f'{W}/u_{seed}.log'
    open(p,'wb').write(data)
    keep=False
    for ex in extras:
        rc0,o0,e0=run(p,None,ex)
        for b in list(range(64,100))+[127,128,129,len(data)-1,len(data),len(data)+1,len(data)//2]:
            if b<64: continue
            rc,o,e=run(p,b,ex)
            if o!=o0 or rc!=rc0:
                bad+=1; keep=True
                print('DIFF seed',seed,'ex',ex,'bsz',b,'len',len(data),'rc',rc0,rc,'outlen',len(o0),len(o), e[:200])
                break
    if not keep: os.remove(p)
print('done bad',bad)
