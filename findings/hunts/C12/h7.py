import sys,random,os,subprocess
from h1 import gen,W,S4
from h4 import gen2,fmts
def run(p,b,ex):
    cmd=[S4,'-t','+00:00']+ex+([] if b is None else ['--blocksz',str(b)])+[p]
    r=subprocess.run(cmd,capture_output=True); return r.returncode,r.stdout,r.stderr
extras=[['--color=always'],['--color=always','-n','-u','-w'],['--color=always','-p','-l','--separator','<<>>'],['--color=always','-a','2020-09-13 12:28:00','-b','2020-09-13 14:30:00','-z','+05:00']]
bad=0
for seed in range(int(sys.argv[1]),int(sys.argv[1])+int(sys.argv[2])):
    rnd=random.Random(seed)
    data=gen(rnd, rnd.choice([2,3,5,10,30])) if seed%2 else gen2(rnd,rnd.choice([2,5,10,30]),rnd.choice(fmts))
    p=f'{W}/w_{seed}.log'; open(p,'wb').write(data); os.utime(p,(1700000000,1700000000)); keep=False
    for ex in extras:
        r0=run(p,None,ex)
        assert r0[0]==0, r0
        for b in list(range(64,132))+[len(data)-1,len(data),len(data)+1,len(data)//2]:
            if b<64: continue
            r=run(p,b,ex)
            if r[:2]!=r0[:2]:
                bad+=1; keep=True; print('DIFF',seed,ex,b,len(data),len(r0[1]),len(r[1]),r[2][:200]); break
    if not keep: os.remove(p)
print('done bad',bad)
