import struct, subprocess, os, sys, random
S4='/tmp/wt/C08/target/release/s4'
W='/tmp/seedout/C08/work'
def cs(s,n):
    b=s.encode() if isinstance(s,str) else s
    return b[:n].ljust(n,b'\0')
def acct(flag,uid,gid,tty,bt,ut,st,et,mem,io,rw,minf,majf,sw,ec,comm):
    return struct.pack('<bxHHHIHHHHHHHHH2xI17s10x',flag,uid,gid,tty,bt,ut,st,et,mem,io,rw,minf,majf,sw,ec,cs(comm,17)).ljust(64,b'\0')
def acct3(flag,ver,tty,ec,uid,gid,pid,ppid,bt,et,ut,st,mem,io,rw,minf,majf,sw,comm):
    return struct.pack('<bbHIIIIIIfHHHHHHHH16s',flag,ver,tty,ec,uid,gid,pid,ppid,bt,et,ut,st,mem,io,rw,minf,majf,sw,cs(comm,16))
def nbacct(comm,ut,st,et,bt,uid,gid,mem,io,tty,flag):
    return struct.pack('<16sHHH2xqIIHHqB3x',cs(comm,16),ut,st,et,bt,uid,gid,mem,io,tty,flag)
def ll_x86(t,line,host): return struct.pack('<i32s256s',t,cs(line,32),cs(host,256))
def ll_arm(t,line,host): return struct.pack('<q32s256s',t,cs(line,32),cs(host,256))
def ll_nb(t,line,host): return struct.pack('<q8s16s',t,cs(line,8),cs(host,16))
def ll_ob(t,line,host): return struct.pack('<q8s256s',t,cs(line,8),cs(host,256))
def ut_ob(line,name,host,t): return struct.pack('<8s32s256sq',cs(line,8),cs(name,32),cs(host,256),t)
def ut_nb(line,name,host,t): return struct.pack('<8s8s16sq',cs(line,8),cs(name,8),cs(host,16),t)
def utx_x86(typ,pid,line,id_,user,host,eterm,eexit,sess,sec,usec,addr=(0,0,0,0)):
    return struct.pack('<h2xi32s4s32s256shhiii4I20x',typ,pid,cs(line,32),cs(id_,4),cs(user,32),cs(host,256),eterm,eexit,sess,sec,usec,*addr)
def utx_arm(typ,pid,line,id_,user,host,exit_,sess,sec,usec,addr=(0,0,0,0)):
    return struct.pack('<h2xi32s4s32s256siqqq4I20x4x',typ,pid,cs(line,32),cs(id_,4),cs(user,32),cs(host,256),exit_,sess,sec,usec,*addr)
def utx_fb(typ,sec,usec,id_,pid,user,line,host):
    return struct.pack('<h6xqq8si32s16s128s64x4x',typ,sec,usec,cs(id_,8),pid,cs(user,32),cs(line,16),cs(host,128))
def llx_nb32(sec,usec,line,host,ss=b''): return struct.pack('<qi32s256s128s',sec,usec,cs(line,32),cs(host,256),cs(ss,128))
def utx_nb32(name,id_,line,host,sess,typ,pid,eterm,eexit,ss,sec,usec):
    return struct.pack('<32s4s32s256sHHiHH128sqi40s',cs(name,32),cs(id_,4),cs(line,32),cs(host,256),sess,typ,pid,eterm,eexit,cs(ss,128),sec,usec,b'\0'*40)
def utx_nb64(user,id_,line,host,sess,typ,pid,eterm,eexit,sec,usec):
    return struct.pack('<32s4s32s256sHHiHH128sqi4x36s4x',cs(user,32),cs(id_,4),cs(line,32),cs(host,256),sess,typ,pid,eterm,eexit,b'\0'*128,sec,usec,b'\0'*36)
for f,n in [(acct,64),(acct3,64),(nbacct,56),(ll_x86,292),(ll_arm,296),(ll_nb,32),(ll_ob,272),(ut_ob,304),(ut_nb,40),(utx_x86,384),(utx_arm,400),(utx_fb,280),(llx_nb32,428),(utx_nb32,516),(utx_nb64,520)]:
    pass
def run(path,*args):
    p=subprocess.run([S4,'--color','never',*args,path],capture_output=True)
    return p.stdout, p.stderr
def write(name,data,sub=None):
    d=os.path.join(W,sub) if sub else W
    os.makedirs(d,exist_ok=True)
    p=os.path.join(d,name)
    open(p,'wb').write(data)
    return p
