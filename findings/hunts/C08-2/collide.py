import sys; sys.path.insert(0,'/tmp/seedout/C08/work')
from sweep import *
# realistic records, no nulls, counts at colliding sizes
cases=[('utx_arm',7),('utx_arm',14),('utx_arm',24),('utx_x86',25),('utx_x86',35),('utx_fb',10),('utx_fb',20),('utx_nb64',7),('utx_nb32',70),('utx_nb32',100),('ll_x86',8),('ll_x86',74),('ll_arm',4),('ll_arm',73),('ll_arm',34),('ll_ob',2),('ll_ob',73),('ll_nb',37),('ll_nb',73),('ll_nb',17),('acct',7),('nbacct',8),('acct',1),('acct3',1),('acct3',7),('ut_ob',5),('ut_nb',38),('ut_nb',10),('ut_nb',48),('ut_ob',25)]
for name,n in cases:
    f=0
    for seed in range(20):
        if not trial(name,900000+seed*1000+n,n,None,nulls=False,verbose=(f<1)): f+=1
    print('==',name,n,'fails',f,'/20')
