import sys; sys.path.insert(0,'/tmp/seedout/C08/work')
from gen import *
import random
FB=['EMPTY','BOOT_TIME','OLD_TIME','NEW_TIME','USER_PROCESS','INIT_PROCESS','LOGIN_PROCESS','DEAD_PROCESS','SHUTDOWN_TIME']
NB=['EMPTY','RUN_LVL','BOOT_TIME','OLD_TIME','NEW_TIME','INIT_PROCESS','LOGIN_PROCESS','USER_PROCESS','DEAD_PROCESS','ACCOUNTING','SIGNATURE','DOWN_TIME']
UT=['EMPTY','RUN_LVL','BOOT_TIME','NEW_TIME','OLD_TIME','INIT_PROCESS','LOGIN_PROCESS','USER_PROCESS','DEAD_PROCESS','ACCOUNTING']
def flags(f):
    s='0b{:04b}'.format(f)
    if f:
        names=[n for b,n in [(1,'AFORK'),(2,'ASU'),(4,'ACOMPAT'),(8,'ACORE'),(16,'AXSIG')] if f&b]
        s+=' ('+'|'.join(names)+')'
    return s
def f32s(x):
    # rust Display for f32: shortest repr that roundtrips f32
    import numpy
    return None
def ip4(a): return '.'.join(str((a>>s)&0xff) for s in (0,8,16,24))
# layouts: name -> (filename, builder(rec)->bytes, expected(rec)->line, key(rec))
def rnd_s(r,n,full=False):
    k = n if full else r.randint(0,n-1)
    return ''.join(r.choice('abcXYZ019/:.-') for _ in range(k))
L={}
def mk_acct(r,t):
    return dict(flag=r.choice([0,1,2,3,8,16,31]),uid=r.randint(0,65535),gid=r.randint(0,65535),tty=r.randint(0,65535),bt=t,ut=r.randint(0,65535),st=r.randint(0,65535),et=r.randint(0,65535),mem=r.randint(0,65535),io=r.randint(0,65535),rw=r.randint(0,65535),minf=r.randint(0,65535),majf=r.randint(0,65535),sw=r.randint(0,65535),ec=r.randint(0,2**32-1),comm=rnd_s(r,16))
L['acct']=('acct',lambda d:acct(**d),mk_acct,lambda d:"ac_flag %s ac_uid %d ac_gid %d ac_tty %d ac_btime %d ac_utime %d ac_stime %d ac_etime %d ac_mem %d ac_io %d ac_rw %d ac_minflt %d ac_majflt %d ac_swaps %d ac_exitcode %d ac_comm '%s'"%(flags(d['flag']),d['uid'],d['gid'],d['tty'],d['bt'],d['ut'],d['st'],d['et'],d['mem'],d['io'],d['rw'],d['minf'],d['majf'],d['sw'],d['ec'],d['comm']),lambda d:(d['bt'],0))
def mk_acct3(r,t):
    return dict(flag=r.choice([0,1,2,3,8,16,31]),ver=3,tty=r.randint(0,65535),ec=r.randint(0,2**32-1),uid=r.randint(0,2**32-1),gid=r.randint(0,2**32-1),pid=r.randint(0,2**32-1),ppid=r.randint(0,2**32-1),bt=t,et=float(r.choice([0,1,2.5,100,123456,0.125,16777216])),ut=r.randint(0,65535),st=r.randint(0,65535),mem=r.randint(0,65535),io=r.randint(0,65535),rw=r.randint(0,65535),minf=r.randint(0,65535),majf=r.randint(0,65535),sw=r.randint(0,65535),comm=rnd_s(r,16))
def fl(x):
    return str(int(x)) if x==int(x) else repr(x)
L['acct3']=('pacct',lambda d:acct3(**d),mk_acct3,lambda d:"ac_flag %s ac_version %d ac_tty %d ac_exitcode %d ac_uid %d ac_gid %d ac_pid %d ac_ppid %d ac_btime %d ac_etime %s ac_utime %d ac_stime %d ac_mem %d ac_io %d ac_rw %d ac_minflt %d ac_majflt %d ac_swaps %d ac_comm '%s'"%(flags(d['flag']),d['ver'],d['tty'],d['ec'],d['uid'],d['gid'],d['pid'],d['ppid'],d['bt'],fl(d['et']),d['ut'],d['st'],d['mem'],d['io'],d['rw'],d['minf'],d['majf'],d['sw'],d['comm']),lambda d:(d['bt'],0))
def mk_nbacct(r,t):
    return dict(comm=rnd_s(r,16),ut=r.randint(0,65535),st=r.randint(0,65535),et=r.randint(0,65535),bt=t,uid=r.randint(0,2**32-1),gid=r.randint(0,2**32-1),mem=r.randint(0,65535),io=r.randint(0,65535),tty=r.randint(-2**40,2**40),flag=r.choice([0,1,2,3,8,16,31]))
L['nbacct']=('acct',lambda d:nbacct(**d),mk_nbacct,lambda d:"ac_comm '%s' ac_utime %d ac_stime %d ac_etime %d ac_btime %d ac_uid %d ac_gid %d ac_mem %d ac_io %d ac_tty %d ac_flag %s"%(d['comm'],d['ut'],d['st'],d['et'],d['bt'],d['uid'],d['gid'],d['mem'],d['io'],d['tty'],flags(d['flag'])),lambda d:(d['bt'],0))
def mk_ll(nl,nh):
    return lambda r,t: dict(t=t,line=rnd_s(r,nl),host=rnd_s(r,nh))
llexp=lambda d:"ll_time %d ll_line '%s' ll_host '%s'"%(d['t'],d['line'],d['host'])
L['ll_x86']=('lastlog',lambda d:ll_x86(**d),mk_ll(32,256),llexp,lambda d:(d['t'],0))
L['ll_arm']=('lastlog',lambda d:ll_arm(**d),mk_ll(32,256),llexp,lambda d:(d['t'],0))
L['ll_nb']=('lastlog',lambda d:ll_nb(**d),mk_ll(8,16),llexp,lambda d:(d['t'],0))
L['ll_ob']=('lastlog',lambda d:ll_ob(**d),mk_ll(8,256),llexp,lambda d:(d['t'],0))
def mk_ut(nl,nn,nh):
    return lambda r,t: dict(line=rnd_s(r,nl),name=rnd_s(r,nn),host=rnd_s(r,nh),t=t)
utexp=lambda d:"ut_line '%s' ut_name '%s' ut_host '%s' ut_time %d"%(d['line'],d['name'],d['host'],d['t'])
L['ut_ob']=('utmp',lambda d:ut_ob(**d),mk_ut(8,32,256),utexp,lambda d:(d['t'],0))
L['ut_nb']=('utmp',lambda d:ut_nb(**d),mk_ut(8,8,16),utexp,lambda d:(d['t'],0))
def mk_utx_x86(r,t):
    return dict(typ=r.randint(0,9),pid=r.randint(-5,2**31-1),line=rnd_s(r,32),id_=rnd_s(r,4),user=rnd_s(r,32),host=rnd_s(r,256),eterm=r.randint(-32768,32767),eexit=r.randint(-32768,32767),sess=r.randint(-2**31,2**31-1),sec=t[0],usec=t[1],addr=(r.randint(0,2**32-1),0,0,0))
L['utx_x86']=('wtmp',lambda d:utx_x86(**d),mk_utx_x86,lambda d:"ut_type %s ut_pid %d ut_line '%s' ut_id '%s' ut_user '%s' ut_host '%s' e_termination %d e_exit %d ut_session '%d' ut_xtime %d.%d ut_addr %s"%(UT[d['typ']],d['pid'],d['line'],d['id_'],d['user'],d['host'],d['eterm'],d['eexit'],d['sess'],d['sec'],d['usec'],ip4(d['addr'][0])),lambda d:(d['sec'],d['usec']))
def mk_utx_arm(r,t):
    return dict(typ=r.randint(0,9),pid=r.randint(-5,2**31-1),line=rnd_s(r,32),id_=rnd_s(r,4),user=rnd_s(r,32),host=rnd_s(r,256),exit_=r.randint(-2**31,2**31-1),sess=r.randint(-2**63,2**63-1),sec=t[0],usec=t[1],addr=(r.randint(0,2**32-1),0,0,0))
L['utx_arm']=('wtmp',lambda d:utx_arm(**d),mk_utx_arm,lambda d:"ut_type %s ut_pid %d ut_line '%s' ut_id '%s' ut_user '%s' ut_host '%s' ut_exit %d ut_session '%d' ut_tv %d.%d ut_addr %s"%(UT[d['typ']],d['pid'],d['line'],d['id_'],d['user'],d['host'],d['exit_'],d['sess'],d['sec'],d['usec'],ip4(d['addr'][0])),lambda d:(d['sec'],d['usec']))
def mk_utx_fb(r,t):
    return dict(typ=r.randint(1,8),sec=t[0],usec=t[1],id_=rnd_s(r,8),pid=r.randint(0,2**31-1),user=rnd_s(r,32),line=rnd_s(r,16),host=rnd_s(r,128))
L['utx_fb']=('utmpx',lambda d:utx_fb(**d),mk_utx_fb,lambda d:"ut_type %s ut_tv %d.%d ut_id '%s' ut_pid %d ut_user '%s' ut_line '%s' ut_host '%s'"%(FB[d['typ']],d['sec'],d['usec'],d['id_'],d['pid'],d['user'],d['line'],d['host']),lambda d:(d['sec'],d['usec']))
def mk_llx(r,t): return dict(sec=t[0],usec=t[1],line=rnd_s(r,32),host=rnd_s(r,256))
L['llx_nb32']=('lastlogx',lambda d:llx_nb32(**d),mk_llx,lambda d:"ll_tv %d.%d ll_line '%s' ll_host '%s' ll_ss "%(d['sec'],d['usec'],d['line'],d['host']),lambda d:(d['sec'],d['usec']))
def mk_utx_nb32(r,t): return dict(name=rnd_s(r,32),id_=rnd_s(r,4),line=rnd_s(r,32),host=rnd_s(r,256),sess=r.randint(0,65535),typ=r.randint(1,8),pid=r.randint(0,2**31-1),eterm=r.randint(0,65535),eexit=r.randint(0,65535),ss=b'',sec=t[0],usec=t[1])
L['utx_nb32']=('wtmpx',lambda d:utx_nb32(**d),mk_utx_nb32,lambda d:"ut_name '%s' ut_id '%s' ut_line '%s' ut_host '%s' ut_session '%d' ut_type %s ut_pid %d e_termination %d e_exit %d ut_ss '' ut_tv %d.%d"%(d['name'],d['id_'],d['line'],d['host'],d['sess'],NB[d['typ']],d['pid'],d['eterm'],d['eexit'],d['sec'],d['usec']),lambda d:(d['sec'],d['usec']))
def mk_utx_nb64(r,t): return dict(user=rnd_s(r,32),id_=rnd_s(r,4),line=rnd_s(r,32),host=rnd_s(r,256),sess=r.randint(0,65535),typ=r.randint(1,8),pid=r.randint(0,2**31-1),eterm=r.randint(0,65535),eexit=r.randint(0,65535),sec=t[0],usec=t[1])
L['utx_nb64']=('wtmpx',lambda d:utx_nb64(**d),mk_utx_nb64,lambda d:"ut_user '%s' ut_id '%s' ut_line '%s' ut_host '%s' ut_session '%d' ut_type %s ut_pid %d e_termination %d e_exit %d ut_tv %d.%d"%(d['user'],d['id_'],d['line'],d['host'],d['sess'],NB[d['typ']],d['pid'],d['eterm'],d['eexit'],d['sec'],d['usec']),lambda d:(d['sec'],d['usec']))
SUBSEC={'utx_x86','utx_arm','utx_fb','llx_nb32','utx_nb32','utx_nb64'}
import re
def norm(line,exp):
    return line
def trial(name,seed,n,blocksz=None,nulls=True,verbose=False):
    r=random.Random(seed)
    fn,build,mk,exp,key=L[name]
    base=1600000000
    recs=[]; data=b''
    times=[base+r.randint(0,6) for _ in range(n)]
    for i in range(n):
        if nulls and r.random()<0.2:
            data+=b'\0'*len(build(mk(r,(base,0) if name in SUBSEC else base)))
            continue
        t=times[i]
        if name in SUBSEC: t=(t,r.choice([0,1,999999,500000]))
        d=mk(r,t); recs.append(d); data+=build(d)
    p=write(fn,data,'sw_%s_%d'%(name,seed))
    args=[] if blocksz is None else ['--blocksz',str(blocksz)]
    out,err=run(p,*args)
    got=[l for l in out.replace(b'\0',b'').decode('latin1').split('\n') if l]
    order=sorted(range(len(recs)),key=lambda i:(key(recs[i]),i))
    want=[exp(recs[i]) for i in order]
    ok = got==want
    if not ok and verbose:
        print('FAIL',name,seed,n,blocksz,p,'got',len(got),'want',len(want))
        for g,w in zip(got,want):
            if g!=w: print('  G',g[:300]); print('  W',w[:300]); break
        if err.strip(): print('  ERR',err[:300])
    return ok
if __name__=='__main__':
    names=sys.argv[1:] or list(L)
    for name in names:
        fails=0; tot=0
        for seed in range(12):
            for n in (1,2,3,7,20):
                for bs in (None,64,128,512):
                    tot+=1
                    if not trial(name,seed*100+n,n,bs,verbose=(fails<3)): fails+=1
        print(name,'fails',fails,'/',tot)
