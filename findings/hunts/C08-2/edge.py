import sys; sys.path.insert(0,'/tmp/seedout/C08/work')
from gen import *
def show(tag,p,*a):
    out,err=run(p,*a)
    print('##',tag,p); print(out.replace(b'\0',b'').decode('latin1')[:1500]); 
    if err.strip(): print('  ERR:',err.decode()[:300])
T=1600000000
A=lambda **k: acct(**{**dict(flag=0,uid=1000,gid=1000,tty=34816,bt=T,ut=1,st=2,et=3,mem=4,io=5,rw=6,minf=7,majf=8,sw=9,ec=0,comm='bash'),**k})
V=lambda **k: acct3(**{**dict(flag=0,ver=3,tty=34816,ec=0,uid=1000,gid=1000,pid=100,ppid=1,bt=T,et=1.5,ut=1,st=2,mem=4,io=5,rw=6,minf=7,majf=8,sw=9,comm='bash'),**k})
N=lambda **k: nbacct(**{**dict(comm='sh',ut=1,st=2,et=3,bt=T,uid=1000,gid=100,mem=4,io=5,tty=1282,flag=0),**k})
# 1 flags outside mask
show('acct flags',write('acct',A(flag=0x20,bt=T)+A(flag=-128,bt=T+1)+A(flag=0x7f,bt=T+2)+A(flag=1,bt=T+3),'e1'))
show('acct3 flags',write('pacct',V(flag=0x20,bt=T)+V(flag=-128,bt=T+1)+V(flag=0x7f,bt=T+2)+V(flag=1,bt=T+3),'e1b'))
show('nbacct flags',write('acct',N(flag=0x20,bt=T)+N(flag=0x80,bt=T+1)+N(flag=0xff,bt=T+2)+N(flag=1,bt=T+3),'e1c'))
# 2 etime floats
import math
show('etime',write('pacct',b''.join(V(et=x,bt=T+i) for i,x in enumerate([0.0,-0.0,1e10,1e-7,float('nan'),float('inf'),-1.0,3.4e38,16777217.0,0.1])),'e2'))
# 3 all 0xff record in middle
show('ff',write('acct',A(bt=T)+b'\xff'*64+A(bt=T+2,comm='after'),'e3'))
show('ff_ll',write('lastlog',ll_x86(T,'pts/0','h')+b'\xff'*292+ll_x86(T+2,'pts/1','h2'),'e3b'))
# 4 times out of 2000..2038
show('old',write('acct',A(bt=900000000)+A(bt=900000001,comm='two'),'e4'))
show('old_ll',write('lastlog',ll_x86(900000000,'pts/0','h')+ll_x86(900000005,'pts/1','h2'),'e4b'))
show('future',write('pacct',V(bt=2200000000)+V(bt=2200000001,comm='two'),'e4c'))
show('future_utob',write('utmp',ut_ob('ttyC0','root','',2200000000)+ut_ob('ttyC1','bob','',2200000001),'e4d'))
show('zero time',write('acct',A(bt=0)+A(bt=T,comm='two'),'e4e'))
# 5 full comm
show('comm16',write('pacct',V(comm='0123456789abcdef',bt=T)+V(comm='ABCDEFGHIJKLMNOP',bt=T+1),'e5'))
show('comm17',write('acct',A(comm='0123456789abcdefg',bt=T)+A(comm='x',bt=T+1),'e5b'))
show('nbcomm16',write('acct',N(comm='0123456789abcdef',bt=T)+N(comm='x',bt=T+1),'e5c'))
# 7 misnamed
show('v3 in acct',write('acct',V(bt=T)+V(bt=T+1,comm='two'),'e7'))
show('v0 in pacct',write('pacct',A(bt=T)+A(bt=T+1,comm='two'),'e7b'))
show('v3 in acct uid0',write('acct',V(bt=T,uid=0,gid=0,flag=2)+V(bt=T+1,comm='two',uid=0,gid=0),'e7c'))
# 8 negative
show('neg ll',write('lastlog',ll_x86(T,'pts/0','h')+ll_x86(-5,'pts/1','neg')+ll_x86(T-1,'pts/2','h3'),'e8'))
show('neg ob',write('lastlog',ll_ob(T,'ttyp0','h')+ll_ob(-5,'ttyp1','neg')+ll_ob(T-1,'ttyp2','h3'),'e8b'))
