import sys; sys.path.insert(0,'/tmp/seedout/C08/work')
from gen import *
T=1600000000
recs=[]
for i in range(24):
    # realistic aarch64 wtmp: USER_PROCESS logins; ut_session = sid (a pid), ut_addr_v6 IPv4
    recs.append(utx_arm(7,2000+i,'pts/%d'%(i%4),'ts/%d'%(i%4),'alice','10.0.0.5',0,2000+i,T+i,123456,(0x0500000a,0,0,0)))
p=write('wtmp',b''.join(recs),'repro_arm24')
out,err=run(p)
lines=[l for l in out.replace(b'\0',b'').decode('latin1').split('\n') if l]
print(len(lines),'lines'); print('\n'.join(l[:200] for l in lines[:4])); print(err.decode()[:300])
# variant: first record is BOOT_TIME 'reboot' with kernel version host
recs[0]=utx_arm(2,0,'~','~~','reboot','5.15.0-1034-raspi',0,0,T,1,(0,0,0,0))
p=write('wtmp',b''.join(recs),'repro_arm24b')
out,err=run(p)
lines=[l for l in out.replace(b'\0',b'').decode('latin1').split('\n') if l]
print(len(lines),'lines'); print('\n'.join(l[:200] for l in lines[:4])); print(err.decode()[:300])
