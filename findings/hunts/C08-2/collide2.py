import sys; sys.path.insert(0,'/tmp/seedout/C08/work')
import sweep
from sweep import *
# realistic short strings
def rs(r,n,full=False):
    pool=['pts/0','tty1','root','alice','~','reboot','10.0.0.5','host.example.com','5.15.0-generic','bob','ts/1','','sshd','console']
    s=r.choice(pool)
    return s[:n-1]
sweep.rnd_s=rs
for k,v in list(L.items()):
    pass
cases=[('utx_arm',7),('utx_arm',14),('utx_arm',24),('utx_arm',21),('utx_x86',25),('utx_x86',35),('utx_x86',50),('utx_fb',10),('utx_fb',20),('utx_fb',13),('utx_nb64',7),('utx_nb32',70),('utx_nb32',100),('ll_ob',73),('ll_ob',2),('ll_x86',8),('ll_arm',4),('ut_ob',25),('ut_ob',5),('ut_nb',38),('acct',7),('nbacct',8),('acct3',7)]
for name,n in cases:
    f=0
    for seed in range(20):
        if not trial(name,700000+seed*1000+n,n,None,nulls=False,verbose=(f<1)): f+=1
    print('==',name,n,'fails',f,'/20')
