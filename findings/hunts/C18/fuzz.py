#!/usr/bin/env python3
"""Corrupt evtx / journal payloads, compress, run s4, look for crashes and leftover temp files."""
import os, sys, subprocess, random, gzip, shutil, tempfile, lzma, bz2

S4 = "/tmp/wt/C18/target/release/s4"
BASE = "/tmp/seedout/C18/work/tmp"
OUT = "/tmp/seedout/C18/work/fuzzcases"
os.makedirs(OUT, exist_ok=True)

kind = sys.argv[1]  # evtx | journal
n = int(sys.argv[2])
seed = int(sys.argv[3]) if len(sys.argv) > 3 else 1
rnd = random.Random(seed)
if kind == "evtx":
    src = lzma.open("/tmp/seedout/C18/work/in/e1.evtx.xz").read()
    suffix = ".evtx.gz"
else:
    src = lzma.open("/tmp/seedout/C18/work/in/u1.journal.xz").read()
    suffix = ".journal.gz"

def mutate(b):
    b = bytearray(b)
    mode = rnd.randrange(6)
    if mode == 0:
        for _ in range(rnd.randrange(1, 20)):
            b[rnd.randrange(len(b))] = rnd.randrange(256)
    elif mode == 1:
        # header region
        for _ in range(rnd.randrange(1, 8)):
            b[rnd.randrange(min(len(b), 8192))] = rnd.randrange(256)
    elif mode == 2:
        b = b[:rnd.randrange(1, len(b))]
    elif mode == 3:
        p = rnd.randrange(len(b) - 8)
        b[p:p+8] = b"\xff" * 8
    elif mode == 4:
        p = rnd.randrange(len(b) - 64)
        b[p:p+64] = bytes(rnd.randrange(256) for _ in range(64))
    else:
        p = rnd.randrange(len(b) - 4)
        b[p:p+4] = (rnd.choice([0, 1, 0x7fffffff, 0xffffffff, 0x80000000, 0xfffffff0])).to_bytes(4, "little")
    return bytes(b)

bad = 0
for i in range(n):
    td = tempfile.mkdtemp(prefix="fz-", dir=BASE)
    data = mutate(src)
    fn = os.path.join(td, "case" + suffix)
    with gzip.open(fn, "wb", compresslevel=1) as f:
        f.write(data)
    tmpd = os.path.join(td, "T"); os.mkdir(tmpd)
    env = dict(os.environ, TMPDIR=tmpd)
    try:
        p = subprocess.run([S4, "-s", fn], stdout=subprocess.DEVNULL, stderr=subprocess.PIPE, env=env, timeout=60)
        rc = p.returncode; err = p.stderr[-400:]
    except subprocess.TimeoutExpired:
        rc = "timeout"; err = b""
    left = os.listdir(tmpd)
    if left or rc not in (0, 1):
        bad += 1
        keep = os.path.join(OUT, f"{kind}_{seed}_{i}{suffix}")
        shutil.copy(fn, keep)
        print("BAD", keep, "rc", rc, "left", left, err.decode("utf8", "replace")[-300:], flush=True)
    shutil.rmtree(td, ignore_errors=True)
print(f"fuzz {kind} n={n} seed={seed} bad={bad}")
