#!/usr/bin/env python3
"""Normal-run variants: check that TMPDIR is empty after s4 exits."""
import os, subprocess, tempfile, shutil, resource, signal, sys

S4 = "/tmp/wt/C18/target/release/s4"
W = "/tmp/seedout/C18/work"
BASE = W + "/tmp"
os.chdir(W)

def run(label, args, stdout="devnull", stderr="devnull", pre=None, head=False, env_extra=None, tmpdir=None):
    td = tmpdir or tempfile.mkdtemp(prefix="va-", dir=BASE)
    env = dict(os.environ, TMPDIR=td)
    if env_extra: env.update(env_extra)
    def preexec():
        signal.signal(signal.SIGINT, signal.SIG_DFL)
        if pre: pre()
    kw = {}
    so = subprocess.DEVNULL
    if stdout == "full": so = open("/dev/full", "wb")
    elif stdout == "pipe": so = subprocess.PIPE
    se = subprocess.PIPE
    p = subprocess.Popen([S4] + args, stdout=so, stderr=se, env=env, preexec_fn=preexec,
                         close_fds=True)
    if stdout == "pipe" and head:
        p.stdout.readline(); p.stdout.close()
    try:
        err = p.stderr.read()
        rc = p.wait(timeout=120)
    except subprocess.TimeoutExpired:
        p.kill(); rc = "timeout"; err = b""
    left = os.listdir(td) if os.path.isdir(td) else "nodir"
    print(f"[{label}] rc={rc} left={len(left) if left!='nodir' else left} {left[:3] if left else ''} err_tail={err[-200:]!r}", flush=True)
    if not tmpdir:
        shutil.rmtree(td, ignore_errors=True)

run("plain", ["in"])
run("head1", ["in"], stdout="pipe", head=True)
run("devfull", ["in"], stdout="full")
run("devfull-s", ["-s", "in"], stdout="full")
run("summary", ["-s", "in"])
run("after2999", ["-a", "2999-01-01", "in"])
run("before1971", ["-b", "1971-01-02", "in"])
for m in "short short-precise short-iso short-iso-precise short-full short-monotonic short-unix verbose export cat json".split():
    run("jo-" + m, ["--journal-output=" + m, "in/u1.journal.gz", "in/r1.journal.bz2"])
run("dup", ["in/r1.journal.gz", "in/r1.journal.gz", "in/./r1.journal.gz"])
run("tar", ["in2"])
for n in (8, 12, 16, 24, 40, 80, 150):
    run(f"nofile{n}", ["in"], pre=lambda n=n: resource.setrlimit(resource.RLIMIT_NOFILE, (n, n)))
for f in (4096, 1 << 20, 3 << 20):
    run(f"fsize{f}", ["in/r1.journal.gz", "in/e1.evtx.gz"], pre=lambda f=f: resource.setrlimit(resource.RLIMIT_FSIZE, (f, f)))
for a in (64 << 20, 128 << 20, 256 << 20):
    run(f"as{a>>20}M", ["in"], pre=lambda a=a: resource.setrlimit(resource.RLIMIT_AS, (a, a)))
for u in (0,):
    pass
# TMPDIR does not exist / not writable
run("tmpdir-missing", ["in/r1.journal.gz"], tmpdir=BASE + "/does-not-exist")
ro = tempfile.mkdtemp(prefix="ro-", dir=BASE); os.chmod(ro, 0o555)
run("tmpdir-ro(root ignores)", ["in/r1.journal.gz"], tmpdir=ro)
os.chmod(ro, 0o755); shutil.rmtree(ro, ignore_errors=True)
