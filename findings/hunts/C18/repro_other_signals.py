#!/usr/bin/env python3
"""Deliver other terminating signals while temp files exist; list leftovers."""
import os, subprocess, signal, time, tempfile, shutil

S4 = "/tmp/wt/C18/target/release/s4"
W = "/tmp/seedout/C18/work"
BASE = W + "/tmp"

for sig in (signal.SIGINT, signal.SIGTERM, signal.SIGHUP, signal.SIGQUIT):
    td = tempfile.mkdtemp(prefix="sg-", dir=BASE)
    env = dict(os.environ, TMPDIR=td)
    p = subprocess.Popen([S4, W + "/in"], stdout=subprocess.PIPE, stderr=subprocess.DEVNULL, env=env,
                         preexec_fn=lambda: [signal.signal(s, signal.SIG_DFL) for s in (signal.SIGINT, signal.SIGQUIT)])
    # slow reader keeps s4 alive with temp files present
    deadline = time.monotonic() + 4.0
    while time.monotonic() < deadline:
        os.read(p.stdout.fileno(), 4096); time.sleep(0.01)
    before = len(os.listdir(td))
    p.send_signal(sig)
    t0 = time.monotonic()
    while p.poll() is None and time.monotonic() - t0 < 10:
        os.read(p.stdout.fileno(), 65536)
    rc = p.poll()
    left = os.listdir(td)
    print(f"{sig.name}: tempfiles before={before} rc={rc} exit after {time.monotonic()-t0:.2f}s tempfiles left={len(left)} {left[:2]}", flush=True)
    if rc is None: p.kill()
    shutil.rmtree(td, ignore_errors=True)
