#!/usr/bin/env python3
"""s4's stdout is a pipe whose reader does not read (like `s4 ... | less` with the pager idle).
Send SIGINT (1 or 5 times); watch whether s4 exits and whether temp files remain.
Control: same run with the reader draining the pipe."""
import os, subprocess, signal, time, tempfile, shutil, sys

S4 = "/tmp/wt/C18/target/release/s4"
W = "/tmp/seedout/C18/work"
BASE = W + "/tmp"
ARGS = sys.argv[1:] or [W + "/in"]

def trial(nsig, drain):
    td = tempfile.mkdtemp(prefix="bl-", dir=BASE)
    env = dict(os.environ, TMPDIR=td)
    p = subprocess.Popen([S4] + ARGS, stdout=subprocess.PIPE, stderr=subprocess.DEVNULL, env=env,
                         preexec_fn=lambda: signal.signal(signal.SIGINT, signal.SIG_DFL))
    # wait until s4 has filled the pipe: temp files exist and count is stable
    time.sleep(6.0)
    before = len(os.listdir(td))
    state = open(f"/proc/{p.pid}/wchan").read() if os.path.exists(f"/proc/{p.pid}/wchan") else "?"
    t0 = time.monotonic()
    for i in range(nsig):
        p.send_signal(signal.SIGINT); time.sleep(0.3)
    if drain:
        import threading
        threading.Thread(target=lambda: p.stdout.read(), daemon=True).start()
    try:
        rc = p.wait(timeout=15); dt = time.monotonic() - t0
        res = f"exited rc={rc} {dt:.2f}s after first SIGINT"
    except subprocess.TimeoutExpired:
        res = "STILL RUNNING 15 s after SIGINT"
    after = len(os.listdir(td))
    alive = p.poll() is None
    # now let the reader go away (pager quits)
    p.stdout.close()
    try:
        rc2 = p.wait(timeout=10)
    except subprocess.TimeoutExpired:
        p.kill(); rc2 = "killed"
    final = len(os.listdir(td))
    print(f"nsig={nsig} drain={drain}: tempfiles before SIGINT={before} (main wchan={state!r}); {res}; "
          f"tempfiles after={after}; alive={alive}; after reader closed rc={rc2} tempfiles={final}", flush=True)
    shutil.rmtree(td, ignore_errors=True)

trial(1, False)
trial(5, False)
trial(1, True)
