#!/usr/bin/env python3
"""SIGINT sweep for s4: deliver SIGINT at swept delays; check TMPDIR is empty
after exit and that exit is prompt.
usage: sweep.py LABEL READER(fast|slow|none|devnull) T_MAX_MS STEP_MS [nsig] -- s4 args...
"""
import os, sys, subprocess, signal, time, shutil, tempfile, threading

S4 = "/tmp/wt/C18/target/release/s4"
BASE = "/tmp/seedout/C18/work/tmp"

def run(args, delay, reader, nsig=1, gap=0.0, sig=signal.SIGINT):
    td = tempfile.mkdtemp(prefix="sw-", dir=BASE)
    env = dict(os.environ, TMPDIR=td)
    if reader == "devnull":
        out = subprocess.DEVNULL
    else:
        out = subprocess.PIPE
    t0 = time.monotonic()
    p = subprocess.Popen([S4] + args, stdout=out, stderr=subprocess.PIPE, env=env,
                         preexec_fn=lambda: signal.signal(signal.SIGINT, signal.SIG_DFL))
    nbytes = [0]
    stop = [False]
    def rd():
        f = p.stdout
        while True:
            if reader == "slow":
                time.sleep(0.02)
                b = f.read1(4096) if hasattr(f, "read1") else os.read(f.fileno(), 4096)
            elif reader == "none":
                # do not read at all until signalled to stop
                while not stop[0]:
                    time.sleep(0.01)
                b = os.read(f.fileno(), 1 << 20)
            else:
                b = os.read(f.fileno(), 1 << 20)
            if not b:
                break
            nbytes[0] += len(b)
    errb = []
    def rde():
        errb.append(p.stderr.read())
    th = None
    if out == subprocess.PIPE:
        th = threading.Thread(target=rd, daemon=True); th.start()
    the = threading.Thread(target=rde, daemon=True); the.start()
    # sleep until delay
    while time.monotonic() - t0 < delay:
        time.sleep(0.0002)
    seen_tmp = os.listdir(td)
    alive = p.poll() is None
    tsig = time.monotonic()
    for i in range(nsig):
        try:
            p.send_signal(sig)
        except ProcessLookupError:
            pass
        if gap:
            time.sleep(gap)
    try:
        rc = p.wait(timeout=10)
        hung = False
    except subprocess.TimeoutExpired:
        hung = True
        rc = None
    texit = time.monotonic() - tsig
    left = os.listdir(td)
    if hung:
        stop[0] = True
        p.kill(); p.wait()
    stop[0] = True
    if th: th.join(timeout=5)
    the.join(timeout=5)
    err = errb[0] if errb else b""
    shutil.rmtree(td, ignore_errors=True)
    return dict(delay=delay, alive=alive, rc=rc, hung=hung, texit=texit, left=left,
                seen=len(seen_tmp), nbytes=nbytes[0], err=err[:300])

def main():
    label, reader, tmax, step = sys.argv[1], sys.argv[2], float(sys.argv[3]), float(sys.argv[4])
    i = sys.argv.index("--")
    extra = sys.argv[5:i]
    nsig = int(extra[0]) if extra else 1
    args = sys.argv[i+1:]
    bad = 0; n = 0; maxexit = 0; alive_n = 0; seen_n = 0
    d = 0.0
    rcs = {}
    while d <= tmax:
        r = run(args, d / 1000.0, reader, nsig=nsig, gap=0.001 if nsig > 1 else 0)
        n += 1
        if r["alive"]:
            alive_n += 1
            maxexit = max(maxexit, r["texit"])
        if r["seen"]: seen_n += 1
        rcs[r["rc"]] = rcs.get(r["rc"], 0) + 1
        if r["left"] or r["hung"] or (r["alive"] and r["texit"] > 5.0):
            bad += 1
            print("BAD", label, r, flush=True)
        d += step
    print(f"{label}: runs={n} alive_at_sig={alive_n} tmp_present_at_sig={seen_n} bad={bad} max_exit_after_sig={maxexit:.3f}s rcs={rcs}", flush=True)

if __name__ == "__main__":
    main()
