#!/usr/bin/env python3
# many files with tied timestamps: dir order vs explicit (component-wise sorted) order; repeat for determinism
import os, sys, subprocess, shutil, random, pathlib
S4 = '/tmp/wt/C15/target/release/s4'
ROOT = '/tmp/seedout/C15/work/t8'
shutil.rmtree(ROOT, ignore_errors=True)
random.seed(int(sys.argv[1]) if len(sys.argv) > 1 else 1)
alphabet = ['a', 'B', 'b', 'c', '-', '_', ' ', 'é', '日', '0', '9', '.', '~', 'Z', '+', '!', '#']
def rname():
    n = ''.join(random.choice(alphabet) for _ in range(random.randint(1, 4)))
    if n.strip('.') == '' : n = 'x' + n
    return n
dirs = [ROOT]
for i in range(60):
    d = os.path.join(random.choice(dirs), rname() + 'd')
    os.makedirs(d, exist_ok=True)
    dirs.append(d)
files = set()
N = int(sys.argv[2]) if len(sys.argv) > 2 else 800
while len(files) < N:
    p = os.path.join(random.choice(dirs), 'f' + rname() + random.choice(['.log', '.txt', '', '.log.1', '_log']))
    if os.path.exists(p): continue
    with open(p, 'w') as f:
        f.write('2024-01-01 00:00:01 tie A\n2024-01-01 00:00:02 tie B\n')
    files.add(p)
# symlinked dirs
for i in range(5):
    t = random.choice(dirs[1:])
    l = os.path.join(random.choice(dirs), 'L%dd' % i)
    if not os.path.abspath(l).startswith(os.path.abspath(t)):  # avoid cycles
        try: os.symlink(os.path.abspath(t), l)
        except FileExistsError: pass
allf = []
for dp, dn, fn in os.walk(ROOT, followlinks=True):
    for f in fn: allf.append(os.path.join(dp, f))
def run(args, stdin=None):
    r = subprocess.run([S4, '--color=never', '-p'] + args, input=stdin, capture_output=True)
    return r.stdout, r.stderr
o_dir, e = run([ROOT])
print('stderr', e[:300])
comp = sorted(allf, key=lambda p: pathlib.PurePosixPath(p).parts)
byt = sorted(allf, key=lambda p: p.encode())
o_c, _ = run(comp)
o_b, _ = run(byt)
print('files', len(allf), 'lines', o_dir.count(b'\n'))
print('dir == explicit(component-sorted):', o_dir == o_c)
print('dir == explicit(bytewise-sorted): ', o_dir == o_b)
# stdin splits
for k in (0, 1, len(comp) // 2, len(comp) - 1, len(comp)):
    o, _ = run(comp[:k] + ['-'], stdin=('\n'.join(comp[k:]) + ('\n' if k < len(comp) else '')).encode())
    print('split', k, o == o_c)
    o, _ = run(['-'] + comp[k:], stdin=('\n'.join(comp[:k])).encode())
    print('split-front', k, o == o_c)
for i in range(5):
    o, _ = run([ROOT])
    if o != o_dir: print('NONDETERMINISTIC run', i)
print('done')
