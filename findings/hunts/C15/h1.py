#!/usr/bin/env python3
# harness: build a tree with many names, compare `s4 DIR` against `s4 file...` and stdin
import os, sys, subprocess, shutil, gzip, bz2, lzma, tarfile, io
S4 = '/tmp/wt/C15/target/release/s4'
ROOT = '/tmp/seedout/C15/work/t1'
shutil.rmtree(ROOT, ignore_errors=True)
os.makedirs(ROOT)
cnt = [0]
def content(tag):
    cnt[0] += 1
    n = cnt[0]
    # every file gets its own minute so that order is by datetime
    return ''.join('2024-03-%02d 10:%02d:%02d file%d %s line %d\n' % (1 + n // 60 % 28, n % 60, i, n, tag, i) for i in range(3)).encode()
def mk(rel, data=None, comp=None):
    p = os.path.join(ROOT, rel)
    os.makedirs(os.path.dirname(p), exist_ok=True)
    d = content(rel) if data is None else data
    if comp == 'gz': d = gzip.compress(d)
    if comp == 'bz2': d = bz2.compress(d)
    if comp == 'xz': d = lzma.compress(d)
    open(p, 'wb').write(d)
    return p
names = [
 'a.log', 'b.txt', 'c', 'syslog', 'messages.1', 'syslog.2.gz', 'x.log.gz', 'x.log.bz2', 'x.log.xz',
 'name with space.log', 'ünï côdé.log', '日本語', '.hidden', '.hidden.log', '.hiddendir/inner.log',
 'sub/a.log', 'sub/sub2/a.log', 'sub.d/z.log', 'sub-1/q.log',
 'pic.png', 'arch.zip', 'prog.exe', 'script.sh', 'code.c', 'x.py', 'lib.so', 'lib.so.1', 'lib.so.1.2.3',
 'foo.bin', 'foo.bin.1', 'foo.bin.gz', 'foo.png.log', 'foo.log.png',
 'UPPER.LOG', 'UPPER.PNG', 'Mixed.Gz',
 '-', '~', '--', '-.log', 'backup.log~', 'x.log.', 'x.log,', '...', '..x', 'a.', 'b..log',
 'log_media', 'media_log', 'x.old', 'x.bak', 'x.log.old', 'x.png.old', 'x.old.png', 'x.1.png',
 'a.b.c.d.e.f', 'x.tgz', 'x.bz', 'README', 'x.html', 'x.json', 'x.xml', 'x.csv',
 '1', '1.2', '123.456.789', 'png', 'gz', 'tar', '.png', '.gz', '.tar', '.log', '.1',
 'x.png~', 'x.png.', 'x.png-', '-x.png', '~x.png', 'x.PNG.1.GZ',
 'x.a', 'x.o', 'x.h', 'a.cat', 'err.aux',
 'x.log.1.gz.old', 'x.gz.1',
]
for n in names:
    comp = None
    low = n.lower().rstrip('~-,?;.')
    parts = low.split('.')
    # compress if the name claims compression as the final non-numeric suffix
    for s in reversed(parts[1:]):
        if s.isdigit(): continue
        if s in ('gz', 'gzip'): comp = 'gz'
        elif s == 'bz2': comp = 'bz2'
        elif s in ('xz', 'xzip'): comp = 'xz'
        break
    mk(n, comp=comp)
# symlinks
os.symlink(os.path.join(ROOT, 'a.log'), os.path.join(ROOT, 'link_to_a.png'))
os.symlink(os.path.join(ROOT, 'pic.png'), os.path.join(ROOT, 'link_to_pic.log'))
os.symlink(os.path.join(ROOT, 'pic.png'), os.path.join(ROOT, 'link_to_pic'))
os.symlink('sub', os.path.join(ROOT, 'linksub'))
os.symlink('nonexistent', os.path.join(ROOT, 'dangling.log'))
EXT = '/tmp/seedout/C15/work/t1ext'
shutil.rmtree(EXT, ignore_errors=True)
os.makedirs(EXT + '/d.png')
open(EXT + '/d.png/e.log', 'wb').write(content('ext'))
open(EXT + '/f.jpg', 'wb').write(content('extjpg'))
os.symlink(EXT, os.path.join(ROOT, 'extlink'))
os.symlink(EXT + '/f.jpg', os.path.join(ROOT, 'sub/f_log'))

def walk(root):
    out = []
    for dp, dn, fn in os.walk(root, followlinks=True):
        for f in fn:
            p = os.path.join(dp, f)
            if os.path.isfile(p):
                out.append(p)
    return sorted(out)
def run(args, stdin=None):
    r = subprocess.run([S4, '--color=never', '-p', '-t', '+00:00'] + args, input=stdin, capture_output=True)
    return r.stdout, r.stderr, r.returncode
allf = walk(ROOT)
o_dir, e_dir, rc = run([ROOT])
seen_dir = set()
for l in o_dir.decode('utf8', 'replace').splitlines():
    seen_dir.add(l.split(':2024-')[0])
print('rc', rc, 'stderr', e_dir.decode()[:2000])
o_all, e_all, rc2 = run(allf)
seen_all = set(l.split(':2024-')[0] for l in o_all.decode('utf8', 'replace').splitlines())
print('explicit rc', rc2, e_all.decode()[:2000])
print('files in tree', len(allf), 'printed via dir', len(seen_dir), 'printed explicit', len(seen_all))
print('--- NOT printed via dir:')
for f in allf:
    if f not in seen_dir: print('   ', f, '' if f in seen_all else '(also not explicit)')
print('--- printed via dir but not in walk:')
for f in sorted(seen_dir - set(allf)): print('   ', f)
# now equivalence: explicit list of the files printed via dir (sorted) vs dir
lst = [f for f in allf if f in seen_dir]
o_l, e_l, _ = run(lst)
print('dir == explicit(list of dir-printed):', o_l == o_dir, len(o_l), len(o_dir))
o_s, e_s, _ = run(['-'], stdin=('\n'.join(lst) + '\n').encode())
print('stdin == explicit:', o_s == o_l)
o_s2, e_s2, _ = run(['-'], stdin=(ROOT + '\n').encode())
print('stdin dir == dir:', o_s2 == o_dir)
