#!/bin/bash
# C15 reproductions; run from /tmp/seedout/C15/work
S4=/tmp/wt/C15/target/release/s4
L='2024-01-01 00:00:01 hello one\n2024-01-01 00:00:02 hello two\n'
# F-A: junk-only names / junk stem + unknown suffix skipped in a directory
rm -rf rA; mkdir rA; for n in - -- '~' ',' '?' ';' '...' '-.x' '~.foo' '..foo' '-.1' '~.old' ok; do printf "$L" > "rA/$n"; done
echo "A dir:";      $S4 --color=never -n rA | grep -c one        # 1   (only "ok")
echo "A explicit:"; $S4 --color=never -n rA/* rA/..* 2>/dev/null | grep -c one   # 13
# F-B: unknown outer suffix stripped, inner known non-log suffix decides
rm -rf rB; mkdir rB; for n in backup.sh.out job.py.err mail.sh.example.com report.pl.output x.c.orig a.b.c.d.e.f; do printf "$L" > "rB/$n"; done
echo "B dir:";      $S4 --color=never -n rB | grep -c one        # 0
echo "B explicit:"; $S4 --color=never -n rB/* | grep -c one      # 6
# F-C: symlink to a target with a non-log suffix: typed by link name in a dir, by target (as text) when named
rm -rf rC rCblob; mkdir rC rCblob; printf "$L" | gzip > rCblob/gzdata.bin; printf "$L" > rCblob/textdata.bin
ln -s ../rCblob/gzdata.bin rC/app.log.gz; ln -s ../rCblob/textdata.bin rC/plain.gz
echo "C dir:";      $S4 --color=never -p rC 2>&1 | grep -a -v two
echo "C explicit:"; $S4 --color=never -p rC/app.log.gz rC/plain.gz 2>&1 | grep -a -v two | cut -c1-80
# F-D: unreadable .tar panics the whole run (needs a non-root uid)
rm -rf rD; mkdir rD; printf "$L" > rD/a.log; (cd rB && tar cf ../rD/z.tar .); chmod 000 rD/z.tar; chmod a+rx . rD
echo "D dir:"; setpriv --reuid=65534 --regid=65534 --clear-groups $S4 --color=never -p rD; echo "rc=$?"
# F-E: tie order is component-wise, not byte-wise path order
rm -rf rE; mkdir -p rE/b rE/b-1; for f in b/x.log b.log b-1/y.log; do printf "$L" > rE/$f; done
echo "E dir:"; $S4 --color=never -p rE | grep one
echo "E explicit (LC_ALL=C sort):"; $S4 --color=never -p $(find rE -type f | LC_ALL=C sort) | grep one
# F-F: stdin path ending in CR
cp rD/a.log $'rF\r'; printf 'rF\r\n' | $S4 --color=never -n - 2>&1 | head -1; $S4 --color=never -n $'rF\r' | head -1 | od -c | head -1
