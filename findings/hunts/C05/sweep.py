#!/usr/bin/env python3
import os, subprocess, gzip, bz2, lzma, zlib, tarfile, io, sys, random, struct, shutil, time
S4='/tmp/hunt/C05/s4'; W='/tmp/hunt/C05/work/sw'
shutil.rmtree(W, ignore_errors=True); os.makedirs(W)
T0=time.time()
def run(path, extra):
    p=subprocess.run([S4,'--color','never','-t','+00:00']+extra+[path],capture_output=True,timeout=60)
    return p.returncode,p.stdout,p.stderr
def mklog(n, linelen=40, start=0):
    out=[]
    for i in range(n):
        t=start+i*37
        d=time.strftime('%Y-%m-%d %H:%M:%S', time.gmtime(946684800+t))
        out.append(('%s msg %06d '%(d,i)).ljust(linelen,'x')+'\n')
    return ''.join(out).encode()
def gz_variants(data):
    v={}
    for lvl in (0,1,6,9):
        v['gz_l%d'%lvl]=gzip.compress(data,lvl,mtime=0)
    # with fname / comment / extra / hcrc header
    def hdr(flags, extra=b'',name=b'',comment=b'',hcrc=False):
        h=b'\x1f\x8b\x08'+bytes([flags])+struct.pack('<I',12345)+b'\x00\x03'
        if flags&4: h+=struct.pack('<H',len(extra))+extra
        if flags&8: h+=name+b'\0'
        if flags&16: h+=comment+b'\0'
        if flags&2: h+=struct.pack('<H',zlib.crc32(h)&0xffff)
        return h
    def body(lvl=6,strategy=0):
        c=zlib.compressobj(lvl,zlib.DEFLATED,-15,9,strategy); return c.compress(data)+c.flush()
    tr=struct.pack('<II',zlib.crc32(data)&0xffffffff,len(data)&0xffffffff)
    v['gz_name']=hdr(8,name=b'orig.log')+body()+tr
    v['gz_comment']=hdr(16,comment=b'a comment')+body()+tr
    v['gz_extra']=hdr(4,extra=b'AB\x04\x00abcd')+body()+tr
    v['gz_hcrc']=hdr(2)+body()+tr
    v['gz_all']=hdr(2|4|8|16,extra=b'AB\x02\x00zz',name=b'n.log',comment=b'c')+body()+tr
    v['gz_ftext']=hdr(1)+body()+tr
    v['gz_huff']=hdr(0)+body(6,zlib.Z_HUFFMAN_ONLY)+tr
    v['gz_fixed']=hdr(0)+body(6,zlib.Z_FIXED)+tr
    # many small flushed blocks
    c=zlib.compressobj(6,zlib.DEFLATED,-15); b=b''
    for i in range(0,len(data),100): b+=c.compress(data[i:i+100])+c.flush(zlib.Z_FULL_FLUSH)
    b+=c.flush(); v['gz_flush']=hdr(0)+b+tr
    return v
def others(data,tag):
    v={}
    for lvl in (1,9): v['bz2_l%d'%lvl]=bz2.compress(data,lvl)
    for pre in (0,6,9|lzma.PRESET_EXTREME): v['xz_p%d'%(pre&15)]=lzma.compress(data,preset=pre)
    for chk,n in ((lzma.CHECK_NONE,'none'),(lzma.CHECK_CRC32,'crc32'),(lzma.CHECK_SHA256,'sha256')):
        v['xz_chk_'+n]=lzma.compress(data,check=chk)
    return v
def xz_cli(data,args):
    return subprocess.run(['xz','-c']+args,input=data,capture_output=True).stdout
def lz4_cli(data,args):
    return subprocess.run(['lz4','-c']+args,input=data,capture_output=True).stdout
def tars(data,name='x.log'):
    v={}
    for fmt,fn in ((tarfile.USTAR_FORMAT,'ustar'),(tarfile.GNU_FORMAT,'gnu'),(tarfile.PAX_FORMAT,'pax')):
        b=io.BytesIO()
        with tarfile.open(fileobj=b,mode='w',format=fmt) as t:
            ti=tarfile.TarInfo(name); ti.size=len(data); ti.mtime=1000000000
            t.addfile(ti,io.BytesIO(data))
        v['tar_'+fn]=b.getvalue()
    return v
fails=[]; ok=0
def check(tag,data,variants,extras):
    global ok
    d=os.path.join(W,tag); os.makedirs(d,exist_ok=True)
    plain=os.path.join(d,'x.log'); open(plain,'wb').write(data)
    for ex in extras:
        ref=run(plain,ex)
        for vn,blob in variants.items():
            if not blob: continue
            if vn.startswith('tar'): p=os.path.join(d,vn+'.tar')
            else:
                ext=vn.split('_')[0]; p=os.path.join(d,vn+'.log.'+ext)
            if not os.path.exists(p): open(p,'wb').write(blob)
            got=run(p,ex)
            if got[0]!=ref[0] or got[1]!=ref[1]:
                fails.append((tag,vn,ex,ref[0],len(ref[1]),got[0],len(got[1]),got[2][:200]))
                print('FAIL',tag,vn,ex,'ref rc',ref[0],len(ref[1]),'got rc',got[0],len(got[1]),got[2][:200],flush=True)
            else: ok+=1
BS=64  # small blocksz for block boundary corners
sizes=[]
# contents: linelen 32 => exact multiples of 64
for n in (0,1,2,3,4,5,8,63,64,65,128,1000):
    sizes.append(('n%d_l32'%n, mklog(n,32)))
for n in (1,3,17,200): sizes.append(('n%d_l41'%n, mklog(n,41)))
sizes.append(('onebyte', b'\n')); sizes.append(('onebyteA', b'A'))
sizes.append(('nonl', mklog(3,32)[:-1])); sizes.append(('nodt', b'hello world no datetime\nsecond line\n'))
sizes.append(('big64k', mklog(2048,32)))       # exactly 65536
sizes.append(('big64k1', mklog(2048,32)+b'2000-02-01 00:00:00 tail\n'))
sizes.append(('big4m', mklog(70000,64)))      # > lz4 64KB blocks, >xz chunks
extras_all=[[],['--blocksz','64'],['--blocksz','0x1000'],['-a','20000101T000200','-b','20000101T003000'],['--blocksz','64','-a','20000101T000100'],['--blocksz','64','-b','20000101T000100'],['-a','20010101T000000'],['-u','-d','%s']]
for tag,data in sizes:
    if time.time()-T0>400: print('TIME budget, stopping at',tag); break
    v={}
    v.update(gz_variants(data)); v.update(others(data,tag)); v.update(tars(data))
    v['xz_blk']=xz_cli(data,['--block-size=4096']) if len(data)<200000 else xz_cli(data,['--block-size=65536'])
    v['xz_lzma2small']=xz_cli(data,['--lzma2=dict=4KiB'])
    v['xz_x86']=xz_cli(data,['--x86','--lzma2'])
    v['xz_delta']=xz_cli(data,['--delta=dist=1','--lzma2'])
    for a,n in ((['-1'],'l1'),(['-9'],'l9'),(['-B4'],'B4'),(['-B7'],'B7'),(['-BD'],'BD'),(['--no-frame-crc'],'nocrc'),(['--content-size'],'csize'),(['-BX'],'BX'),(['--no-sparse','-B4','-BD','-9'],'mix')):
        v['lz4_'+n]=lz4_cli(data,a)
    ex=extras_all if len(data)<100000 else [[],['-a','20000115T000000','-b','20000116T000000'],['--blocksz','0x1000']]
    if len(data)>1000000: ex=[[],['-a','20000115T000000','-b','20000116T000000']]
    check(tag,data,v,ex)
print('OK',ok,'FAIL',len(fails),'elapsed',time.time()-T0)
