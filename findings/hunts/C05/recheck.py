import os,subprocess,collections
S4='/tmp/hunt/C05/s4'; W='/tmp/hunt/C05/work/sw'
def run(p,ex):
    r=subprocess.run([S4,'--color','never','-t','+00:00']+ex+[p],capture_output=True); return r.returncode,r.stdout,r.stderr
c=collections.Counter(); shown=set()
for tag in sorted(os.listdir(W)):
    if tag.startswith('big'): continue
    d=os.path.join(W,tag)
    for ex in ([],['--blocksz','64']):
        ref=run(os.path.join(d,'x.log'),ex)
        for f in sorted(os.listdir(d)):
            if f=='x.log' or any(k in f for k in('sha256','x86','delta')): continue
            g=run(os.path.join(d,f),ex)
            if g[:2]!=ref[:2]:
                c[f]+=1
                k=(f,g[2][:60])
                if k not in shown: shown.add(k); print(tag,f,ex,'ref',ref[0],len(ref[1]),'got',g[0],len(g[1]),g[2][:160])
print(c)
