#!/usr/bin/env python3
# mklz4.py IN OUT : write an LZ4 frame with stored (uncompressed) 64KiB blocks
import sys, struct
def rotl(x,r): return ((x<<r)|(x>>(32-r))) & 0xffffffff
P1,P2,P3,P4,P5=2654435761,2246822519,3266489917,668265263,374761393
def xxh32(data, seed=0):
    n=len(data); i=0
    if n>=16:
        v1=(seed+P1+P2)&0xffffffff; v2=(seed+P2)&0xffffffff; v3=seed; v4=(seed-P1)&0xffffffff
        while i<=n-16:
            a,b,c,d=struct.unpack_from('<IIII',data,i); i+=16
            v1=(rotl((v1+a*P2)&0xffffffff,13)*P1)&0xffffffff
            v2=(rotl((v2+b*P2)&0xffffffff,13)*P1)&0xffffffff
            v3=(rotl((v3+c*P2)&0xffffffff,13)*P1)&0xffffffff
            v4=(rotl((v4+d*P2)&0xffffffff,13)*P1)&0xffffffff
        h=(rotl(v1,1)+rotl(v2,7)+rotl(v3,12)+rotl(v4,18))&0xffffffff
    else:
        h=(seed+P5)&0xffffffff
    h=(h+n)&0xffffffff
    while i<=n-4:
        (a,)=struct.unpack_from('<I',data,i); i+=4
        h=(rotl((h+a*P3)&0xffffffff,17)*P4)&0xffffffff
    while i<n:
        h=(rotl((h+data[i]*P5)&0xffffffff,11)*P1)&0xffffffff; i+=1
    h^=h>>15; h=(h*P2)&0xffffffff; h^=h>>13; h=(h*P3)&0xffffffff; h^=h>>16
    return h
data=open(sys.argv[1],'rb').read()
with open(sys.argv[2],'wb') as f:
    desc=bytes([0x60,0x40])
    f.write(struct.pack('<I',0x184D2204)+desc+bytes([(xxh32(desc)>>8)&0xff]))
    for i in range(0,len(data),65536):
        b=data[i:i+65536]
        f.write(struct.pack('<I',len(b)|0x80000000)+b)
    f.write(struct.pack('<I',0))
