#!/usr/bin/env python3
# sweep.py: run s4 --summary on generated files and tabulate high-water marks
import subprocess, re, sys, os, itertools
S4='/tmp/wt/C17/target/release/s4'
def run(args, timeout=300):
    p = subprocess.run([S4,'--color=never','--summary']+args, stdout=subprocess.PIPE, stderr=subprocess.PIPE, timeout=timeout)
    err = p.stderr.decode('utf8','replace')
    d = {}
    for k,pat in [('blocks',r'^\s+blocks\s+: (\d+)'),('bhigh',r'blocks high\s*: (\d+)'),('lines',r'^\s+lines\s+: (\d+)\s*$'),('lhigh',r'lines high\s*: (\d+)'),('sys',r'^\s+syslines\s+: (\d+)\s*$'),('shigh',r'syslines high\s*: (\d+)'),
                  ('dropb',r'drop_block\(\)\s*: Ok (\d+), Err (\d+)'),('dropl',r'drop_line\(\)\s*: Ok (\d+), Err (\d+)'),('drops',r'drop_sysline\(\)\s*: Ok (\d+), Err (\d+)'),('pbytes',r'^Printed bytes\s*: (\d+)')]:
        m = re.findall(pat, err, re.M)
        d[k] = m
    d['outlen'] = len(p.stdout)
    d['rc'] = p.returncode
    d['err'] = [l for l in err.splitlines() if 'ERROR' in l or 'panic' in l][:3]
    return d
if __name__ == '__main__':
    for a in sys.argv[1:]:
        pass
    print(run(sys.argv[1:]))
