#!/usr/bin/env python3
# samples.py : run every sample text/.gz/.bz2/.lz4 log at small block sizes; flag files whose high-water marks are a large fraction of the totals
import os, sys, re
from sweep import run
root='/tmp/wt/C17/logs'
skip=('.xz','.tar','.journal','.evtx','.zip','.tgz','.utmp','.wtmp','.btmp','.7z')
flag=[]
cnt=0
for dp,dn,fn in os.walk(root):
    for f in fn:
        p=os.path.join(dp,f)
        if f.endswith(skip) or 'utmp' in f or 'wtmp' in f or 'acct' in f or 'lastlog' in f or 'btmp' in f: continue
        if os.path.getsize(p) < 20000 or os.path.getsize(p) > 30_000_000: continue
        for bs in ('256','2048'):
            try: d=run(['--blocksz',bs,p],timeout=120)
            except Exception as e: print('TIMEOUT',p,bs); continue
            if not d['blocks'] or not d['lhigh']: continue
            cnt+=1
            b=int(d['blocks'][0]); bh=int(d['bhigh'][0]); l=int(d['lines'][0]) if d['lines'] else 0; lh=int(d['lhigh'][0]); s=int(d['sys'][0]) if d['sys'] else 0; sh=int(d['shigh'][0])
            if b>=40 and (bh> b*0.3 or (l>200 and lh>l*0.3)):
                print('FLAG',p,'bs',bs,'blocks',b,'bhigh',bh,'lines',l,'lhigh',lh,'sys',s,'shigh',sh, d['err'])
print('ran',cnt)
