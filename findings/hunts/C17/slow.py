#!/usr/bin/env python3
# slow.py <sleep_ms_per_64KiB> s4-args... : run s4 --summary with a slow stdout reader; print marks
import subprocess, sys, time, re
S4='/tmp/wt/C17/target/release/s4'
ms=float(sys.argv[1])
import tempfile
ef=tempfile.TemporaryFile()
p=subprocess.Popen([S4,'--color=never','--summary']+sys.argv[2:],stdout=subprocess.PIPE,stderr=ef)
n=0
while True:
    b=p.stdout.read(65536)
    if not b: break
    n+=len(b); time.sleep(ms/1000)
p.wait(); ef.seek(0); err=ef.read().decode()
for l in err.splitlines():
    if re.search(r'^File:|blocks high|lines high|syslines high|streaming:',l): print(l.strip(), end='; ')
print('out',n)
