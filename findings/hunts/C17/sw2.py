import sys
from sweep import run
def short(d):
    return f"blocks={d['blocks']} bhigh={d['bhigh']} lhigh={d['lhigh']} shigh={d['shigh']} drops={d['drops']} out={d['outlen']} rc={d['rc']} {d['err']}"
if __name__=='__main__':
    print(short(run(sys.argv[1:])))
