#!/usr/bin/env python3
# gen_aligned.py OUT NLINES LINELEN : every line exactly LINELEN bytes including newline
import sys, datetime
out, n, L = sys.argv[1], int(sys.argv[2]), int(sys.argv[3])
t = datetime.datetime(2020,1,1,0,0,0)
with open(out,'w') as f:
    for i in range(n):
        t += datetime.timedelta(seconds=1)
        s = t.strftime('%Y-%m-%d %H:%M:%S') + f' h p[{i}]: '
        s = s + 'a'*(L-1-len(s)) + '\n'
        assert len(s)==L
        f.write(s)
