#!/usr/bin/env python3
# gen_dips.py OUT NLINES K : like gen.py short, but every K-th line carries a stale timestamp (1 year earlier, e.g. clock not yet set)
import sys, datetime
out, n, k = sys.argv[1], int(sys.argv[2]), int(sys.argv[3])
t = datetime.datetime(2020,1,1,0,0,0)
with open(out,'w') as f:
    for i in range(n):
        t += datetime.timedelta(seconds=1)
        ts = (t if (i % k) != k-1 else datetime.datetime(2019,1,1,0,0,0)).strftime('%Y-%m-%d %H:%M:%S')
        f.write(f'{ts} host prog[{i}]: message number {i}\n')
