#!/usr/bin/env python3
# gen.py OUT NLINES MODE [seed]
# MODE: short | long:N (each message has N bytes of payload) | multi:K (each message has K continuation lines) | mixed
import sys, random, datetime
out, n, mode = sys.argv[1], int(sys.argv[2]), sys.argv[3]
seed = int(sys.argv[4]) if len(sys.argv) > 4 else 1
r = random.Random(seed)
t = datetime.datetime(2020,1,1,0,0,0)
with open(out,'w') as f:
    for i in range(n):
        t += datetime.timedelta(seconds=1)
        ts = t.strftime('%Y-%m-%d %H:%M:%S')
        if mode == 'short':
            f.write(f'{ts} host prog[{i}]: message number {i}\n')
        elif mode.startswith('long:'):
            L = int(mode.split(':')[1])
            f.write(f'{ts} host prog[{i}]: ' + 'x'*L + '\n')
        elif mode.startswith('multi:'):
            K = int(mode.split(':')[1])
            f.write(f'{ts} host prog[{i}]: message number {i}\n')
            for k in range(K):
                f.write(f'    continuation line {k} of message {i}\n')
        elif mode == 'mixed':
            c = r.random()
            if c < 0.7:
                f.write(f'{ts} host prog[{i}]: message number {i}\n')
            elif c < 0.9:
                f.write(f'{ts} host prog[{i}]: ' + 'y'*r.randint(100,3000) + '\n')
            else:
                f.write(f'{ts} host prog[{i}]: head\n')
                for k in range(r.randint(1,40)):
                    f.write('  cont ' + 'z'*r.randint(0,200) + '\n')
