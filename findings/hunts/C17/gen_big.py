#!/usr/bin/env python3
# gen_big.py OUT NMSG CONT : NMSG messages, each followed by CONT continuation lines of 100 bytes
import sys, datetime
out, n, c = sys.argv[1], int(sys.argv[2]), int(sys.argv[3])
t = datetime.datetime(2020,1,1,0,0,0)
cont = ('    ' + 'c'*95 + '\n') * 1000
with open(out,'w') as f:
    for i in range(n):
        t += datetime.timedelta(seconds=1)
        f.write(t.strftime('%Y-%m-%d %H:%M:%S') + f' host prog[{i}]: big message {i}\n')
        for k in range(c//1000): f.write(cont)
