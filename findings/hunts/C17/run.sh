#!/bin/bash
# run.sh <s4 args...> ; prints the high-water marks only
/tmp/wt/C17/target/release/s4 --color=never --summary "$@" 2>&1 >/dev/null | grep -E "^File:|file size|block size|blocks  |blocks total|blocks high|lines  |lines high|syslines  |syslines high|streaming|Printed bytes" | tr -s ' ' | tr '\n' ';'; echo
