import os, sys, itertools, time
sys.path.insert(0,'/tmp/seedout/C19/work')
from h import *
files=[]
for r,d,fs in os.walk('/tmp/wt/C19/logs'):
    for f in fs:
        p=os.path.join(r,f)
        if os.path.getsize(p) < 3_000_000: files.append(p)
files.sort()
print(len(files), 'files')
optsets=[[], ['-n','-u'], ['-p','-w','-l','-d','%s '], ['-a','2000-01-01','-b','2023-01-01']]
t0=time.time()
bad=0
for f in files:
    for o in optsets:
        try:
            cmd,out,err,pr=check(o,[f])
        except Exception as e:
            pr=['EXC %r'%e]
        if pr:
            bad+=1
            print(f, o, pr, flush=True)
print('done',bad,time.time()-t0)
