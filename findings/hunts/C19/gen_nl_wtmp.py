#!/usr/bin/env python3
# generates t2/nl.wtmp: three linux x86_64 utmp records (384 bytes each) with '\n' inside ut_host / ut_line / ut_user
import struct, os
def rec(typ,pid,line,id_,user,host,sec,usec):
    return struct.pack('<hxxi32s4s32s256shhiii4i20s', typ,pid,line,id_,user,host,0,0,0,sec,usec,0,0,0,0,b'')
recs =rec(7,100,b'pts/0',b'ts/0',b'alice',b'host\nwith\nnl',1704067201,0)
recs+=rec(7,101,b'pts\n1',b'ts/1',b'bo\nb',b'h2',1704067202,0)
recs+=rec(7,102,b'pts/2',b'ts/2',b'carol',b'h3',1704067203,0)
os.makedirs('/tmp/seedout/C19/work/t2',exist_ok=True)
open('/tmp/seedout/C19/work/t2/nl.wtmp','wb').write(recs)
