import sys, random, os
sys.path.insert(0,'/tmp/seedout/C19/work')
from h import *
random.seed(3)
os.chdir('/tmp/seedout/C19/work/t6')
bad=0;n=0
for it in range(60):
    nf=random.choice([1,2,3])
    fs=[]
    for i in range(nf):
        name='g%d_%d.log'%(it%3,i)
        t=1704067200+random.randrange(50)
        lines=[]
        for j in range(random.randrange(1,40)):
            t+=random.randrange(0,3)
            import datetime
            ts=datetime.datetime.utcfromtimestamp(t).strftime('%Y-%m-%d %H:%M:%S')
            lines.append('%s m%d %s'%(ts,j,'x'*random.choice([0,1,5,30,100,300,2500,5000])))
            for k in range(random.choice([0,0,0,1,3])):
                lines.append(' cont %d %s'%(k,'y'*random.choice([0,3,70,2100])))
        data='\n'.join(lines)+random.choice(['','\n','\n\n'])
        open(name,'w').write(data)
        fs.append(name)
    for bs in random.sample([64,66,100,128,256,1000,2048,4096,65536],3):
        for o in ([],['-n','-w'],['-u','-p'],['-a','2024-01-01T00:00:20','-b','2024-01-01T00:00:40','-l']):
            cmd,out,err,pr=check(['--blocksz',str(bs)]+o,fs,sep=random.choice([SEPTOK,SEPTOK+'\\n']))
            n+=1
            if pr and not pr[0].startswith('no summary'):
                bad+=1; print(cmd,pr,flush=True)
print('done',n,bad)
