#!/usr/bin/env python3
"""harness: run s4 --summary, parse the summary, compare with stdout"""
import subprocess, re, sys, os
S4 = '/tmp/wt/C19/target/release/s4'
SEPTOK = '@@S@@'

def run(args, files, env=None, sep=SEPTOK, color='never', stdin=None):
    cmd = [S4, '--summary', '--color=' + color]
    if sep is not None:
        cmd += ['--separator', sep]
    cmd += list(args) + list(files)
    e = dict(os.environ)
    if env:
        e.update(env)
    p = subprocess.run(cmd, stdout=subprocess.PIPE, stderr=subprocess.PIPE, env=e, input=stdin)
    return cmd, p.returncode, p.stdout, p.stderr

def parse(err):
    t = err.decode('utf-8', 'replace')
    t = re.sub(r'\x1b\[[0-9;]*m', '', t)
    files = []
    cur = None
    sect = None
    tot = {}
    inprog = False
    for ln in t.split('\n'):
        if ln.startswith('Program Summary:'):
            inprog = True
            cur = None
            continue
        if inprog:
            m = re.match(r'^([A-Za-z\-][A-Za-z \-]*?)\s*:\s?(.*)$', ln)
            if m:
                tot[m.group(1).strip()] = m.group(2)
            continue
        if ln.startswith('File: '):
            cur = {'path': ln[6:], 'Printed': {}, 'Processed': {}, 'About': {}}
            files.append(cur)
            sect = None
            continue
        if cur is None:
            continue
        m = re.match(r'^  ([A-Za-z ]+):\s*$', ln)
        if m:
            sect = m.group(1)
            continue
        m = re.match(r'^      ([A-Za-z ]+?)\s*:\s?(.*)$', ln)
        if m and sect in ('Printed', 'Processed', 'About'):
            cur[sect][m.group(1).strip()] = m.group(2)
    return files, tot

def ival(s):
    m = re.match(r'\s*(\d+)', s or '')
    return int(m.group(1)) if m else None

def check(args, files, sep=SEPTOK, seplines=0, env=None, verbose=False, expect_final_nl=None):
    cmd, rc, out, err = run(args, files, env=env, sep=sep)
    pf, tot = parse(err)
    problems = []
    tb = ival(tot.get('Printed bytes'))
    tl = ival(tot.get('Printed lines'))
    msgs = sum(ival(tot.get(k)) or 0 for k in ('Printed syslines', 'Printed evtx events', 'Printed fixedstruct', 'Printed journal events'))
    if tb is None:
        problems.append('no summary totals; rc=%s err=%r' % (rc, err[-300:]))
        return cmd, out, err, problems
    if tb != len(out):
        problems.append('BYTES total %d != stdout %d' % (tb, len(out)))
    nl = out.count(b'\n')
    if tl != nl:
        problems.append('LINES total %d != stdout newlines %d' % (tl, nl))
    if sep:
        realsep = sep.encode().decode('unicode_escape').encode('latin1') if '\\' in sep else sep.encode()
        nm = out.count(SEPTOK.encode())
        if nm != msgs:
            problems.append('MSGS total %d != separators in stdout %d' % (msgs, nm))
    else:
        realsep = b''
    sb = sum(ival(f['Printed'].get('bytes')) or 0 for f in pf)
    # per-file bytes + separators + supplied newlines == total
    rest = tb - sb - msgs * len(realsep)
    if rest < 0 or rest > len(pf):
        problems.append('PERFILE bytes sum %d + seps %d vs total %d (rest %d, files %d)' % (sb, msgs * len(realsep), tb, rest, len(pf)))
    pm = 0
    for f in pf:
        for k in ('syslines', 'entries', 'Events', 'journal events'):
            if k in f['Printed']:
                pm += ival(f['Printed'][k]) or 0
    if pm != msgs:
        problems.append('PERFILE msgs sum %d != total %d' % (pm, msgs))
    fp = ival(tot.get('Files printed'))
    nfp = sum(1 for f in pf if (ival(f['Printed'].get('bytes')) or 0) > 0)
    if fp != nfp:
        problems.append('Files printed %s vs files with printed bytes %d' % (fp, nfp))
    if verbose or problems:
        pass
    return cmd, out, err, problems

if __name__ == '__main__':
    a = sys.argv[1:]
    i = a.index('--') if '--' in a else 0
    cmd, out, err, pr = check(a[:i], a[i + 1:] if '--' in a else a)
    print(cmd)
    print(pr)
