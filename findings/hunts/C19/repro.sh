#!/bin/sh
S=/tmp/wt/C19/target/release/s4
W=/tmp/seedout/C19/work
python3 $W/gen_nl_wtmp.py
echo "### D1 fixedstruct newline"; $S --color=never -s $W/t2/nl.wtmp 2>$W/d1.err | grep -c '' ; grep -E "^Printed (lines|fixedstruct)" $W/d1.err
echo "### D2 write failure"; $S --color=never -s --separator 'XXXX\n' $W/t1/a.log $W/t1/b.log >/dev/full 2>$W/d2.err; echo rc=$?; grep -E "^Printed|Files printed|Datetime printed|Processed: None" $W/d2.err
echo "### D3 empty tar / empty dir"; : > $W/t4/z.tar; mkdir -p $W/t4/emptydir; $S -s $W/t4/z.tar 2>&1 | wc -c; $S -s $W/t4/emptydir 2>&1 | wc -c; $S --color=never -s $W/t4/z.tar $W/t1/a.log 2>&1 >/dev/null | grep -E "^File|Paths"
echo "### D4 fractional bounds"; $S --color=never -s -a 2024-01-01T00:00:02.500 -b 2024-01-01T00:00:05.123456 $W/t1/a.log 2>&1 | grep -E "^2024|Datetime (filter|printed)"
echo "### D5 unsorted"; $S --color=never -s $W/t3/unsorted.log 2>&1 | grep -E "^2024|Datetime printed"
