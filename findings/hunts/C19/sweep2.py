import os, sys, random, time
sys.path.insert(0,'/tmp/seedout/C19/work')
from h import *
random.seed(int(sys.argv[1]) if len(sys.argv)>1 else 1)
files=[]
for r,d,fs in os.walk('/tmp/wt/C19/logs'):
    for f in fs:
        p=os.path.join(r,f)
        if 0 < os.path.getsize(p) < 300_000: files.append(p)
files.sort()
files += ['/tmp/seedout/C19/work/t1/a.log','/tmp/seedout/C19/work/t1/b.log','/tmp/seedout/C19/work/t2/nl.wtmp']*3
decos=[[],['-n'],['-p'],['-n','-w'],['-p','-w'],['-u'],['-l'],['-z','+05:30'],['-d','%Y%m%dT%H%M%S%.6f %Z '],['--prepend-separator','||'],['--prepend-separator','é%'],['--blocksz','64'],['--blocksz','0x200'],['--journal-output','verbose'],['--journal-output','export']]
wins=[[],[],['-a','2020-01-01'],['-b','2020-01-01'],['-a','2015-06-01','-b','2022-03-01'],['-a','2023-04-02T07:06:50'],['-a','2000-01-01T00:00:00','-b','2000-01-01T00:10:00']]
seps=[SEPTOK, SEPTOK+'\\n', '\\0'+SEPTOK+'\\t', SEPTOK+'\\\\']
t0=time.time(); n=0; bad=0
while time.time()-t0 < float(sys.argv[2]) if len(sys.argv)>2 else 120:
    k=random.choice([1,2,2,3,5,8])
    fs=random.sample(files,k)
    o=[]
    for d in random.sample(decos, random.choice([0,1,2,3])): 
        o+=d
    if o.count('-n') and o.count('-p'): continue
    if sum(o.count(x) for x in ('-u','-l','-z'))>1: continue
    o+=random.choice(wins)
    sep=random.choice(seps)
    try:
        cmd,out,err,pr=check(o,fs,sep=sep)
    except Exception as e:
        pr=['EXC %r'%e]; cmd=o+fs
    n+=1
    pr=[p for p in pr if not p.startswith('no summary totals')] 
    if pr:
        bad+=1
        print(cmd, pr, flush=True)
print('done',n,bad)
