import os, sys, random, subprocess
random.seed(4)
S='/tmp/wt/C19/target/release/s4'
files=[]
for r,d,fs in os.walk('/tmp/wt/C19/logs'):
    for f in fs:
        p=os.path.join(r,f)
        if 0 < os.path.getsize(p) < 200_000: files.append(p)
files.sort()
bad=0
for it in range(150):
    fs=random.sample(files,random.choice([1,2,4]))
    col=random.choice(['never','always','auto'])
    o=random.choice([[],['-n','-u'],['-p','-w','-l'],['-a','2020-01-01'],['--separator','##\\n']])
    a=subprocess.run([S,'--color='+col]+o+fs,stdout=subprocess.PIPE,stderr=subprocess.PIPE)
    b=subprocess.run([S,'-s','--color='+col]+o+fs,stdout=subprocess.PIPE,stderr=subprocess.PIPE)
    if a.stdout!=b.stdout or a.returncode!=b.returncode:
        bad+=1; print('DIFF',col,o,fs,len(a.stdout),len(b.stdout),a.returncode,b.returncode,flush=True)
    # stderr without -s must be a prefix-ish subset of stderr with -s
    if a.stderr and not b.stderr.startswith(a.stderr) and col=='never':
        print('STDERR differs',fs, a.stderr[:200], flush=True)
print('done',bad)
