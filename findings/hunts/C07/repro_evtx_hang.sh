#!/bin/sh
# NoEvents.evtx with byte at offset 4353 (chunk 0 + 0x101, common-string offset table entry 32) set 0x00 -> 0x01
python3 -c "d=bytearray(open('/tmp/hunt/C07/src/logs/programs/evtx/NoEvents.evtx','rb').read()); d[4353]=1; open('/tmp/hunt/C07/work/crash/h.evtx','wb').write(d)"
timeout 20 /tmp/hunt/C07/s4 /tmp/hunt/C07/work/crash/h.evtx; echo "exit=$?"
