#!/usr/bin/env python3
import os, sys, random, subprocess, shutil, time, json
from concurrent.futures import ThreadPoolExecutor
R = random.Random(7)
L = '/tmp/hunt/C07/src/logs/'
W = '/tmp/hunt/C07/work/'
S4 = '/tmp/hunt/C07/s4'
T0 = time.time()
BUDGET = float(sys.argv[1]) if len(sys.argv) > 1 else 240
GOOD = L + 'other/tests/dtf5-6a.log'
GOOD2 = L + 'other/tests/dtf7-20-LEVELS.log'
seeds = {
 'text': ('other/tests/dtf7-20-LEVELS.log', 'log'),
 'gz': ('other/tests/dtf7-20-LEVELS.log.gz', 'log.gz'),
 'bz2': ('other/tests/dtf7-20-LEVELS.log.bz2', 'log.bz2'),
 'xz': ('other/tests/dtf7-20-LEVELS.log.xz', 'log.xz'),
 'lz4': ('other/tests/dtf7-20-LEVELS.log.lz4', 'log.lz4'),
 'tar': ('other/tests/dtf2-2.tar', 'tar'),
 'tar2': ('other/tests/dtf2-2_(contains_dtf2_2_log___dtf2-2_xz).tar', 'tar'),
 'targz': ('other/tests/dtf2-2.tar.gz', 'tar.gz'),
 'tarxz': ('other/tests/dtf2-2.tar.xz', 'tar.xz'),
 'tarbz2': ('other/tests/dtf2-2.tar.bz2', 'tar.bz2'),
 'tarlz4': ('other/tests/dtf2-2.tar.lz4', 'tar.lz4'),
 'gztar': ('other/tests/dtf5-6a.log.gz.tar', 'tar'),
 'wtmp_linux': ('Debian11/aarch64_ARM64/wtmp', 'wtmp'),
 'wtmp_netbsd': ('NetBSD9.3/x86_64/wtmp', 'wtmp'),
 'wtmpx_netbsd': ('NetBSD9.3/x86_64/wtmpx', 'wtmpx'),
 'wtmp_openbsd': ('OpenBSD7.4/x86_64/wtmp', 'wtmp'),
 'utx_freebsd': ('FreeBSD14.0/x86_64/utx.log', 'utx.log'),
 'wtmpgz': ('Debian11/aarch64_ARM64/wtmp.gz', 'wtmp.gz'),
 'wtmpxz': ('Debian11/aarch64_ARM64/wtmp.xz', 'wtmp.xz'),
 'pacct': ('CentOS9/x86_64/pacct', 'pacct'),
 'acct_netbsd': ('NetBSD9.3/x86_32/acct', 'acct'),
 'lastlog_openbsd': ('OpenBSD7.4/x86_64/lastlog', 'lastlog'),
 'lastlog_netbsd': ('NetBSD9.3/x86_64/lastlog', 'lastlog'),
 'lastlogx': ('NetBSD9.3/x86_64/lastlogx', 'lastlogx'),
 'evtx': ('programs/evtx/NoEvents.evtx', 'evtx'),
 'evtx2': ('programs/evtx/Microsoft-Windows-Kernel-PnP%4Configuration.evtx', 'evtx'),
}
exts = sorted(set(e for _, e in seeds.values())) + ['journal', 'log.lz', 'zip', 'log.zst', 'utmp', 'btmp', 'utmpx', 'log.tgz', 'tgz', 'txz']

def offsets(n):
    s = set()
    if n <= 400:
        return list(range(n))
    s.update(range(0, min(n, 80)))
    s.update(range(max(0, n - 40), n))
    for k in (128, 256, 384, 512, 1024, 2048, 4096, 8192, 65536, 69632):
        for d in (-2, -1, 0, 1, 2, 100, 148, 156, 257):
            if 0 <= k + d < n: s.add(k + d)
    for _ in range(40): s.add(R.randrange(n))
    return sorted(s)

def gen():
    jobs = []  # (kind, tag, path)
    for kind, (p, ext) in seeds.items():
        data = open(L + p, 'rb').read()
        n = len(data)
        d = W + 'm/' + kind + '/'
        os.makedirs(d, exist_ok=True)
        big = n > 200000
        offs = offsets(n)
        if big:
            offs = [o for o in offs if o < 80 or o >= n - 8] + [4096 + i for i in (0, 1, 4, 8, 40, 120, 124, 128, 512, 513, 600)] + [69632 + i for i in range(0, 64, 7)] + [R.randrange(n) for _ in range(12)]
        i = 0
        def emit(tag, b):
            nonlocal i
            sub = d + '%05d/' % i
            os.makedirs(sub, exist_ok=True)
            f = sub + 'x.' + ext
            open(f, 'wb').write(b)
            jobs.append((kind, tag, f))
            i += 1
        for o in offs:
            emit('trunc@%d' % o, data[:o])
        co = offs if not big else offs[::2]
        for o in co:
            for v in ((0x00, 0xff, data[o] ^ 0x01, data[o] ^ 0x80) if not big else (0xff, data[o] ^ 0x80)):
                v &= 0xff
                if v == data[o]: continue
                b = bytearray(data); b[o] = v
                emit('byte@%d=%02x' % (o, v), bytes(b))
        for _ in range(40 if not big else 8):
            o = R.randrange(n); k = R.choice((2, 4, 8, 16, 64))
            b = bytearray(data); b[o:o + k] = bytes(R.randrange(256) for _ in range(min(k, n - o)))
            emit('multi@%d+%d' % (o, k), bytes(b))
        for o in offs[:64:4] if not big else offs[:32:8]:
            for v in (b'\xff\xff\xff\xff', b'\x00\x00\x00\x00', b'\xff\xff\xff\x7f', b'\x00\x00\x00\x80'):
                b = bytearray(data); b[o:o + 4] = v; b = b[:n]
                emit('u32@%d=%s' % (o, v.hex()), bytes(b))
        if not big:
            emit('doubled', data + data)
            emit('plusjunk', data + bytes(R.randrange(256) for _ in range(100)))
    # random bytes & mismatching names
    d = W + 'm/random/'
    i = 0
    for ext in exts:
        for ln in (0, 1, 2, 3, 7, 16, 64, 511, 512, 4096, 70000):
            for fill in ('rnd', 'zero', 'ff', 'nl'):
                b = {'rnd': bytes(R.randrange(256) for _ in range(ln)), 'zero': b'\0' * ln, 'ff': b'\xff' * ln, 'nl': b'\n' * ln}[fill]
                sub = d + '%05d/' % i; os.makedirs(sub, exist_ok=True)
                f = sub + 'x.' + ext
                open(f, 'wb').write(b); jobs.append(('random', '%s/%s/%d' % (ext, fill, ln), f)); i += 1
    d = W + 'm/mismatch/'
    i = 0
    for kind, (p, ext0) in seeds.items():
        if kind == 'evtx2': continue
        for ext in exts:
            if ext == ext0: continue
            sub = d + '%05d/' % i; os.makedirs(sub, exist_ok=True)
            f = sub + 'x.' + ext
            shutil.copy(L + p, f); jobs.append(('mismatch', '%s-as-%s' % (kind, ext), f)); i += 1
    return jobs

def run(args):
    try:
        r = subprocess.run(['timeout', '-s', 'KILL', '20', S4, '-c', 'never'] + args, stdout=subprocess.PIPE, stderr=subprocess.PIPE)
        return r.returncode, r.stdout, r.stderr
    except Exception as e:
        return -999, b'', str(e).encode()

def lines(b):
    return b.split(b'\n')

GOODOUT = {}
def subseq(need, have):
    it = iter(have)
    return all(any(x == y for y in it) for x in need)

def job(j):
    kind, tag, f = j
    if time.time() - T0 > BUDGET: return None
    h = hash(f)
    res = []
    # alone
    rc, out, err = run([f])
    res.append(('alone', rc, err))
    # with one good
    extra = []
    if h % 3 == 0: extra = ['--blocksz', '64']
    elif h % 3 == 1: extra = ['--blocksz', '0x200']
    goods = [GOOD] if h % 2 else [GOOD, GOOD2]
    order = goods + [f] if h % 5 < 3 else [f] + goods
    rc, out, err = run(extra + order)
    tagm = 'with%d' % len(goods) + ' '.join(extra)
    bad = None
    if kind != 'text' and kind != 'mismatch':
        pass
    # good lines must appear in order as whole lines... other file's lines interleave; check per good file
    for g in goods:
        need = [l for l in lines(GOODOUT[g]) if l]
        if not subseq(need, lines(out)):
            bad = 'goodmissing:' + os.path.basename(g)
    res.append((tagm, rc, err, bad))
    fails = []
    for r in res:
        if r[1] not in (0, 1) or (len(r) > 3 and r[3]):
            fails.append((r[0], r[1], r[3] if len(r) > 3 else None, r[2][-600:].decode('latin1')))
    return (kind, tag, f, fails)

def main():
    for g in (GOOD, GOOD2):
        rc, out, err = run([g]); assert rc == 0, (rc, err); GOODOUT[g] = out
    jobs = gen()
    R.shuffle(jobs)
    print('jobs', len(jobs), 'gen time', time.time() - T0, flush=True)
    cnt = {}; failc = {}
    allf = []
    with ThreadPoolExecutor(16) as ex:
        for r in ex.map(job, jobs):
            if r is None: continue
            kind, tag, f, fails = r
            cnt[kind] = cnt.get(kind, 0) + 1
            if fails:
                failc[kind] = failc.get(kind, 0) + 1
                allf.append(r)
                keep = W + 'crash/'; os.makedirs(keep, exist_ok=True)
    json.dump(allf, open(W + 'fails.json', 'w'), indent=1)
    print('elapsed', time.time() - T0)
    print('counts', json.dumps(cnt, sort_keys=True))
    print('fails', json.dumps(failc, sort_keys=True))
    seen = {}
    for kind, tag, f, fails in allf:
        for m, rc, bad, err in fails:
            key = (kind, rc, bad, err.strip().split('\n')[-1][:160] if rc not in (0, 1) else '')
            seen.setdefault(key, []).append((tag, m, f))
    for k, v in sorted(seen.items(), key=lambda kv: str(kv[0])):
        print(k, len(v), v[:3])

main()
