#!/bin/bash
# F46: silent truncation of the extracted temp file when the final BufWriter flush fails
S4="${1:-/repo/target/release/s4}"
D=$(mktemp -d); cd "$D"
head -c 69632 "/repo/logs/programs/evtx/Microsoft-Windows-Kernel-PnP%4Configuration.evtx" > one.evtx && gzip one.evtx
( trap '' XFSZ; ulimit -f 64; "$S4" --color=never one.evtx.gz 2>err.txt | grep -c "<EventRecordID>"; echo "rc=${PIPESTATUS[0]}"; head -c 300 err.txt )
echo "control:"; "$S4" --color=never one.evtx.gz 2>/dev/null | grep -c "<EventRecordID>"
cd /; rm -rf "$D"
