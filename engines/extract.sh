#!/bin/bash
# usage: extract.sh <source-root> <out-dir> [release|dev]
# Runs the s4facts rustc_private driver as RUSTC_WORKSPACE_WRAPPER over the cargo project at
# <source-root> in a fresh target directory (removed afterwards) and leaves <crate>.json in <out-dir>.
set -u
SRC="$1"; OUT="$2"; PROFILE="${3:-release}"
HERE="$(cd "$(dirname "$0")" && pwd)"
DRV="$HERE/s4facts/target/debug/s4facts"
if [ ! -x "$DRV" ]; then
  (cd "$HERE/s4facts" && CARGO_NET_OFFLINE=true cargo build --offline >&2) || { echo "extract: cannot build s4facts" >&2; exit 2; }
fi
mkdir -p "$OUT"
# The target directory is kept between runs so that the dependencies (compiled by plain rustc, the
# wrapper only sees workspace members) are not rebuilt every time.  cargo's freshness cache would also
# skip the *members* - and with them the fact extraction - so their fingerprints are deleted first;
# callers assert that the fact files were written.  VERIF_COLD=1 uses a fresh directory instead.
if [ "${VERIF_COLD:-0}" = "1" ]; then
  TGT="$(mktemp -d "${TMPDIR:-/tmp}/s4facts-target.XXXXXX")"
  trap 'rm -rf "$TGT"' EXIT
else
  TGT="$HERE/../out/target-warm"
  mkdir -p "$TGT"
  rm -rf "$TGT"/release/.fingerprint/super_speedy_syslog_searcher-* "$TGT"/debug/.fingerprint/super_speedy_syslog_searcher-* 2>/dev/null
fi
FLAG=""
[ "$PROFILE" = "release" ] && FLAG="--release"
cd "$SRC" || exit 2
SYSROOT="$(rustc +nightly --print sysroot)"
LD_LIBRARY_PATH="$SYSROOT/lib" \
RUSTFLAGS="-Zmir-opt-level=0 -Awarnings" \
RUSTC_WORKSPACE_WRAPPER="$DRV" \
S4FACTS_OUT="$OUT" \
CARGO_TARGET_DIR="$TGT" \
CARGO_NET_OFFLINE=true \
cargo +nightly check --offline $FLAG >"$OUT/cargo.log" 2>&1
RC=$?
if [ $RC -ne 0 ]; then
  tail -40 "$OUT/cargo.log" >&2
  echo "extract: cargo check failed rc=$RC" >&2
  exit 3
fi
exit 0
