#!/bin/bash
# usage: extract.sh <source-root> <out-dir> [release|dev]
# Runs the s4facts rustc_private driver as RUSTC_WORKSPACE_WRAPPER over the cargo project at
# <source-root> in a fresh target directory (removed afterwards) and leaves <crate>.json in <out-dir>.
set -u
SRC="$1"; OUT="$2"; PROFILE="${3:-release}"
HERE="$(cd "$(dirname "$0")" && pwd)"
DRV="$HERE/s4facts/target/debug/s4facts"
if [ ! -x "$DRV" ]; then
  (cd "$HERE/s4facts" && CARGO_NET_OFFLINE=true cargo build --offline >&2) || { echo "extract: cannot build s4facts" >&2; exit 2; }
fi
mkdir -p "$OUT"
TGT="$(mktemp -d "${TMPDIR:-/tmp}/s4facts-target.XXXXXX")"
trap 'rm -rf "$TGT"' EXIT
FLAG=""
[ "$PROFILE" = "release" ] && FLAG="--release"
cd "$SRC" || exit 2
SYSROOT="$(rustc +nightly --print sysroot)"
LD_LIBRARY_PATH="$SYSROOT/lib" \
RUSTFLAGS="-Zmir-opt-level=0 -Awarnings" \
RUSTC_WORKSPACE_WRAPPER="$DRV" \
S4FACTS_OUT="$OUT" \
CARGO_TARGET_DIR="$TGT" \
CARGO_NET_OFFLINE=true \
cargo +nightly check --offline $FLAG >"$OUT/cargo.log" 2>&1
RC=$?
if [ $RC -ne 0 ]; then
  tail -40 "$OUT/cargo.log" >&2
  echo "extract: cargo check failed rc=$RC" >&2
  exit 3
fi
exit 0
