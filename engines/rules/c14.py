"""C14 — datetime-filter arguments resolve to the documented instant.

Decides:
  R14.1 every regular expression the CLI builds from a constant pattern and applies to a whole
        user argument is anchored at both ends (regular-language analysis of the const-evaluated
        pattern).
  R14.2 how a CLI_FILTER_PATTERNS row is applied in process_dt: rows without a time get the
        midnight completion appended to value and pattern together (the two constants agree), the
        parse call receives the row's own has_tz flag and the --tz-offset parameter, named zones are
        substituted from MAP_TZZ_TO_TZz with %Z -> %z exactly once.
  R14.3 evaluation order and rejections in cli_process_args: the '@'-relative bound is resolved
        second with the other bound as reference; both relative -> exit; after > before -> exit
        (strict); unresolved -> exit.
  R14.4 ambiguous zone names are rejected (empty map value -> Err in cli_process_tz_offset).
Does not decide: chrono's parsing of each absolute form, local-zone lookup, the instant of 'now'.
"""
import decide
import flow
import rx
import re
from mir import CheckerError, op_local


def const_str_args(b, c):
    res = []
    for a in c.args:
        for o in b.origins(a, through_calls=("::deref", "::as_str", "::as_ref")):
            if o[0] == "const":
                res.append(o[1])
    return res


def run(prog, rep, tier):
    facts = prog.facts
    R141 = rep.rule("R14.1", "CLI regexes built from constant patterns are anchored at both ends")
    R142 = rep.rule("R14.2", "application of a filter-pattern row in process_dt")
    R143 = rep.rule("R14.3", "evaluation order and rejections in cli_process_args")
    R144 = rep.rule("R14.4", "ambiguous zone names are rejected")

    # ------------------------------------------------------------ R14.1
    pats = []
    for b in prog.bodies():
        if not b.path.startswith("s4::"):
            continue
        for c in b.live_calls():
            if c.d in ("regex::Regex::new", "regex::bytes::Regex::new", "regex::RegexBuilder::new", "regex::bytes::RegexBuilder::new"):
                vals = []
                for o in b.origins(c.args[0], through_calls=("::deref", "::as_str", "::as_ref")):
                    if o[0] == "const":
                        import ast
                        try:
                            vals.append(ast.literal_eval(o[1]))
                        except Exception:
                            vals.append(None)
                    else:
                        vals.append(None)
                pats.append((b.path, c, vals))
    if not pats:
        raise CheckerError("no Regex::new call found in the s4 binary (relative-offset grammar anchor missing)")
    req = []
    for i, (path, c, vals) in enumerate(pats):
        if len(vals) != 1 or not isinstance(vals[0], str):
            raise CheckerError("%s: Regex::new with a non-constant pattern" % path)
        req.append({"id": i, "regex": vals[0], "props": []})
    res = rx.analyze(req)
    for r in res:
        path, c, vals = pats[r["id"]]
        inst = "%s|regex" % path
        rep.examined(R141, inst, sample={"site": path, "pattern": vals[0][:120], "anchored_start": r.get("anchored_start"), "anchored_end": r.get("anchored_end"),
                                         "groups": [g["name"] for g in r.get("groups", [])]})
        if not r.get("ok"):
            raise CheckerError("rxtab could not analyse the pattern at %s: %s" % (path, r.get("error")))
        if not (r["anchored_start"] and r["anchored_end"]):
            rep.violation(R141, inst, "%s: the pattern %r is not anchored at %s; it is applied with a search (captures), so an argument merely containing a match (e.g. 'xx-1dyy') is accepted" % (
                path, vals[0][:80], " and ".join(x for x, ok in (("the start", r["anchored_start"]), ("the end", r["anchored_end"])) if not ok)))

    # ------------------------------------------------------------ R14.2
    b = prog.body("s4::process_dt")
    rows = facts.const("s4::CLI_FILTER_PATTERNS")
    if not rows or len(rows[0]) != 5:
        raise CheckerError("CLI_FILTER_PATTERNS const table not found or not 5-tuples")
    pushes = [c for c in b.live_calls() if c.d.endswith("String::push_str")]
    appended = {}
    for c in pushes:
        cs = const_str_args(b, c)
        target = set()
        for o in b.origins(c.args[0]):
            if o[0] == "local":
                target.add(b.local_name(o[1]) or o[1])
            elif o[0] == "call":
                d = b.term(o[1])[3]
                target.add(b.local_name(d[0]) or d[0])
        for s in cs:
            import ast
            try:
                appended[ast.literal_eval(s)] = (c, target)
            except Exception:
                pass
    tv = facts.const("s4::CLI_DT_FILTER_APPEND_TIME_VALUE")
    tp = facts.const("s4::CLI_DT_FILTER_APPEND_TIME_PATTERN")
    rep.examined(R142, b.path + "|midnight-constants", sample={"value": tv, "pattern": tp})
    if not isinstance(tv, str) or not isinstance(tp, str):
        # the bare-date rows are not completed textually: accept a direct construction, provided the
        # date parsed from the user's text (a wall-clock value) becomes midnight *in the --tz-offset zone*
        # (TimeZone::from_local_datetime); reading it as a UTC value (from_utc_datetime, and_utc) makes
        # `-a 20200102 -t +09:00` start nine hours late
        direct = []
        for c in b.live_calls():
            nm_ = c.d.split("::")[-1]
            if nm_ not in ("from_utc_datetime", "from_local_datetime", "and_utc", "and_local_timezone"):
                continue
            naive_arg = c.args[-1] if nm_ in ("from_utc_datetime", "from_local_datetime") else c.args[0]
            srcs = set()
            for o in b.origins(naive_arg, through_calls=("and_time", "and_hms", "::deref", "unwrap", "::from")):
                if o[0] == "call":
                    srcs.add(o[2])
            if any("NaiveDate" in x_ and "parse_from_str" in x_ for x_ in srcs):
                direct.append((c, nm_))
        if not direct:
            raise CheckerError("midnight completion constants not found")
        for (c, nm_) in direct:
            rep.examined(R142, b.path + "|midnight-direct|" + nm_, sample={"line": c.line, "conversion": nm_})
            if nm_ in ("from_utc_datetime", "and_utc"):
                rep.violation(R142, b.path + "|midnight-direct|as-utc", "process_dt (line %d): a bare date is parsed to a NaiveDate and turned into a DateTime with %s(), i.e. read as 00:00:00 UTC and only displayed in the --tz-offset zone; "
                              "the documented meaning is 00:00:00 in that zone (`-t +09:00 -a 20200102` must resolve to 2020-01-01T15:00Z)" % (c.line, nm_))
    else:
        expect_val = tp.replace("%H", "00").replace("%M", "00").replace("%S", "00")
        if expect_val != tv or "%" in expect_val:
            rep.violation(R142, b.path + "|midnight-constants", "process_dt: the time completion value %r does not denote 00:00:00 under the completion pattern %r" % (tv, tp))
        if tv not in appended or tp not in appended:
            rep.violation(R142, b.path + "|midnight-paired", "process_dt: the midnight completion is not appended to both the value and the pattern")
        else:
            cv, tgt_v = appended[tv]
            cp, tgt_p = appended[tp]
            # paired: same guard (has_time false), each reaches the other or same block chain, and both before the parse call
            paired = (b.dominates(cv.bb, cp.bb) or b.dominates(cp.bb, cv.bb))
            first, second = (cv, cp) if b.dominates(cv.bb, cp.bb) else (cp, cv)
            no_skip = b.must_pass(first.bb, second.bb, set()) and second.bb in b.reachable_after(first.bb) and \
                not any(x not in b.reachable(second.bb) and x != second.bb and b.term(x)[0] == "ret" for x in [])
            # guard: find switch on the row's has_time (tuple field 4)
            guard_ok = False
            for bb in sorted(b.live):
                t = b.term(bb)
                if t[0] == "switch" and len(t) > 4 and t[4] == "bool":
                    o = b.origins(t[1], through_calls=("ops::Not>::not", "::not", "::deref"))
                    if any(x[0] == "call" and x[2].endswith("::next") and "4" in x[3] for x in o):
                        arms = {int(v): tb for v, tb in t[2]}
                        # `!has_time` : Not() applied -> true arm means has_time false. Accept either polarity but both pushes must sit under the same arm
                        for tgt in set(list(arms.values()) + [t[3]]):
                            if tgt != bb and b.dominates(tgt, cv.bb) and b.dominates(tgt, cp.bb):
                                guard_ok = True
            rep.examined(R142, b.path + "|midnight-paired", sample={"value_target": sorted(map(str, tgt_v)), "pattern_target": sorted(map(str, tgt_p)), "paired": paired, "guarded_by_has_time": guard_ok})
            if not paired or not guard_ok:
                rep.violation(R142, b.path + "|midnight-paired", "process_dt: value and pattern are not completed together under the row's has_time flag")
            if tgt_v == tgt_p:
                rep.violation(R142, b.path + "|midnight-targets", "process_dt: time value and time pattern are appended to the same string")
    # parse call arguments
    pc = [c for c in b.live_calls() if c.d.endswith("datetime::datetime_parse_from_str")]
    if len(pc) != 1:
        raise CheckerError("process_dt: %d datetime_parse_from_str calls" % len(pc))
    pc = pc[0]
    o3 = b.origins(pc.args[2])
    o4 = b.origins(pc.args[3])
    has_tz_ok = all(x[0] == "call" and x[2].endswith("::next") and "2" in x[3] for x in o3) and bool(o3)
    # the zone argument: the --tz-offset parameter, except for Unix-epoch rows (pattern contains
    # %s), which denote an instant and are parsed with a zero offset
    tz_ok = bool(o4)
    epoch_choice = None
    for x in o4:
        if x[0] == "arg" and x[1] == 2:
            continue
        if x[0] == "call" and x[2].endswith("LocalKey::<T>::with"):
            epoch_choice = x
            continue
        tz_ok = False
    if epoch_choice is not None and tz_ok:
        # the local holding the choice has two definitions; the zero-offset one must sit under
        # `pattern.contains("%s")` and the parameter one under its negation
        conts = [c for c in b.live_calls() if c.d.endswith("str::<impl str>::contains") or (c.d.endswith("::contains") and "str" in c.d)]
        guard = None
        for c in conts:
            if "'%s'" in const_str_args(b, c) and c.target is not None:
                t = b.term(c.target)
                if t[0] == "switch" and op_local(t[1]) == c.dest[0]:
                    arms = {int(v): tb for v, tb in t[2]}
                    guard = (arms.get(0), t[3])
        l4 = op_local(pc.args[3])
        ok_guard = False
        if guard is not None:
            # find the variable with two defs feeding arg 4
            for l, ds in b.defs.items():
                if len(ds) == 2 and all(d[1] != "call" for d in ds):
                    kinds = {}
                    for d in ds:
                        src = d[2][2] if d[2][0] in ("ref", "rawptr") else (d[2][1][1] if d[2][0] == "use" and d[2][1][0] != "k" else None)
                        if src is None:
                            continue
                        oo = b.origins(["cp", src])
                        if any(y[0] == "arg" and y[1] == 2 for y in oo):
                            kinds["param"] = d[0]
                        if any(y[0] == "call" and y[2].endswith("LocalKey::<T>::with") for y in oo):
                            kinds["zero"] = d[0]
                    if set(kinds) == {"param", "zero"}:
                        if b.dominates(guard[1], kinds["zero"]) and b.dominates(guard[0], kinds["param"]):
                            ok_guard = True
        rep.examined(R142, b.path + "|epoch-zone", sample={"epoch_rows_use_zero_offset": True, "guarded_by_pattern_contains_%s": ok_guard})
        if not ok_guard:
            tz_ok = False
    else:
        rep.examined(R142, b.path + "|epoch-zone", sample={"epoch_rows_use_zero_offset": False})
        if tz_ok:
            rows_epoch = [r for r in rows if "%s" in r[0] and not r[2]]
            if rows_epoch:
                rep.violation(R142, b.path + "|epoch-zone", "process_dt: Unix-epoch rows %s carry no zone and are parsed in the --tz-offset zone; '+946684800' (documented as 2000-01-01 00:00 GMT) resolves to an instant shifted by the offset" % [r[0] for r in rows_epoch])
    rep.examined(R142, b.path + "|parse-args", sample={"has_tz_from_row_field_2": has_tz_ok, "tz_offset_from_parameter": tz_ok})
    if not has_tz_ok:
        rep.violation(R142, b.path + "|parse-args|has_tz", "process_dt: datetime_parse_from_str does not receive the row's own has_tz flag")
    if not tz_ok:
        rep.violation(R142, b.path + "|parse-args|tz", "process_dt: zone-less values are not parsed in the --tz-offset zone (argument does not come from the tz_offset parameter)")
    # value/pattern arguments are the locally completed strings (not the raw inputs)
    o1 = b.origins(pc.args[0], through_calls=("::as_str", "::deref"))
    o2 = b.origins(pc.args[1], through_calls=("::as_str", "::deref"))
    raw1 = any(x[0] == "arg" for x in o1)
    raw2 = any(x[0] == "call" and x[2].endswith("::next") for x in o2)
    if raw1 or raw2:
        rep.violation(R142, b.path + "|parse-args|raw", "process_dt: the parser is given the raw value/pattern instead of the completed ones")
    # named zone substitution
    repl = [c for c in b.live_calls() if c.d.endswith("::replacen")]
    okz = False
    for c in repl:
        cs = const_str_args(b, c)
        n = [a for a in c.args if a[0] == "k" and isinstance(a[2], int)]
        if "'%Z'" in cs and "'%z'" in cs and n and n[0][2] == 1:
            okz = True
    gets = [c for c in b.live_calls() if "phf::" in c.d and c.d.split("::")[-1] in ("get", "get_entry")]
    rep.examined(R142, b.path + "|named-zone", sample={"replacen_%Z_%z_once": okz, "map_lookups": len(gets)})
    if not okz:
        rep.violation(R142, b.path + "|named-zone", "process_dt: %Z is not replaced by %z exactly once for named-zone rows")
    if not gets:
        rep.violation(R142, b.path + "|named-zone-map", "process_dt: the numeric zone is not taken from MAP_TZZ_TO_TZz")

    # ------------------------------------------------------------ R14.6
    # Path-sensitive: a value that lost its trailing zone name (String::pop & friends, or a
    # trimmed slice of it) may reach the parser only together with a pattern in which %Z was
    # rewritten to %z on the same path.  Otherwise the name-less value is offered to rows that
    # carry no zone at all, and an ambiguous name (empty map value) is accepted as zone-less.
    R146 = rep.rule("R14.6", "a value stripped of its zone name is parsed only with the %Z->%z rewritten pattern (path-sensitive)")
    SHORTEN = ("String::pop", "String::truncate", "String::remove", "String::drain", "String::split_off", "String::clear", "String::retain", "String::replace_range")
    SLICE = ("::trim_end_matches", "::trim_end", "::trim_matches", "::strip_suffix", "::rsplit_once", "::split_at", "::rsplitn", "::trim_right_matches", "::split_terminator")
    COPY = ("Clone>::clone", "::clone", "From<&str>>::from", "From<std::string::String>>::from", "::to_string", "::to_owned", "String::from", "Into<", "::into")

    def blk(bb, st):
        stripped, zpat = set(st[0]), set(st[1])
        for s_ in b.stmts(bb):
            if s_[0] == "=" and len(s_[1]) == 1:
                d = s_[1][0]
                rv = s_[2]
                src = None
                if rv[0] == "use" and rv[1][0] != "k" and len(rv[1][1]) == 1:
                    src = rv[1][1][0]
                if src is not None:
                    (stripped.add if src in stripped else stripped.discard)(d)
                    (zpat.add if src in zpat else zpat.discard)(d)
                elif rv[0] not in ("ref", "rawptr"):
                    stripped.discard(d)
                    zpat.discard(d)
        t = b.term(bb)
        if t[0] == "call":
            c = [x for x in b.calls if x.bb == bb][0]
            name = c.d or c.o
            if any(name.endswith(x) for x in SHORTEN) and c.args:
                tg = flow.named_target(b, c.args[0])
                if tg is not None:
                    stripped.add(tg)
            if len(c.dest) == 1:
                d = c.dest[0]
                if any(x in name for x in SLICE) and c.args:
                    stripped.add(d)
                    zpat.discard(d)
                elif (name.endswith("::replacen") or name.endswith("::replace")) and "'%Z'" in const_str_args(b, c) and "'%z'" in const_str_args(b, c):
                    zpat.add(d)
                    stripped.discard(d)
                elif any(x in name for x in COPY) and c.args and c.args[0][0] != "k":
                    src = flow.named_target(b, c.args[0])
                    (stripped.add if src in stripped else stripped.discard)(d)
                    (zpat.add if src in zpat else zpat.discard)(d)
                elif not any(x in name for x in flow.REF_THROUGH):
                    stripped.discard(d)
                    zpat.discard(d)
        return (frozenset(stripped), frozenset(zpat))
    wrap, blk2, edge2 = flow.with_flags(b, blk)
    sts_ = flow.disjunctive(b, wrap((frozenset(), frozenset())), blk2, edge2)
    sts = {k: frozenset(x[0] for x in v) for k, v in sts_.items()}
    vloc = flow.named_target(b, pc.args[0])
    ploc = flow.named_target(b, pc.args[1])
    at_parse = sts.get(pc.bb, frozenset())
    kinds = sorted({(vloc in s_[0], ploc in s_[1]) for s_ in at_parse})
    rep.examined(R146, b.path + "|stripped-value", nontrivial=any(k[0] for k in kinds),
                 sample={"value_variable": b.local_name(vloc) or vloc, "pattern_variable": b.local_name(ploc) or ploc,
                         "(value_stripped, pattern_rewritten) combinations reaching the parser": kinds, "abstract_states": len(at_parse)})
    if not any(k[0] for k in kinds):
        raise CheckerError("R14.6: no path on which process_dt strips the zone name from the value reaches the parser (idiom not recognised)")
    if (True, False) in kinds:
        zless = [r[0] for r in rows if not r[2] and not r[3]]
        rep.violation(R146, b.path + "|stripped-value", "process_dt: on some path the value with its trailing zone name removed reaches datetime_parse_from_str with a pattern that was not rewritten from %%Z to %%z; "
                      "zone-less rows (%d of them, e.g. %r) then accept e.g. '20000102T030406SST' although SST is ambiguous and must be rejected" % (len(zless), zless[0] if zless else None))

    # ------------------------------------------------------------ R14.3
    cb = prog.body("s4::cli_process_args")
    pde = [c for c in cb.live_calls() if c.d == "s4::process_dt_exit"]
    if len(pde) != 4:
        raise CheckerError("cli_process_args: %d process_dt_exit calls (expected 2 per evaluation order)" % len(pde))

    def which(c):
        # first argument: &args.dt_after / &args.dt_before
        for o in cb.origins(c.args[0]):
            for p in o[-1]:
                if p in ("dt_after", "dt_before"):
                    return p
        return None

    def other_src(c):
        o = cb.origins(c.args[2])
        res = set()
        for x in o:
            if x[0] == "call" and x[2] == "s4::process_dt_exit":
                cc = [z for z in cb.calls if z.bb == x[1]][0]
                res.add("result-of:" + str(which(cc)))
            elif x[0] == "local":
                # a named local assigned from a process_dt_exit call
                for d in cb.defs.get(x[1], []):
                    if d[1] == "call" and d[2].d == "s4::process_dt_exit":
                        res.add("result-of:" + str(which(d[2])))
            elif x[0] in ("agg", "const"):
                res.add("None")
            else:
                res.add(x[0])
        return res
    pairs = []
    for c in pde:
        pairs.append((c, which(c), other_src(c)))
    # group into the two orders by dominance
    orders = []
    for (c1, w1, s1) in pairs:
        for (c2, w2, s2) in pairs:
            if c1 is not c2 and cb.dominates(c1.bb, c2.bb) and w1 != w2:
                orders.append(((w1, s1), (w2, s2)))
    rep.examined(R143, cb.path + "|orders", sample={"orders": [[o[0][0], sorted(o[0][1]), o[1][0], sorted(o[1][1])] for o in orders]})
    want = [(("dt_before", {"None"}), ("dt_after", {"result-of:dt_before"})), (("dt_after", {"None"}), ("dt_before", {"result-of:dt_after"}))]
    for w in want:
        if not any(o[0][0] == w[0][0] and o[1][0] == w[1][0] and w[1][1] <= o[1][1] and "None" in "".join(o[0][1]) for o in orders):
            rep.violation(R143, cb.path + "|order|" + w[1][0], "cli_process_args: when %s is evaluated second it does not receive the resolved %s as its reference" % (w[1][0], w[0][0]))
    # rejections: calls to process::exit dominated by the respective conditions
    exits = [c for c in cb.live_calls() if c.d == "std::process::exit"]
    cmps = []
    for bb in sorted(cb.live):
        t = cb.term(bb)
        if t[0] == "switch":
            at = decide.bool_atom(cb, t[1])
            if at and at[0] == "cmp" and "DateTime" in str(cb.locals[op_local(t[1])]["ty"] if op_local(t[1]) is not None else "") or (at and at[0] == "cmp"):
                # operands must be the two resolved bounds
                tys = []
                for d in cb.defs.get(op_local(t[1]) or -1, []):
                    if d[1] == "call":
                        tys.append(d[2].callee.get("self") or "")
                if any("chrono::DateTime" in x for x in tys):
                    cmps.append((bb, at, t))
    rep.examined(R143, cb.path + "|after-gt-before", sample={"comparisons": [c[1][1] for c in cmps], "exit_calls": len(exits)})
    if len(cmps) != 1:
        rep.violation(R143, cb.path + "|after-gt-before", "cli_process_args: expected one comparison of the resolved bounds, found %d" % len(cmps))
    else:
        bb, at, t = cmps[0]
        arms = {int(v): tb for v, tb in t[2]}
        true_t = t[3] if 0 in arms else arms.get(1)
        rej = [e for e in exits if cb.dominates(true_t, e.bb)]
        # operand order: after OP before
        def side(root):
            s = str(root)
            return "after" if "after" in s else ("before" if "before" in s else "?")
        names = []
        for r_ in (at[2], at[3]):
            nm = "?"
            if r_[0] == "local":
                # payload of Option local
                pass
            names.append(r_)
        ok_strict = (at[1] == "gt")
        if at[1] == "lt":
            ok_strict = True  # before < after, operands swapped: checked below via roles
        if not rej:
            rep.violation(R143, cb.path + "|after-gt-before|exit", "cli_process_args: after > before does not lead to exit")
        if at[1] in ("ge", "le"):
            rep.violation(R143, cb.path + "|after-gt-before|strict", "cli_process_args: bounds are rejected with %s; equal bounds (A = B) must be accepted" % at[1])
        # the ordering check must be on every path from every evaluation order to the return:
        # find the Option-shape switch that leads to the comparison and require it to be passed
        shape_sw = None
        cur = bb
        seen = set()
        while cur is not None and cur not in seen:
            seen.add(cur)
            ps = [p for p in cb.pred[cur] if p in cb.live]
            if len(ps) != 1:
                break
            cur = ps[0]
            t0 = cb.term(cur)
            if t0[0] == "switch":
                sd = decide.switch_decisions(cb, cur)
                if sd and any(d[0] in ("variant", "variant_not") for _, d in sd):
                    shape_sw = cur
        first_shape = shape_sw
        # walk up to the outermost shape switch of the `match (after, before)`
        gate = first_shape if first_shape is not None else bb
        for c2 in pde:
            rets = [r for r in cb.exits()]
            skipped = [r for r in rets if r in cb.reachable(c2.target, {gate, bb}) ] if c2.target is not None else []
            # only the *second* call of each order matters (the first is followed by the second)
            later = [c3 for c3 in pde if c3 is not c2 and c3.bb in cb.reachable_after(c2.bb)]
            if later:
                continue
            rep.examined(R143, "%s|order-check-reached|%s" % (cb.path, which(c2)), sample={"second_resolved": which(c2), "return_reachable_without_ordering_check": bool(skipped)})
            if skipped:
                rep.violation(R143, cb.path + "|after-gt-before|all-orders", "cli_process_args: when %s is resolved second, the function can return without comparing the two resolved bounds; an inverted window is accepted" % which(c2))
    # both-relative rejection and unresolved rejection exist
    pdx = prog.body("s4::process_dt_exit")
    pex = [c for c in pdx.live_calls() if c.d == "std::process::exit"]
    pdc = [c for c in pdx.live_calls() if c.d == "s4::process_dt"]
    rep.examined(R143, pdx.path + "|unresolved-exit", sample={"exit_calls": len(pex), "process_dt_calls": len(pdc)})
    if len(pdc) != 1 or not pex:
        rep.violation(R143, pdx.path + "|unresolved-exit", "process_dt_exit: an unparseable value does not lead to exit")
    else:
        sw, arms_, oth = None, None, None
        import c03
        swbb, arms_, oth = c03.result_arms(pdx, pdc[0])
        none_t = arms_.get(0)
        if none_t is None or not any(pdx.dominates(none_t, e.bb) for e in pex):
            rep.violation(R143, pdx.path + "|unresolved-exit", "process_dt_exit: the None (unparseable) result does not lead to exit")
    wd = [c for c in cb.live_calls() if c.d == "s4::string_wdhms_to_duration"]
    rep.examined(R143, cb.path + "|both-relative", sample={"peek_calls": len(wd)})
    if len(wd) != 2:
        rep.violation(R143, cb.path + "|both-relative", "cli_process_args: the two bounds are not both inspected for '@'-relative form")
    # all exits dominate... processing_loop is only reached from main after cli_process_args returns: exits are process::exit (diverging)

    # ------------------------------------------------------------ R14.5 now-relative base
    R145 = rep.rule("R14.5", "now-relative offsets start from the UTC instant converted to the --tz-offset zone")
    sb = prog.body("s4::string_to_rel_offset_datetime")
    tzcalls = [c for c in sb.live_calls() if (c.callee.get("trait") or "").endswith("chrono::TimeZone")]
    adds = [c for c in sb.live_calls() if c.d.endswith("::checked_add_signed")]
    wrong = []
    for c in tzcalls:
        name = c.o.split("::")[-1]
        selfty = c.callee.get("self") or ""
        if name in ("with_ymd_and_hms", "from_local_datetime", "ymd", "ymd_opt", "timestamp_opt") and selfty != "chrono::Utc" and name != "timestamp_opt":
            wrong.append((name, selfty, c.line))
    conv = [c for c in tzcalls if c.o.endswith("::from_utc_datetime")]
    rep.examined(R145, sb.path + "|now-base", sample={"timezone_calls": [(c.o.split("::")[-1], c.callee.get("self")) for c in tzcalls], "instant_preserving_conversion": len(conv)})
    if wrong:
        rep.violation(R145, sb.path + "|now-base", "string_to_rel_offset_datetime: wall-clock fields are interpreted in %s by %s (line %d); 'now' read from the UTC clock must be converted with from_utc_datetime, otherwise every now-relative bound shifts by the --tz-offset" % (wrong[0][1], wrong[0][0], wrong[0][2]))
    if not conv:
        rep.violation(R145, sb.path + "|now-base|conv", "string_to_rel_offset_datetime: the UTC 'now' is not converted to the --tz-offset zone with from_utc_datetime")
    elif adds:
        # one of the additions starts from that conversion
        ok = any(any(x[0] == "call" and x[2].endswith("::from_utc_datetime") for x in sb.origins(a.args[0], through_calls=("::deref",))) for a in adds)
        if not ok:
            rep.violation(R145, sb.path + "|now-base|add", "string_to_rel_offset_datetime: the duration is not added to the zone-converted 'now'")

    # ------------------------------------------------------------ R14.4
    tb = prog.body("s4::cli_process_tz_offset")
    ie = [c for c in tb.live_calls() if c.d.endswith("str::is_empty") or c.d.endswith("::is_empty")]
    gets = [c for c in tb.live_calls() if "phf::" in c.d and c.d.split("::")[-1] in ("get", "get_entry")]
    ok = False
    for c in ie:
        src = tb.origins(c.args[0], through_calls=("::deref",))
        from_map = any(x[0] == "call" and "phf::" in x[2] for x in src)
        t = tb.term(c.target)
        if from_map and t[0] == "switch" and op_local(t[1]) == c.dest[0]:
            arms = {int(v): tbk for v, tbk in t[2]}
            true_t = t[3] if 0 in arms else arms.get(1)
            # true arm returns Err
            for p in decide.enumerate_paths(tb, true_t, lambda bb: "ret" if tb.term(bb)[0] == "ret" else None, opaque_ok=lambda bb: True):
                pass
            errs = set()
            for p in decide.enumerate_paths(tb, true_t, lambda bb: "ret" if tb.term(bb)[0] == "ret" else None, opaque_ok=lambda bb: True):
                errs.add(decide.returned_variant(tb, decide.Path((c.target,) + p.blocks, p.decisions, p.end)))
            if errs == {"Err"}:
                ok = True
    rep.examined(R144, tb.path + "|ambiguous", sample={"map_lookups": len(gets), "empty_value_returns_Err": ok})
    if not gets or not ok:
        rep.violation(R144, tb.path + "|ambiguous", "cli_process_tz_offset: an ambiguous zone name (empty map value) is not rejected with Err")
    # table fact: ambiguous names map to the empty string; every other value is a numeric offset
    m = facts.const("s4lib::data::datetime::MAP_TZZ_TO_TZz")
    ents = m["fields"]["entries"] if isinstance(m, dict) and "fields" in m else None
    if not ents:
        raise CheckerError("MAP_TZZ_TO_TZz entries not extracted")
    import re
    bad = [e for e in ents if e[1] != "" and not re.match(r"^[+-]\d\d:\d\d$", e[1])]
    rep.examined(R144, "MAP_TZZ_TO_TZz|values", sample={"entries": len(ents), "ambiguous(empty)": len([e for e in ents if e[1] == ""]), "malformed": bad[:3]})
    if bad:
        rep.violation(R144, "MAP_TZZ_TO_TZz|values", "MAP_TZZ_TO_TZz: values that are neither empty (ambiguous) nor +HH:MM: %s" % bad[:5])

    # ------------------------------------------------------------ R14.7 (shared instant-preservation lint)
    import instant
    R147i = rep.rule("R14.7", "filter-argument resolution never reads a wall-clock view back as UTC")
    n_sites = instant.check(prog, rep, R147i, lambda p: (p.startswith('s4::') or 'data::datetime::datetime_parse_from_str' in p) and '_tests' not in p, "the resolved filter instant is off by the --tz-offset")
    if n_sites < 4:
        raise CheckerError("R14.7: only %d chrono conversion sites found in scope (expected at least 4)" % n_sites)

    # ------------------------------------------------------------ R14.9 evaluation order decided for every kind of (-a, -b) pair
    # Each bound is one of: absent/absolute (the relative-offset grammar does not match), relative to now,
    # or '@'-relative to the other bound.  The order in which the two are resolved is a function of that
    # pair; it is enumerated over all 3 x 3 kinds from the MIR of the deciding match:
    #   (@, @) -> rejected;  (@, not @) -> -b first;  everything else -> -a first.
    R149 = rep.rule("R14.9", "for every kind of (-a, -b) pair the '@'-relative bound is resolved second")
    wds = sorted([c for c in cb.live_calls() if c.d == "s4::string_wdhms_to_duration"], key=lambda c: c.bb)
    if len(wds) != 2:
        raise CheckerError("cli_process_args: %d string_wdhms_to_duration peeks" % len(wds))

    def _peek_role(c):
        for o in cb.origins(c.args[0], through_calls=("::deref", "::as_ref", "::as_str", "::unwrap_or", "::clone", "Clone>::clone")):
            for p_ in o[-1] if isinstance(o[-1], tuple) else ():
                if p_ in ("dt_after", "dt_before"):
                    return p_
        nm_ = None
        import flow as _fl14
        t_ = _fl14.named_target(cb, c.args[0])
        if t_ is not None and cb.local_name(t_):
            nm_ = cb.local_name(t_)
            if "after" in nm_:
                return "dt_after"
            if "before" in nm_:
                return "dt_before"
        return None
    roles = {c.bb: _peek_role(c) for c in wds}
    if sorted(v for v in roles.values() if v) != ["dt_after", "dt_before"]:
        raise CheckerError("cli_process_args: the two peeks are not recognisably of dt_after and dt_before (%s)" % roles)
    adt_k = facts.adts.get("s4::DUR_OFFSET_TYPE")
    if not adt_k:
        raise CheckerError("DUR_OFFSET_TYPE not extracted")
    kidx = {v_["name"]: v_["idx"] for v_ in adt_k["variants"]}
    start_ = max(wds, key=lambda c: c.bb).target
    pde_bb = {c.bb: which(c) for c in pde}
    paths_ = decide.enumerate_paths(cb, start_, lambda bb: ("pde:%s" % pde_bb[bb]) if bb in pde_bb else ("ret" if cb.term(bb)[0] == "ret" else None), opaque_ok=lambda bb: True, max_paths=5000)
    if any(d_[0] == "opaque" for p_ in paths_ for d_ in p_.decisions):
        raise CheckerError("cli_process_args: a branch between the two peeks and the first resolution is not a test of the peeked kinds (evaluation-order idiom not recognised)")
    KINDS = ("plain", "Now", "Other")
    table = {}
    for ka in KINDS:
        for kb in KINDS:
            outs = set()
            for p_ in paths_:
                ok_ = decide.flags_consistent(cb, p_)
                for d_ in p_.decisions:
                    if not ok_:
                        break
                    if d_[0] not in ("variant", "variant_not"):
                        continue
                    r_ = d_[1]
                    if r_[0] != "call" or r_[1] != "string_wdhms_to_duration":
                        continue
                    k_ = ka if roles.get(r_[2]) == "dt_after" else kb
                    if len(r_) == 3:
                        # Option shape: 1 = Some
                        val = 0 if k_ == "plain" else 1
                    else:
                        if k_ == "plain":
                            ok_ = False   # payload inspected although None
                            break
                        val = kidx[k_]
                    if d_[0] == "variant" and d_[2] != val:
                        ok_ = False
                        break
                    if d_[0] == "variant_not" and val in d_[2]:
                        ok_ = False
                        break
                if ok_:
                    outs.add(p_.end)
            table[(ka, kb)] = outs
    for (ka, kb), outs in sorted(table.items()):
        if ka == "Other" and kb == "Other":
            want = {"deadend:call"}
        elif ka == "Other":
            want = {"pde:dt_before"}
        else:
            want = {"pde:dt_after"}
        rep.examined(R149, "%s|a=%s,b=%s" % (cb.path, ka, kb), sample={"dt_after": ka, "dt_before": kb, "first_step": sorted(outs), "expected": sorted(want)})
        if outs != want:
            rep.violation(R149, "%s|a=%s,b=%s" % (cb.path, ka, kb), "cli_process_args: with --dt-after %s and --dt-before %s the first step is %s, expected %s; "
                          "e.g. `-a @-1h -b=-1h` then resolves -a with no reference and exits with an error although the pair is valid" % (
                              {"plain": "absolute/absent", "Now": "relative to now", "Other": "'@'-relative"}[ka], {"plain": "absolute/absent", "Now": "relative to now", "Other": "'@'-relative"}[kb], sorted(outs), sorted(want)))
    rep.exhaustive.append({"domain": "kinds of (--dt-after, --dt-before): {absolute/absent, now-relative, @-relative}^2", "size": 9, "where": "cli_process_args"}) if hasattr(rep, "exhaustive") else None

    # ------------------------------------------------------------ R14.8 a signed offset applies its sign to every term
    # Where a FixedOffset is built from hand-written arithmetic (sign, hours, minutes) the sign has to
    # reach every additive term: `sign*h*3600 + m*60` turns -03:30 into -02:30.  Applies to any
    # FixedOffset::east_opt/west_opt call in the binary whose argument is a sum; calls that take the
    # offset from chrono's own %z parser have nothing to check.
    R148 = rep.rule("R14.8", "hand-written UTC-offset arithmetic applies the sign to every term")

    def _tree(b_, op_, depth=0):
        if op_[0] == "k":
            return ("k", op_[2])
        l_ = op_local(op_)

        def _sign_or_leaf():
            cs = set()
            for x in b_.origins(op_):
                if x[0] == "const":
                    try:
                        cs.add(int(x[1]))
                    except Exception:
                        cs.add("?")
                else:
                    cs.add("?")
            if cs and "?" not in cs and any(isinstance(c_, int) and c_ < 0 for c_ in cs) and all(abs(c_) <= 1 for c_ in cs):
                return ("sign", l_)
            return ("leaf", l_)
        if op_[0] in ("cp", "mv") and len(op_[1]) != 1:
            return _sign_or_leaf()
        if l_ is None or depth > 12:
            return ("leaf", None)
        ds_ = b_.defs.get(l_, [])
        if len(ds_) == 1 and ds_[0][1] != "call":
            rv_ = ds_[0][2]
            if rv_[0] == "use":
                return _tree(b_, rv_[1], depth + 1)
            if rv_[0] == "cast":
                return _tree(b_, rv_[2], depth + 1)
            if rv_[0] == "bin":
                opn = rv_[1].replace("WithOverflow", "").replace("Unchecked", "")
                return (opn, _tree(b_, rv_[2], depth + 1), _tree(b_, rv_[3], depth + 1))
            if rv_[0] == "un" and rv_[1] == "Neg":
                return ("Neg", _tree(b_, rv_[2], depth + 1))
        # a sign variable: every origin is a small constant and one of them is negative
        cs = set()
        for x in b_.origins(op_):
            if x[0] == "const":
                try:
                    cs.add(int(x[1]))
                except Exception:
                    cs.add("?")
            else:
                cs.add("?")
        if cs and "?" not in cs and any(isinstance(c_, int) and c_ < 0 for c_ in cs) and all(abs(c_) <= 1 for c_ in cs):
            return ("sign", l_)
        return ("leaf", l_)

    def _has_sign(t_):
        if t_[0] in ("sign", "Neg"):
            return True
        if t_[0] == "Mul" or t_[0] == "Div":
            return _has_sign(t_[1]) or _has_sign(t_[2])
        return False

    def _terms(t_):
        if t_[0] in ("Add", "Sub"):
            return _terms(t_[1]) + _terms(t_[2])
        return [t_]
    n148 = 0
    for fb_ in prog.bodies():
        if not (fb_.path.startswith("s4::") or fb_.path.startswith("s4lib::data::datetime")) or "_tests" in fb_.path:
            continue
        for c in fb_.live_calls():
            if c.d.startswith("chrono::FixedOffset::") and c.d.split("::")[-1] in ("east_opt", "west_opt", "east", "west") and c.args and c.args[0][0] != "k":
                n148 += 1
                tr_ = _tree(fb_, c.args[0])
                ts_ = _terms(tr_)
                signed = [_has_sign(t_) for t_ in ts_]
                rep.examined(R148, "%s|%s" % (fb_.path, c.d.split("::")[-1]), sample={"site": fb_.path.split("::")[-1], "line": c.line, "additive_terms": len(ts_), "terms_carrying_the_sign": sum(signed)})
                if len(ts_) > 1 and any(signed) and not all(signed):
                    rep.violation(R148, "%s|%s|sign" % (fb_.path, c.d.split("::")[-1]), "%s (line %d): the UTC offset is computed as a sum of %d terms of which only %d carry the sign; "
                                  "a negative offset with non-zero minutes comes out wrong (-03:30 becomes -02:30, -00:45 becomes +00:45)" % (fb_.path.split("::")[-1], c.line, len(ts_), sum(signed)))
    rep.examined(R148, "fixedoffset-arithmetic-sites", nontrivial=False, sample={"FixedOffset constructor calls with a computed argument": n148})

    # ------------------------------------------------------------ R14.10 fractional seconds of a filter value are read positionally
    # process_dt hands the user's text to chrono unchanged.  chrono's bare `%f` is an integer count of
    # nanoseconds (".5" = 5 ns), not a decimal fraction; only `%3f/%6f/%9f` (fixed width, after a literal
    # '.') and `%.f/%.3f/%.6f/%.9f` (dot included) read ".500" as half a second.  A row with `.%f` turns
    # `-a 20200304T100001.500` into 10:00:01.000000500 - silently, exit 0.
    R1410 = rep.rule("R14.10", "no filter-pattern row reads fractional seconds with chrono's integer-nanosecond %f")
    import re as _re
    for ri, row in enumerate(rows):
        pat_ = row[0]
        specs = _re.findall(r"%(?:[-_0^#:.]*\d*)[A-Za-z%+]", pat_)
        bad = [m.start() for m in _re.finditer(r"%f", pat_)]
        rep.examined(R1410, "s4::CLI_FILTER_PATTERNS|%s" % pat_, nontrivial=bool(_re.search(r"\df|\.f", pat_)) or bool(bad), sample={"row": ri, "pattern": pat_, "fraction_specifiers": [x for x in specs if x.endswith("f")]})
        if bad:
            rep.violation(R1410, "s4::CLI_FILTER_PATTERNS|%s|bare-%%f" % pat_, "CLI_FILTER_PATTERNS row %d %r uses chrono's bare %%f, which reads the digits as an integer number of nanoseconds: "
                          "`.500` becomes 500 ns instead of half a second, so a sub-second window bound in this spelling collapses to the whole second" % (ri, pat_))
    if len(rows) < 40:
        raise CheckerError("R14.10: CLI_FILTER_PATTERNS has only %d rows (expected >= 40)" % len(rows))

    # ------------------------------------------------------------ R14.11 counts of a relative offset reach chrono's range check unscaled
    # `+NwNdNhNmNs`: each N is parsed as i64 and handed to Duration::try_weeks/.../try_seconds, which
    # reject what cannot be represented ("unparseable values ... are rejected").  Scaling or summing
    # the counts in plain i64 arithmetic first wraps silently in a release build (no overflow checks):
    # `@+144115188075855873w` would resolve to X+1w.  The only arithmetic allowed on a parsed count
    # before the range-checked constructor is the multiplication by the sign (+1/-1).
    from c05 import forward_taint as _ft14
    R1411 = rep.rule("R14.11", "parsed offset counts are only multiplied by the sign before a range-checked Duration constructor")
    wb_ = prog.body("s4::string_wdhms_to_duration")
    srcs_ = [c for c in wb_.live_calls() if c.d.split("::")[-1] in ("from_str_radix", "parse", "from_str")]
    if not srcs_:
        raise CheckerError("string_wdhms_to_duration: no integer parse found")
    tn_ = _ft14(wb_, {c.dest[0] for c in srcs_})
    signs_ = {}
    for k_, a_ in facts.adts.items():
        if a_.get("kind") == "enum" and a_.get("variants") and all(str(v_.get("discr")) in ("1", "18446744073709551615", "-1") for v_ in a_["variants"]):
            signs_[k_] = True
    unchecked = []
    nar = 0
    for bb in sorted(wb_.live):
        for st in wb_.stmts(bb):
            if st[0] == "=" and st[2][0] == "bin" and st[2][1].replace("WithOverflow", "").replace("Unchecked", "") in ("Mul", "Add", "Sub", "Shl"):
                ops_ = (st[2][2], st[2][3])
                tainted = [o for o in ops_ if o[0] in ("cp", "mv") and o[1][0] in tn_]
                if not tainted:
                    continue
                nar += 1
                other = [o for o in ops_ if o not in tainted]
                ok_ = st[2][1].startswith("Mul") and len(other) == 1 and other[0][0] != "k" and bool(wb_.origins(other[0])) and all(x[0] == "discr" for x in wb_.origins(other[0]))
                if ok_:
                    # the discriminant must be that of a +1/-1 enum
                    for x in wb_.origins(other[0]):
                        src_st = wb_.stmts(x[1])[x[2]]
                        ty_ = wb_.local_ty(src_st[2][1][0]) if src_st[2][0] == "discr" else None
                        if ty_ not in signs_:
                            ok_ = False
                if not ok_:
                    unchecked.append((st[2][1], st[3]))
    for c in wb_.live_calls():
        nm_ = c.d.split("::")[-1]
        op_trait = "ops::" in (c.o or c.d) and nm_ in ("mul", "add", "sub", "shl", "mul_assign", "add_assign", "sub_assign") and any(t_ in (c.callee.get("self") or "") for t_ in ("i64", "i32", "u64", "u32", "isize", "usize", "i128"))
        if (nm_ in ("wrapping_mul", "wrapping_add", "saturating_mul", "saturating_add", "pow", "wrapping_pow", "unchecked_mul") or op_trait) and any(a[0] in ("cp", "mv") and a[1][0] in tn_ for a in c.args):
            unchecked.append((nm_, c.line))
    tries_ = [c.d.split("::")[-1] for c in wb_.live_calls() if c.d.split("::")[-1].startswith("try_") and ("TimeDelta" in c.d or "Duration" in c.d)]
    rep.examined(R1411, wb_.path + "|count-arithmetic", sample={"integer_parses": len(srcs_), "arithmetic_on_counts": nar, "not_sign_multiplication": unchecked, "range_checked_constructors": tries_})
    if unchecked:
        rep.violation(R1411, wb_.path + "|count-arithmetic|unchecked", "string_wdhms_to_duration (line %d): a parsed count goes through %s in plain i64 arithmetic before any range check; in a release build a large count wraps, "
                      "so `@+144115188075855873w` is resolved to an unrelated instant instead of being rejected" % (unchecked[0][1], unchecked[0][0]))
    if len(tries_) < 1:
        rep.violation(R1411, wb_.path + "|count-arithmetic|no-range-check", "string_wdhms_to_duration: no range-checked Duration constructor (try_*) receives the counts")

    # ------------------------------------------------------------ R14.12 a value that was passed is resolved or rejected, never ignored
    # process_dt_exit returns None only for "option not given".  Any value that *was* given - the empty
    # string of `-a "$UNSET"` included - either resolves to an instant or ends the run with an error.
    # Path-sensitive: every `return None` is reached only with the argument known to be None.
    R1412 = rep.rule("R14.12", "process_dt_exit returns None only when the option was not given")
    eb_ = prog.body("s4::process_dt_exit")

    def _arg1_test(bb):
        """switch at bb on is_none/is_some/discriminant of *arg1 -> {succ: 'none'|'some'}"""
        t = eb_.term(bb)
        if t[0] != "switch":
            return None
        l_ = op_local(t[1])
        if l_ is None:
            return None
        ds_ = eb_.defs.get(l_, [])
        if len(ds_) != 1:
            return None
        _b, idx_, rv_ = ds_[0]
        arms = [(int(v_), tb_) for v_, tb_ in t[2]]
        if idx_ == "call":
            nm_ = rv_.d.split("::")[-1]
            if nm_ in ("is_none", "is_some") and rv_.args and all(x[0] == "arg" and x[1] == 1 for x in eb_.origins(rv_.args[0])):
                res = {}
                for v_, tb_ in arms:
                    truth = bool(v_)
                    res[tb_] = ("none" if truth else "some") if nm_ == "is_none" else ("some" if truth else "none")
                other = not any(bool(v_) for v_, _t in arms)
                res.setdefault(t[3], ("none" if other else "some") if nm_ == "is_none" else ("some" if other else "none"))
                return res
            return None
        if rv_[0] == "discr" and rv_[1][0] == 1:
            res = {}
            for v_, tb_ in arms:
                res[tb_] = "none" if v_ == 0 else "some"
            if len(arms) == 1:
                res.setdefault(t[3], "some" if arms[0][0] == 0 else "none")
            return res
        return None
    tests_ = {bb: _arg1_test(bb) for bb in eb_.live}
    if not any(tests_.values()):
        raise CheckerError("process_dt_exit: no test of the option argument found")

    def _edge(bb, s_, st):
        t_ = tests_.get(bb)
        if t_ and s_ in t_:
            if st != "?" and st != t_[s_]:
                return None
            return t_[s_]
        return st
    sts_ = flow.disjunctive(eb_, "?", lambda bb, st: st, _edge)
    nones = []
    for bb in sorted(eb_.live):
        for st in eb_.stmts(bb):
            if st[0] == "=" and st[1] == [0] and st[2][0] == "agg" and isinstance(st[2][1], dict) and st[2][1].get("variant") == "None":
                nones.append((bb, sorted(sts_.get(bb, ())), st[3]))
    rep.examined(R1412, eb_.path + "|none-returns", sample={"none_returns": [(bb, k_) for bb, k_, _l in nones]})
    if not nones:
        raise CheckerError("process_dt_exit: no `return None` found")
    for bb, k_, ln_ in nones:
        if k_ != ["none"]:
            rep.violation(R1412, eb_.path + "|none-returns|value-ignored", "process_dt_exit (line %d) returns None - 'option not given' - on a path where a value was given; such a value (e.g. the empty string of `-a \"$UNSET\"`) is silently "
                          "treated as no filter and everything is printed with exit status 0 instead of the run being rejected" % ln_)

    # ------------------------------------------------------------ R14.13 the trailing zone name of a value is taken whole
    # For `%Z` patterns process_dt pops the trailing letters off the value and looks them up in the zone
    # table.  If that scan is bounded, the bound has to admit the longest name of the table (CHADT,
    # ACWST, ... are five letters); a shorter bound makes those documented names unparseable for -a/-b
    # while --tz-offset still accepts them.
    R1413 = rep.rule("R14.13", "a bound on the trailing-zone-name scan in process_dt admits the longest name of the zone table")
    pdb = prog.body("s4::process_dt")
    zm_ = facts.const("s4lib::data::datetime::MAP_TZZ_TO_TZz")
    try:
        zmax = max(len(e[0]) for e in zm_["fields"]["entries"])
    except Exception:
        raise CheckerError("R14.13: zone table not readable")
    pops_ = [c for c in pdb.live_calls() if c.d.endswith("String::pop")]
    loops_ = [pdb.loop_blocks(h) for (_t, h) in pdb.back_edges()]
    pop_loops = [L_ for L_ in loops_ if any(c.bb in L_ for c in pops_)]
    if not pop_loops:
        raise CheckerError("R14.13: the zone-name scan (String::pop in a loop) was not found in process_dt")
    Lz = min(pop_loops, key=len)
    bounds = []
    for bb in sorted(Lz):
        t = pdb.term(bb)
        if t[0] != "switch":
            continue
        for o_ in pdb.origins(t[1], through_calls=("ops::Not>::not",)):
            if o_[0] == "bin":
                st_ = pdb.stmts(o_[1])[o_[2]]
                opn = st_[2][1]
                a_, b_ = st_[2][2], st_[2][3]
                if opn in ("Lt", "Le", "Gt", "Ge"):
                    kside = [x for x in (a_, b_) if x[0] == "k" and isinstance(x[2], int)]
                    vside = [x for x in (a_, b_) if x[0] != "k"]
                    if len(kside) == 1 and vside and any(y[0] == "call" and y[2].split("::")[-1] in ("len", "count") for y in pdb.origins(vside[0])):
                        k_ = kside[0][2]
                        # how many letters can be taken before the test stops the loop
                        if (opn == "Lt" and a_[0] != "k") or (opn == "Gt" and a_[0] == "k"):
                            cap = k_
                        elif (opn == "Le" and a_[0] != "k") or (opn == "Ge" and a_[0] == "k"):
                            cap = k_ + 1
                        else:
                            cap = None
                        if cap is not None:
                            bounds.append((cap, st_[3]))
    rep.examined(R1413, pdb.path + "|zone-name-scan", sample={"longest_zone_name": zmax, "length_bounds_in_the_scan": bounds})
    for cap, ln_ in bounds:
        if cap < zmax:
            rep.violation(R1413, pdb.path + "|zone-name-scan|bound-too-short", "process_dt (line %d) stops collecting the trailing zone name after %d letters but MAP_TZZ_TO_TZz has names of %d letters; "
                          "`-a '20000102T030405 CHADT'` is rejected as unparseable although CHADT is an unambiguous documented zone (and --tz-offset CHADT is accepted)" % (ln_, cap, zmax))

    # ------------------------------------------------------------ R14.14 the program-start instant is fixed before the program waits for input
    # Relative bounds ('-a -5m') are resolved against UTC_NOW, a lazily initialised thread-local: its
    # value is the time of the *first access*.  Paths may come from standard input ('-'), which can take
    # arbitrarily long; "from program start" therefore needs a first access before the first read of
    # stdin.  Today that access happens inside CLI_Args::parse(): the default of --tz-offset is
    # LOCAL_NOW_OFFSET, whose initialiser reads LOCAL_NOW, whose initialiser reads UTC_NOW.  The chain is
    # followed through the thread-local initialisers (LocalKey::<T>::with -> the initialiser returning T)
    # and through clap's derive (Parser::parse -> the generated augment_args/DEFAULT_VALUE bodies).
    R1414 = rep.rule("R14.14", "the start instant (UTC_NOW) is captured before the first read of standard input")
    inits14 = {}
    for p_ in prog.facts.bodies:
        if p_.startswith("s4::") and p_.endswith("::__rust_std_internal_init_fn"):
            inits14.setdefault(prog.body(p_).local_ty(0), []).append(p_)
    now_fns = [p_ for ps_ in inits14.values() for p_ in ps_ if any(c.d.endswith("Utc::now") for c in prog.body(p_).live_calls())]
    if len(now_fns) != 1:
        raise CheckerError("R14.14: %d thread-local initialisers call Utc::now (expected exactly UTC_NOW)" % len(now_fns))
    cg14 = prog.callgraph()
    memo14 = {}

    def _captures(fn_, depth_=0):
        if fn_ in memo14:
            return memo14[fn_]
        memo14[fn_] = False
        if fn_ == now_fns[0]:
            memo14[fn_] = True
            return True
        fb_ = prog.body(fn_, required=False)
        if fb_ is None or depth_ > 12:
            return False
        res_ = False
        for c in fb_.live_calls():
            if _call_captures(c, depth_):
                res_ = True
                break
        if not res_:
            for cl_ in prog.closures_in(fn_):
                if cl_.path != fn_ and _captures(cl_.path, depth_ + 1):
                    res_ = True
                    break
        memo14[fn_] = res_
        return res_

    def _call_captures(c, depth_=0):
        if "thread::LocalKey" in c.d and c.d.split("::")[-1] in ("with", "try_with"):
            ty_ = (c.callee.get("ga") or [""])[0]
            return any(_captures(i_, depth_ + 1) for i_ in inits14.get(ty_, []))
        if c.d.endswith("clap::Parser>::parse") or c.f.endswith("clap::Parser>::parse"):
            m_ = re.match(r"<(.+) as clap::Parser>::parse", c.f)
            pre_ = "<%s as clap::" % (m_.group(1) if m_ else "?")
            return any(_captures(p_, depth_ + 1) for p_ in prog.facts.bodies if p_.startswith(pre_))
        if c.d.startswith("s4::") or c.d.startswith("s4lib::"):
            return _captures(c.d, depth_ + 1)
        return False
    n1414 = 0
    for fn_ in ("s4::main", "s4::cli_process_args"):
        fb_ = prog.body(fn_)
        caps_ = [c for c in fb_.live_calls() if _call_captures(c)]
        for c in fb_.live_calls():
            if not (c.d in ("std::io::stdin", "std::io::Stdin::lock", "std::io::Stdin::lines", "std::io::Stdin::read_line") or ("Stdin" in c.f and c.d.split("::")[-1] in ("lines", "read_line", "next", "read_to_string", "read"))):
                continue
            n1414 += 1
            dom_ = [k_ for k_ in caps_ if k_.bb != c.bb and fb_.dominates(k_.bb, c.bb)]
            rep.examined(R1414, "%s|%s@%d" % (fn_, c.d.split("::")[-1], n1414), sample={"function": fn_, "line": c.line, "stdin_call": c.d.split("::")[-1], "start_clock_captured_before_by_line": [k_.line for k_ in dom_][:2]})
            if not dom_:
                rep.violation(R1414, "%s|stdin-before-start-clock" % fn_, "%s (line %d) reads standard input before anything has touched UTC_NOW (whose value is the time of its first access); paths piped in slowly ('-') then move the base of every relative "
                              "-a/-b value from the program start to the moment the list ended" % (fn_, c.line))
    if n1414 < 1:
        raise CheckerError("R14.14: no read of standard input found in main / cli_process_args")

    # ------------------------------------------------------------ R14.15 durations built from the user's numbers are combined with checked arithmetic
    # Each of the five terms of '+NwNdNhNmNs' passes its own range check (Duration::try_*); their *sum* can
    # still leave chrono's range.  `TimeDelta + TimeDelta` panics on overflow - in a release build the
    # program aborts (exit 134) instead of rejecting the value with an error.  In the offset parser no
    # panicking `Add`/`Sub` of two TimeDeltas is used; the terms are joined with checked_add.
    R1415 = rep.rule("R14.15", "the relative-offset parser adds its range-checked terms with checked arithmetic")
    wb15 = prog.body("s4::string_wdhms_to_duration")
    pan15 = [c for c in wb15.live_calls() if "TimeDelta" in c.f and (c.o.startswith("std::ops::Add::") or c.o.startswith("std::ops::Sub::") or c.o.startswith("core::ops::Add::") or c.o.startswith("core::ops::Sub::"))
             and "TimeDelta" in str(c.callee.get("ga") or c.f)]
    chk15 = [c for c in wb15.live_calls() if c.d.endswith("TimeDelta::checked_add") or c.d.endswith("TimeDelta::checked_sub")]
    tries15 = [c for c in wb15.live_calls() if "TimeDelta::try_" in c.d]
    rep.examined(R1415, wb15.path + "|sum", sample={"range_checked_terms": len(tries15), "checked_additions": len(chk15), "panicking_additions": [c.line for c in pan15]})
    if len(tries15) < 2:
        raise CheckerError("R14.15: string_wdhms_to_duration builds %d range-checked terms" % len(tries15))
    if pan15:
        rep.violation(R1415, wb15.path + "|panicking-sum", "string_wdhms_to_duration (line %d) adds the range-checked terms of a relative offset with `+`; a value such as '@+9223372036854775s153722867280912m' passes every single check, "
                      "overflows in the sum and aborts the program (exit 134) instead of being rejected with an error" % pan15[0].line)

    return rep.finish(
        "Static necessary-condition check of the CLI datetime-filter path: the relative-offset grammar is anchored (regular-language analysis of "
        "the const-evaluated pattern), a bare date is completed to 00:00:00 in value and pattern together, zone-less values are parsed in the "
        "--tz-offset zone with the row's own has_tz flag, %Z rows substitute the numeric zone from the zone table, the '@'-relative bound is "
        "resolved second against the other bound, and unparseable / both-relative / after>before / ambiguous-zone inputs lead to a non-zero exit.",
        ["chrono's parsing of each absolute form", "local-zone lookup", "capture time of 'now'", "consistency of row flags with row patterns (asserted by the suite's test_cli_filter_patterns)"])
