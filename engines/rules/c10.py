"""C10 — event-log files: every record once, ordered by creation time.

Decides:
  R10.1 the ordering index cannot lose a record and keeps file order on ties: BTreeMap keyed by
        (record timestamp, enumeration index) with the index from Iterator::enumerate directly over
        the parser's records().
  R10.2 records leave the index in key order (pop_first, or first_key_value+remove), and the stored
        Evtx is built from the same record whose timestamp is in the key; Evtx::dt is that timestamp.
  R10.3 window: only InRange reaches the insert (C03 R3.2) and the scan of the records never stops
        early: the record loop is left only when the iterator is exhausted (records are stored out
        of order).
  R10.4 compressed/archived input goes through the temporary extraction (C05 R5.3).
Does not decide: the evtx crate's record enumeration, XML rendering.
"""
import c03
import c05
import decide
from c08 import key_components, var_of
from mir import CheckerError, op_local

ER = "s4lib::readers::evtxreader::EvtxReader"


def run(prog, rep, tier):
    facts = prog.facts
    R101 = rep.rule("R10.1", "ordering index keyed by (timestamp, enumerate index), ordered map")
    R102 = rep.rule("R10.2", "records leave the index in key order; stored record matches its key")
    R103 = rep.rule("R10.3", "window verdict and exhaustive scan of the records")
    R104 = rep.rule("R10.4", "compressed input is read through the temporary extraction")

    b = prog.body(ER + "::analyze")
    adt = facts.adts.get(ER)
    if not adt:
        raise CheckerError("anchor missing: " + ER)
    evf = [f for f in adt["variants"][0]["fields"] if "s4lib::data::evtx::Evtx" in f["ty"] and f["ty"] != "s4lib::data::evtx::Evtx"]
    rep.examined(R101, ER + "|index-type", sample={"fields": evf})
    if len(evf) != 1:
        raise CheckerError("EvtxReader: %d container fields holding Evtx" % len(evf))
    ity = evf[0]["ty"]
    if not ity.startswith("std::collections::BTreeMap<("):
        rep.violation(R101, ER + "|index-type", "EvtxReader keeps its records in %s; printing order and tie order (file order for equal times) need an ordered map keyed by (time, index)" % ity)
    ins = [c for c in b.live_calls() if c.d.split("::")[-1] in ("insert", "push", "push_back") and "Evtx" in (c.callee.get("self") or c.f) and "evtxreader" not in c.d]
    ins = [c for c in ins if "s4lib::data::evtx::Evtx" in (c.callee.get("self") or c.f)]
    if len(ins) != 1:
        raise CheckerError("EvtxReader::analyze: %d inserts into the record container" % len(ins))
    ic = ins[0]
    if ic.d.endswith("::insert") and len(ic.args) == 3:
        comps = key_components(b, ic.args[1])
        ok_idx = False
        ok_ts = False
        enum_next = [c for c in b.live_calls() if c.o.endswith("Iterator::next") and (c.callee.get("self") or "").startswith("std::iter::Enumerate<")]
        if comps and len(comps) == 2 and enum_next:
            o_ts = b.origins(comps[0])
            o_ix = b.origins(comps[1])
            ok_ix = all(x[0] == "call" and x[1] == enum_next[0].bb and tuple(x[3][:3]) == ("as Some", "0", "0") for x in o_ix) and bool(o_ix)
            ok_ts = all(x[0] == "call" and x[1] == enum_next[0].bb and "timestamp" in x[3] for x in o_ts) and bool(o_ts)
            ok_idx = ok_ix
            # enumerate directly over records()
            en = [c for c in b.live_calls() if c.o.endswith("Iterator::enumerate")]
            direct = False
            for e in en:
                src = b.origins(e.args[0])
                if all(x[0] == "call" and x[2].endswith("::records") for x in src) and src:
                    direct = True
            if not direct:
                ok_idx = False
        rep.examined(R101, b.path + "|key", sample={"key_components": len(comps or []), "index_from_enumerate_over_records": ok_idx, "timestamp_from_record": ok_ts})
        if not ok_idx:
            rep.violation(R101, b.path + "|key-index", "EvtxReader::analyze: the index key does not carry the record's enumeration index (taken from enumerate() directly over records()); records with equal creation time would overwrite each other or lose file order")
        if not ok_ts:
            rep.violation(R101, b.path + "|key-time", "EvtxReader::analyze: the first key component is not the record's own timestamp")
        # R10.2 stored value built from the same record
        vo = b.origins(ic.args[2])
        same = False
        for x in vo:
            if x[0] == "call" and x[2].endswith("Evtx::from_evtxrs"):
                fc = [c for c in b.calls if c.bb == x[1]][0]
                ro = b.origins(fc.args[0])
                if enum_next and all(y[0] == "call" and y[1] == enum_next[0].bb for y in ro) and ro:
                    same = True
        rep.examined(R102, b.path + "|value", sample={"value_built_from_same_record": same})
        if not same:
            rep.violation(R102, b.path + "|value", "EvtxReader::analyze: the Evtx stored under a key is not built from the record whose timestamp forms the key")
    else:
        rep.examined(R101, b.path + "|key", sample={"container_op": ic.d})
        rep.violation(R101, b.path + "|key-index", "EvtxReader::analyze: records are collected with %s, not inserted into a map keyed by (time, enumeration index); equal-time records are not guaranteed to keep file order" % ic.d.split("::")[-1])
    # sorting calls anywhere in the reader are a sign the order is re-established differently
    for p in sorted(facts.bodies):
        if p.startswith(ER + "::"):
            bd = prog.body(p)
            for c in bd.live_calls():
                if c.d.split("::")[-1].startswith("sort_unstable") or c.d.split("::")[-1] in ("sort_unstable_by_key", "sort_unstable_by"):
                    rep.violation(R101, p + "|unstable-sort", "%s: records are ordered with an unstable sort (%s); equal creation times may leave file order" % (p, c.d.split("::")[-1]))
    # R10.2: next()
    nb = prog.body(ER + "::next")
    pops = [c.d.split("::")[-1] for c in nb.live_calls() if "BTreeMap" in c.d or "VecDeque" in c.d or "Vec" in c.d]
    rep.examined(R102, nb.path + "|pop", sample={"container_calls": pops})
    if "pop_first" not in pops and not ("first_key_value" in pops and "remove" in pops):
        rep.violation(R102, nb.path + "|pop", "EvtxReader::next: the next record is not taken as the first key of the ordered index (calls: %s)" % pops)
    # Evtx::dt is the record timestamp
    fb = prog.body("s4lib::data::evtx::Evtx::from_evtxrs")
    dtok = False
    for bb in sorted(fb.live):
        for s in fb.stmts(bb):
            if s[0] == "=" and s[2][0] == "agg" and isinstance(s[2][1], dict) and s[2][1].get("adt", "").endswith("evtx::Evtx"):
                names = s[2][1]["fields"]
                if "dt" in names:
                    o = fb.origins(s[2][2][names.index("dt")], through_calls=("::into", "::from", "::with_timezone", "::fixed_offset", "::clone"))
                    if any(x[0] == "arg" and "timestamp" in x[2] for x in o) or any("timestamp" in str(x) for x in o):
                        dtok = True
    rep.examined(R102, fb.path + "|dt", sample={"dt_from_record_timestamp": dtok})
    if not dtok:
        rep.violation(R102, fb.path + "|dt", "Evtx::from_evtxrs: the message's dt does not derive from the record's timestamp (merge key, window and order would disagree)")

    # ------------------------------------------------------------ R10.3
    preds = [c for c in b.live_calls() if c.d.endswith("evtxreader::ts_pass_filters")]
    if len(preds) != 1:
        raise CheckerError("EvtxReader::analyze: %d window predicate calls" % len(preds))
    names = c03.variant_names(prog, c03.DT2)
    swbb, arms, otherwise = c03.result_arms(b, preds[0])
    hdrs = set(h for (_, h) in b.back_edges())
    rec_loop = [h for h in hdrs if preds[0].bb in b.loop_blocks(h)]
    if not rec_loop:
        raise CheckerError("EvtxReader::analyze: record loop not found")
    h = min(rec_loop, key=lambda x: len(b.loop_blocks(x)))
    L = b.loop_blocks(h)
    for vidx, target in sorted(arms.items()):
        vname = names[vidx]
        reach_ins = ic.bb in b.reachable(target, {h})
        rep.examined(R103, "%s|%s" % (b.path, vname), sample={"variant": vname, "reaches_insert": reach_ins})
        if vname == "InRange" and not reach_ins:
            rep.violation(R103, "%s|%s" % (b.path, vname), "EvtxReader::analyze: an InRange record does not reach the index")
        if vname != "InRange" and reach_ins:
            rep.violation(R103, "%s|%s" % (b.path, vname), "EvtxReader::analyze: a record judged %s reaches the index" % vname)
    # ways round the loop that do not reach the index: only a record that could not be decoded (the Err arm of
    # the iterator's item) or one the window rejected.  Any other `continue` - a de-duplication by record
    # id, a size or level filter - makes a record of the file disappear ("each record is printed exactly once").
    ok_arm = err_arm = None
    for bb in sorted(L):
        if b.term(bb)[0] != "switch":
            continue
        try:
            sd_ = decide.switch_decisions(b, bb)
        except CheckerError:
            sd_ = None
        for tgt_, d_ in (sd_ or []):
            if d_[0] == "variant" and d_[1][0] == "call" and d_[1][1] == "next" and "as Some" in d_[1]:
                if d_[2] == 0:
                    ok_arm = tgt_
                elif d_[2] == 1:
                    err_arm = tgt_
    if ok_arm is None:
        raise CheckerError("EvtxReader::analyze: the Ok arm of the record iterator's item not found")
    gates = set(tgt_ for v_, tgt_ in arms.items() if names[v_] != "InRange")
    if err_arm is not None:
        gates.add(err_arm)
    sneaks = h in b.reachable(ok_arm, gates | {ic.bb}) and ok_arm != h
    rep.examined(R103, b.path + "|every-decoded-record-judged", sample={"ok_arm_block": ok_arm, "legitimate_skips": sorted(gates), "another_way_round_the_loop": bool(sneaks)})
    if sneaks:
        # name the first block of such a path that branches away
        rep.violation(R103, b.path + "|skip-without-verdict", "EvtxReader::analyze: a decoded record can go round the record loop without reaching the index and without having been rejected by the window (a `continue` on some other condition); "
                      "such a record of the file is never printed")
    # exits of the record loop: only iterator exhaustion (next() == None) may leave the loop
    exits = [(x, s) for x in sorted(L) for s in b.succ[x] if s not in L and b.term(s)[0] != "unreachable"]
    bad = []
    for (x, s) in exits:
        okx = False
        t = b.term(x)
        if t[0] == "switch":
            sd = decide.switch_decisions(b, x)
            if sd:
                for tgt, d in sd:
                    if tgt == s and d[0] == "variant" and d[1][0] == "call" and d[1][1] == "next" and d[2] == 0:
                        okx = True
        if not okx:
            # leaving to an error return is tolerated only if it is not controlled by the window verdict
            bad.append((x, s, b.blocks[x].get("l")))
    rep.examined(R103, b.path + "|scan-all", sample={"loop_exits": [(x, s) for x, s, *_ in [(e[0], e[1]) for e in exits]], "non_exhaustion_exits": bad})
    for (x, s, line) in bad:
        # which arm dominates the exit?
        arm = [names[v] for v, tgt in arms.items() if b.dominates(tgt, x) or tgt == s or tgt == x]
        rep.violation(R103, b.path + "|scan-all", "EvtxReader::analyze: the record scan can stop before the file is exhausted (line %s%s); .evtx files store records out of order, so later records inside the window would be lost" % (
            line, (", on a record judged " + arm[0]) if arm else ""))
        break

    # ------------------------------------------------------------ R10.4 (shared rule R5.3, evtx site)
    nb2 = prog.body(ER + "::new")
    dec = [c for c in nb2.live_calls() if c.d.endswith("::decompress_to_ntf")]
    ntfp = [c for c in nb2.live_calls() if "NamedTempFile" in c.d and c.d.endswith("::path")]
    rep.examined(R104, nb2.path, sample={"decompress_to_ntf_calls": len(dec), "ntf_path_calls": len(ntfp), "note": "path selection checked by C05 R5.3"})
    if len(dec) != 1 or not ntfp:
        rep.violation(R104, nb2.path, "EvtxReader::new: compressed or archived .evtx input is not read through decompress_to_ntf's temporary extraction")
    keep = [f for f in adt["variants"][0]["fields"] if "NamedTempFile" in f["ty"]]
    if not keep:
        rep.violation(R104, ER + "|keeps-ntf", "EvtxReader does not own the NamedTempFile (it would be deleted before parsing, or leak)")

    # ------------------------------------------------------------ R10.9 lift of the window predicate rules (C03 R3.1/R3.2) at the evtx sites
    import contextlib as _clA, io as _ioA
    import c03 as _c03A
    from common import Report as _RepA
    R109 = rep.rule("R10.9", "the evtx window predicate accepts exactly A <= t <= B for every shape of (A, B) (from C03 R3.1/R3.2)")
    _s3A = _RepA("C03", "quick", dict(rep.meta))
    _s3A.finish = lambda *a, **k: 0
    with _clA.redirect_stdout(_ioA.StringIO()):
        _c03A.run(prog, _s3A, "quick")
    nA = 0
    for (rid_, key_, what_, det_) in _s3A.violations:
        if rid_ in ("R3.1", "R3.1w", "R3.2") and ("evtx" in key_.lower() or "ts_pass_filters" in key_):
            rep.violation(R109, key_.split("|", 1)[1], what_)
    for rid_ in ("R3.1", "R3.1w", "R3.2"):
        for k_ in sorted(_s3A.rules.get(rid_, {}).get("keys", ())):
            if "evtx" in k_.lower() or "ts_pass_filters" in k_:
                nA += 1
                rep.examined(R109, "%s|%s" % (rid_, k_), sample={"rule": rid_, "instance": k_})
    # ... and the window is applied to record times only: no shortcut from the file's modification time (C03 R3.9)
    for (rid_, key_, what_, det_) in _s3A.violations:
        if rid_ == "R3.9" and ("evtx" in key_.lower()):
            rep.violation(R109, key_.split("|", 1)[1], what_)
    for k_ in sorted(_s3A.rules.get("R3.9", {}).get("keys", ())):
        if "evtx" in k_.lower():
            nA += 1
            rep.examined(R109, "R3.9|%s" % k_, sample={"rule": "R3.9", "instance": k_})
    if nA < 1:
        raise CheckerError("R10.9: no evtx instance among the C03 predicate rules")
    # ... and the bounds themselves are the ones the user wrote (C03 R3.10 <- C14): they apply to every kind of source
    for (rid_, key_, what_, det_) in _s3A.violations:
        if rid_ == "R3.10":
            rep.violation(R109, key_.split("|", 1)[1] + "|R3.10", what_)
    for k_ in sorted(_s3A.rules.get("R3.10", {}).get("keys", ()))[:6]:
        rep.examined(R109, "R3.10|%s" % k_, sample={"rule": "R3.10", "instance": k_})

    # ------------------------------------------------------------ R10.7 parser options that discard parsable records stay off
    # `ParserSettings::validate_checksums(true)` makes the evtx crate reject every 64 KiB chunk whose
    # stored CRC is stale - which is the normal state of a log copied while the event-log service had
    # it open; all records of such a chunk then vanish from the output without a word (analyze() keeps
    # only the error text).  "Each record is printed exactly once" needs the lenient default.
    R107 = rep.rule("R10.7", "the evtx parser is not configured to reject chunks (checksum validation off)")
    nb7 = prog.body(ER + "::new")
    cfg = [c for c in nb7.live_calls() if c.d.startswith("evtx::ParserSettings::")]
    strict = [c for c in cfg if c.d.split("::")[-1] == "validate_checksums" and len(c.args) > 1 and (c.args[1][0] != "k" or c.args[1][2] is not False)]
    rep.examined(R107, nb7.path + "|parser-settings", sample={"settings_calls": [c.d.split("::")[-1] for c in cfg], "checksum_validation_enabled": bool(strict)})
    if not any(c.d.endswith("::with_configuration") for c in nb7.live_calls()) and not cfg:
        raise CheckerError("EvtxReader::new: parser configuration not found")
    if strict:
        rep.violation(R107, nb7.path + "|parser-settings", "EvtxReader::new enables ParserSettings::validate_checksums (line %d); chunks of a log copied while in use have stale checksums, and every record in them is silently dropped" % strict[0].line)

    # ------------------------------------------------------------ R10.6 (lift: C05 rules at the extraction sites)
    # "A compressed or archived .evtx file prints the same as the plain file": the file is unpacked by
    # filedecompressor::decompress_to_ntf; the decoder-loop rules of C05 decide that the unpacked bytes
    # are complete (short reads are not end of data, every loop makes progress or stops).
    import contextlib as _ctx, io as _io
    import c05 as _c05
    from common import Report as _Report
    R106L = rep.rule("R10.6", "the temporary extraction is complete (from C05 R5.1/R5.1b/R5.1c/R5.3 at filedecompressor sites)")
    _sub = _Report("C05", "quick", dict(rep.meta))
    _sub.finish = lambda *a, **k: 0
    with _ctx.redirect_stdout(_io.StringIO()):
        _c05.run(prog, _sub, "quick")
    _n = 0
    for _rid, _r in sorted(_sub.rules.items()):
        for _k in sorted(_r.get("keys", ())):
            if "filedecompressor" in _k or "decompress_to_ntf" in _k or "process_path_tar" in _k or _rid in ("R5.5", "R5.10"):
                _n += 1
                rep.examined(R106L, "%s|%s" % (_rid, _k), sample={"rule": _rid, "instance": _k})
    for (_rid, _key, _what, _detail) in _sub.violations:
        if "filedecompressor" in _key or "decompress_to_ntf" in _key or "process_path_tar" in _key or _rid in ("R5.5", "R5.10"):
            rep.violation(R106L, _key.split("|", 1)[1] + "|" + _rid, _what)
    if _n < 3:
        raise CheckerError("R10.6: only %d C05 instances at filedecompressor sites" % _n)

    # ------------------------------------------------------------ R10.5 (shared instant-preservation lint)
    import instant
    R105i = rep.rule("R10.5", "conversions between the window's datetime and the record timestamp preserve the instant")
    n_sites = instant.check(prog, rep, R105i, lambda p: ('readers::evtxreader' in p or 'data::evtx' in p) and '_tests' not in p, "the -a/-b window applied to .evtx records shifts by the filter's own UTC offset")
    if n_sites < 2:
        raise CheckerError("R10.5: only %d chrono conversion sites found in scope (expected at least 2)" % n_sites)

    return rep.finish(
        "Static necessary-condition check of the event-log reader: records are indexed in a BTreeMap keyed by (record timestamp, enumerate() "
        "index over records()), leave it with pop_first, the stored Evtx is built from the record whose timestamp is in the key and its dt is that "
        "timestamp; only InRange records reach the index and the record loop is left only at iterator exhaustion; compressed input is parsed "
        "from the temporary extraction which the reader owns.",
        ["the evtx crate's record enumeration", "XML rendering", "sub-microsecond bounds (records carry 100 ns precision)"])
