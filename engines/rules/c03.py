"""C03 — a datetime window selects exactly the messages inside it.

Decides (structural necessary conditions):
  R3.1  every window predicate (functions returning Result_Filter_DateTime1/2) has the table
        InRange <=> A <= t <= B (missing bound unbounded), by complete enumeration of Option
        shapes x orderings over the predicate's decision paths.
  R3.1w wrappers forward (t, after, before) in that order.
  R3.2  at every reader's use site the accept condition composed from the predicate table and
        the caller's mapping of result variants is A <= t <= B:
        syslinereader (InRange->Found, else Done), fixedstructreader (direct comparisons),
        evtxreader (only InRange reaches the index insert), journalreader (only AfterRange stops).
  R3.3  both search strategies of the text reader end in the same range check.
Does not decide: that the binary search finds the first qualifying message, order preservation
inside readers, sub-microsecond truncation.
"""
import itertools

import decide
from decide import enumerate_paths, consistent, returned_variant, root_of
from mir import CheckerError, op_local

DT2 = "s4lib::data::datetime::Result_Filter_DateTime2"
DT1 = "s4lib::data::datetime::Result_Filter_DateTime1"

# consistent (t vs A, t vs B) pairs given A <= B
RELS = [(ra, rb) for ra in "<=>" for rb in "<=>" if (ra, rb) not in (("<", ">"), ("<", "="), ("=", ">"))]


def spec_dt2(sa, sb, ra, rb):
    if sa and ra == "<":
        return "BeforeRange"
    if sb and rb == ">":
        return "AfterRange"
    return "InRange"


def spec_dt1(sf, r):
    if not sf:
        return "Pass"
    return "OccursBefore" if r == "<" else "OccursAtOrAfter"


def role_by_argname(body, n):
    name = (body.local_name(n) or "").lower()
    if "after" in name:
        return "A"
    if "before" in name:
        return "B"
    return None


def _is_ret(body):
    return lambda bb: "ret" if body.term(bb)[0] == "ret" else None


def predicate_table(body, kind):
    """table: key -> set(variant) from the decision paths of a predicate body.
    roles are positional: arg1 = t, arg2 = A (or the single filter), arg3 = B."""
    paths = enumerate_paths(body, 0, _is_ret(body))
    live = [p for p in paths if p.end == "ret"]

    def role(root):
        if root[0] != "arg":
            raise CheckerError("%s: comparison operand is not a parameter: %r" % (body.path, root))
        return {1: "T", 2: "A", 3: "B"}.get(root[1])

    table = {}
    if kind == 2:
        domain = [(sa, sb, ra, rb) for sa in (0, 1) for sb in (0, 1) for (ra, rb) in RELS]
    else:
        domain = [(sf, None, r, None) for sf in (0, 1) for r in "<=>"]
    for key in domain:
        sa, sb, ra, rb = key
        res = set()
        for p in live:
            ok = True
            for d in p.decisions:
                if d[0] == "cmp":
                    _, op, x, y, outcome = d
                    rx, ry = role(x), role(y)
                    pair = (rx, ry)
                    if pair == ("T", "A"):
                        rel = ra
                    elif pair == ("A", "T"):
                        rel = decide.FLIP_REL[ra]
                    elif pair == ("T", "B"):
                        rel = rb
                    elif pair == ("B", "T"):
                        rel = decide.FLIP_REL[rb]
                    else:
                        raise CheckerError("%s: comparison between %r and %r is outside the window predicate idiom" % (body.path, x, y))
                    if rel is None:
                        raise CheckerError("%s: comparison with a third operand in a one-bound predicate" % body.path)
                    if (rel in decide.TRUTH[op]) != outcome:
                        ok = False
                        break
                elif d[0] in ("variant", "variant_not", "is"):
                    r = role(d[1])
                    shape = {"A": sa, "B": sb}.get(r)
                    if shape is None:
                        raise CheckerError("%s: shape test on %r" % (body.path, d[1]))
                    if d[0] == "variant" and shape != d[2]:
                        ok = False
                        break
                    if d[0] == "variant_not" and shape in d[2]:
                        ok = False
                        break
                    if d[0] == "is":
                        isname = "None" if shape == 0 else "Some"
                        if (isname == d[2]) != d[3]:
                            ok = False
                            break
                else:
                    raise CheckerError("%s: unrecognised decision %r" % (body.path, d))
            if ok:
                # a comparison against a bound that is None cannot be on a consistent path
                res.add(returned_variant(body, p))
        table[key] = res
    return table


def deep_arg_roles(body, op, depth=0):
    """parameter indices an operand ultimately derives from, following calls through their
    first argument (conversions such as datetimelopt_to_timestampopt)"""
    res = set()
    if depth > 5:
        return res
    for o in body.origins(op, through_calls=decide.THROUGH):
        if o[0] == "arg":
            res.add(o[1])
        elif o[0] == "call":
            t = body.term(o[1])
            for a in t[2][:2]:
                res |= deep_arg_roles(body, a, depth + 1)
        elif o[0] == "const":
            res.add("const:" + o[1])
    return res


def role_of_operand(body, op):
    roles = set()
    for n in deep_arg_roles(body, op):
        if isinstance(n, int):
            r = role_by_argname(body, n)
            if r:
                roles.add(r)
        else:
            roles.add(n)
    return roles


def result_arms(body, call):
    """switch on discriminant(call result): {variant_idx: target_bb}"""
    if call.target is None:
        raise CheckerError("call has no return edge")
    dest = call.dest
    bb = call.target
    # the discriminant switch may be a few gotos away
    seen = set()
    while bb is not None and bb not in seen:
        seen.add(bb)
        t = body.term(bb)
        if t[0] == "switch":
            l = op_local(t[1])
            for s in body.stmts(bb):
                if s[0] == "=" and s[1] == [l] and s[2][0] == "discr" and s[2][1][0] == dest[0]:
                    arms = {int(v): b for v, b in t[2]}
                    return bb, arms, t[3]
            raise CheckerError("%s: result of %s is not matched by variant at bb%d" % (body.path, call.d, bb))
        if t[0] == "goto":
            bb = t[1]
        else:
            break
    raise CheckerError("%s: no variant match on the result of %s" % (body.path, call.d))


def variant_names(prog, adt):
    a = prog.facts.adts.get(adt)
    if not a:
        raise CheckerError("anchor missing: enum %s" % adt)
    return {v["idx"]: v["name"] for v in a["variants"]}


def fixedstruct_window(prog, rep, rid):
    """R3.2(b)/R8.3: accept table and skip set of FixedStructReader::preprocess_timevalues"""
    # ---------------- R3.2 (b) fixedstruct reader: direct comparisons in the prefilter loop
    pb = prog.body("s4lib::readers::fixedstructreader::FixedStructReader::preprocess_timevalues")
    tvcalls = [cc for cc in pb.live_calls() if cc.d.endswith("::tv_pair_from_buffer")]
    inserts = [cc for cc in pb.live_calls() if "BTreeMap" in cc.d and cc.d.endswith("::insert")]
    if len(tvcalls) != 1 or len(inserts) != 1:
        raise CheckerError("preprocess_timevalues: %d time-value reads, %d index inserts" % (len(tvcalls), len(inserts)))
    tvc, ins = tvcalls[0], inserts[0]

    loop_headers = set(h for (_, h) in pb.back_edges())
    if not loop_headers:
        raise CheckerError("preprocess_timevalues: no record-scan loop found")

    def end_of(bb):
        if bb == ins.bb:
            return "insert"
        if bb in loop_headers:
            return "next"
        if pb.term(bb)[0] == "ret":
            return "ret"
        return None

    paths = enumerate_paths(pb, tvc.target, end_of, opaque_ok=None)
    tv_root = None
    conv = {}
    for cc in pb.live_calls():
        if cc.d.endswith("convert_datetime_tvpair"):
            roles = role_of_operand(pb, cc.args[0])
            if len(roles) == 1:
                conv[cc.bb] = next(iter(roles))

    def classify_root(root):
        if root[0] == "call" and root[1] == "tv_pair_from_buffer":
            return "T"
        if root[0] == "call" and root[1] == "convert_datetime_tvpair":
            return conv.get(root[2])
        if root[0] == "const" and "tv_pair_type" in root[1] and '"0": 0' in root[1] and '"1": 0' in root[1]:
            return "ZERO"
        return None

    def shape_role(root):
        # Option local holding a converted bound: find its Some payload
        if root[0] == "local":
            l = root[1]
            o = pb.origins(["cp", [l, ["as", "Some", 1], [".", 0, "0"]]])
            rs = set()
            for x in o:
                cr = decide.canon_root(pb, x)
                r = classify_root(cr)
                if r:
                    rs.add(r)
            if len(rs) == 1:
                return next(iter(rs))
        if root[0] == "call" and root[1] == "tv_pair_from_buffer":
            return "TVOPT"
        return None

    table = {}
    null_test_bad = []
    domain = [(sa, sb, ra, rb) for sa in (0, 1) for sb in (0, 1) for (ra, rb) in RELS]
    for key in domain:
        sa, sb, ra, rb = key
        outs = set()
        for p in paths:
            ok = True
            for d in p.decisions:
                if d[0] == "cmp":
                    _, op, x, y, outcome = d
                    rx, ry = classify_root(x), classify_root(y)
                    if (rx, ry) in (("T", "ZERO"), ("ZERO", "T")):
                        # the null-record test: a real record is not (0,0)
                        if op not in ("eq", "ne"):
                            null_test_bad.append(op)
                        truth_if_nonnull = (op == "ne")
                        if outcome != truth_if_nonnull:
                            ok = False
                            break
                        continue
                    if rx == "T" and ry == "T":
                        continue  # out-of-order accounting against the previous record: free
                    if (rx, ry) == ("T", "A"):
                        rel = ra
                    elif (rx, ry) == ("A", "T"):
                        rel = decide.FLIP_REL[ra]
                    elif (rx, ry) == ("T", "B"):
                        rel = rb
                    elif (rx, ry) == ("B", "T"):
                        rel = decide.FLIP_REL[rb]
                    else:
                        # a condition on something other than the window: free (both outcomes
                        # possible); the effect must not depend on it
                        continue
                    if (rel in decide.TRUTH[op]) != outcome:
                        ok = False
                        break
                elif d[0] in ("variant", "variant_not"):
                    r = shape_role(d[1])
                    if r == "TVOPT":
                        # precondition: the time value was decoded (Some)
                        some = (d[0] == "variant" and d[2] == 1) or (d[0] == "variant_not" and 1 not in d[2])
                        if not some:
                            ok = False
                            break
                        continue
                    if r is None or r == "T":
                        # Option<previous record's time>: free (out-of-order accounting only)
                        continue
                    shape = {"A": sa, "B": sb}[r]
                    if d[0] == "variant" and shape != d[2]:
                        ok = False
                        break
                    if d[0] == "variant_not" and shape in d[2]:
                        ok = False
                        break
                else:
                    raise CheckerError("preprocess_timevalues: decision %r not recognised" % (d,))
            if ok:
                outs.add("insert" if p.end == "insert" else ("stop-scan" if p.end == "ret" else "skip"))
        table[key] = outs
        want = "insert" if spec_dt2(sa, sb, ra, rb) == "InRange" else "skip"
        inst = "%s|%s" % (pb.path, key)
        rep.examined(rid, inst, sample={"site": pb.path, "A": sa, "B": sb, "t?A": ra, "t?B": rb, "effect": sorted(outs), "spec": want})
        if outs != {want}:
            rep.violation(rid, pb.path + "|accept", "%s: a non-null record with A=%s B=%s t%sA t%sB is %s, the window requires %s" % (
                pb.path, "Some" if sa else "None", "Some" if sb else "None", ra, rb, sorted(outs), want))
    if null_test_bad:
        rep.violation(rid, pb.path + "|null-test", "%s: the null-record test compares the time value with (0,0) using %s; only records equal to (0,0) are null, an ordering test also drops non-null records (e.g. pre-epoch times)" % (pb.path, sorted(set(null_test_bad))))
    if set(conv.values()) != {"A", "B"}:
        rep.violation(rid, pb.path + "|bounds", "%s: the two converted bounds derive from %s, expected one from the after and one from the before filter" % (pb.path, sorted(conv.values())))
    # the scan must not stop early at a record past the window: no path from the loop body returns
    for p in paths:
        if p.end == "ret":
            rep.violation(rid, pb.path + "|early-stop", "%s: the prefilter loop can return from inside the record scan (records may be out of order; all must be scanned)" % pb.path)
            break

    return pb, ins, tvc, paths


def _names(b_, op_):
    res = set()
    if op_[0] == "k":
        return res
    import flow as _fl
    nt = _fl.named_target(b_, op_, through=_fl.REF_THROUGH + ("Clone>::clone", "::clone"))
    if nt is not None and b_.local_name(nt):
        res.add(b_.local_name(nt))
    for x in b_.origins(op_, through_calls=("::deref", "::as_ref", "Clone>::clone", "::clone")):
        if x[0] in ("arg", "local"):
            nm_ = b_.local_name(x[1])
            if nm_:
                res.add(nm_)
            res.update(p_ for p_ in x[-1] if isinstance(p_, str) and p_ not in ("*", "&") and not p_.startswith("as "))
    return res


def r39(prog, rep, R39):
    """R3.9 (also lifted by C11 R11.11): no window bound is combined with the file's modification time"""
    n39 = 0
    for p_ in sorted(prog.facts.bodies):
        if not (p_.startswith("s4lib::readers::syslogprocessor::SyslogProcessor::") or p_.startswith("s4::exec_") or p_.startswith("s4lib::readers::evtxreader::EvtxReader::")
                or p_.startswith("s4lib::readers::journalreader::JournalReader::") or p_.startswith("s4lib::readers::fixedstructreader::FixedStructReader::")) or "_tests" in p_ or "{closure" in p_:
            continue
        sb_ = prog.body(p_)
        mt = set()
        for c in sb_.live_calls():
            if c.d.split("::")[-1] in ("mtime", "systemtime_to_datetime", "modified"):
                mt.add(c.bb)
        if not mt:
            continue
        n39 += 1
        hits = []
        for c in sb_.live_calls():
            last = (c.o or c.d).split("::")[-1]
            if last not in ("signed_duration_since", "sub", "lt", "le", "gt", "ge", "cmp", "partial_cmp", "eq", "ne", "duration_since", "checked_sub_signed", "max", "min"):
                continue
            has_mt = has_bound = False
            for a in c.args:
                if a[0] == "k":
                    continue
                # slack added to the modification time (`mtime + 1 day < after`) keeps its provenance
                for x in sb_.origins(a, through_calls=("::deref", "Clone>::clone", "::clone", "::unwrap", "::as_ref", "ops::Add", "ops::Sub", "checked_add", "checked_sub", "::with_timezone", "::expect", "::unwrap_or")):
                    if x[0] == "call" and (x[1] in mt or x[2].split("::")[-1] in ("mtime", "systemtime_to_datetime")):
                        has_mt = True
                nm_ = _names(sb_, a)
                if any(("after" in q or "before" in q) and "after_or_before" not in q for q in nm_):
                    has_bound = True
            if has_mt and has_bound:
                hits.append((last, c.line))
        rep.examined(R39, p_, sample={"fn": p_.split("::")[-1], "uses_mtime": True, "bound_vs_mtime_operations": hits})
        if hits:
            rep.violation(R39, p_ + "|mtime-vs-bound", "%s (line %d): a window bound is combined with the file's modification time by %s(); a log that was copied, restored or touched is then skipped (or cut) "
                          "although it holds messages inside the window - silently, exit status 0" % (p_.split("::")[-1], hits[0][1], hits[0][0]))
    if n39 == 0:
        raise CheckerError("R3.9: no SyslogProcessor method uses mtime (anchor missing)")



def run(prog, rep, tier):
    facts = prog.facts
    R31 = rep.rule("R3.1", "window predicate tables (Option shapes x orderings, exhaustive)")
    R31w = rep.rule("R3.1w", "predicate wrappers forward (t, after, before) in order")
    R32 = rep.rule("R3.2", "use-site composition: accept <=> A <= t <= B")
    R33 = rep.rule("R3.3", "both text search strategies end in the same range check")

    # ---------------- R3.1 family discovery: bodies returning the two result enums
    preds = {}
    for b in prog.bodies():
        if b.j.get("kind") == "closure":
            continue
        rty = b.local_ty(0)
        if rty == DT2:
            preds[b.path] = (b, 2)
        elif rty == DT1:
            preds[b.path] = (b, 1)
    if len(preds) < 5:
        raise CheckerError("window predicate family has %d members (expected the datetime, evtx and journal predicates)" % len(preds))
    direct = {}
    for path, (b, kind) in sorted(preds.items()):
        callees = [c for c in b.live_calls() if c.d in preds]
        if callees:
            # wrapper: must return the callee's result unchanged and forward args in order
            c = callees[0]
            key = "%s|forward" % path
            ok = True
            why = ""
            ret_or = b.origins(["cp", [0]])
            if not any(o[0] == "call" and o[2] == c.d for o in ret_or) or len(ret_or) != 1:
                ok, why = False, "does not return the result of %s unchanged" % c.d
            want = ["T", "A", "B"][: len(c.args)]
            got = []
            for i, a in enumerate(c.args):
                if i == 0:
                    got.append("T")
                    continue
                roles = role_of_operand(b, a)
                got.append("/".join(sorted(roles)) or "?")
            cal = preds[c.d][0]
            cal_roles = ["T"] + [role_by_argname(cal, i) or "F" for i in range(2, cal.argc + 1)]
            for i in range(1, len(c.args)):
                expect = cal_roles[i]
                if expect == "F":
                    continue
                if got[i] == "?":
                    raise CheckerError("%s: cannot tell from which bound argument %d of %s derives (parameter names carry the after/before roles)" % (path, i + 1, c.d))
                if got[i] != expect:
                    ok, why = False, "argument %d of %s receives %s, the callee expects the %s bound" % (i + 1, c.d, got[i], expect)
            rep.examined(R31w, key, sample={"wrapper": path, "callee": c.d, "args": got})
            if not ok:
                rep.violation(R31w, key, "%s %s" % (path, why))
            continue
        direct[path] = (b, kind)
    for path, (b, kind) in sorted(direct.items()):
        table = predicate_table(b, kind)
        bad = []
        for key, res in sorted(table.items(), key=str):
            sa, sb, ra, rb = key
            want = spec_dt2(sa, sb, ra, rb) if kind == 2 else spec_dt1(sa, ra)
            inst = "%s|%s" % (path, key)
            rep.examined(R31, inst, sample={"fn": path, "A": "Some" if sa else "None", "B": ("Some" if sb else "None") if kind == 2 else "-",
                                            "t?A": ra, "t?B": rb, "returns": sorted(map(str, res)), "spec": want})
            if res != {want}:
                bad.append((key, sorted(map(str, res)), want))
        if bad:
            k0 = bad[0]
            rep.violation(R31, "%s|table" % path,
                          "%s: for A=%s B=%s t%sA t%sB it returns %s, the window semantics require %s (%d table rows differ)" % (
                              path, "Some" if k0[0][0] else "None", "Some" if k0[0][1] else "None", k0[0][2], k0[0][3], k0[1], k0[2], len(bad)),
                          {"rows": [str(x) for x in bad]})
    rep.exhaustive.append("R3.1: all Option shapes x all consistent orderings of t against each bound, for every predicate")
    rep.floor(R31, 5 * 3)

    # ---------------- R3.2 (a) text reader
    fb = prog.body("s4lib::readers::syslinereader::SyslineReader::find_sysline_between_datetime_filters")
    cs = [c for c in fb.live_calls() if c.d in preds]
    if len(cs) > 1:
        # the deciding call is the last one (no other predicate call can follow it); an earlier one is
        # tolerated when its verdict is only compared with a constant other than InRange, i.e. it can
        # only affect what happens to messages *outside* the window (e.g. "past the window: look further")
        finals_ = [c_ for c_ in cs if not any(o_ is not c_ and o_.bb in fb.reachable_after(c_.bb) and c_.bb not in fb.reachable_after(o_.bb) for o_ in cs)]
        extras_ = [c_ for c_ in cs if c_ not in finals_]
        ok_extra = len(finals_) == 1
        for e_ in extras_:
            cmp_ = [q_ for q_ in fb.live_calls() if q_.d.split("::")[-1] in ("eq", "ne") and any(x_[0] == "call" and x_[1] == e_.bb for a_ in q_.args for x_ in fb.origins(a_))]
            consts_ = set()
            for q_ in cmp_:
                for a_ in q_.args:
                    for x_ in fb.origins(a_):
                        if x_[0] == "const":
                            consts_.add(str(x_[1]))
            if not cmp_ or any("InRange" in k_ for k_ in consts_):
                ok_extra = False
            rep.examined(R32, "%s|extra-predicate-use@%d" % (fb.path, e_.line), sample={"line": e_.line, "compared_with": sorted(consts_)[:3]})
        if not ok_extra:
            raise CheckerError("find_sysline_between_datetime_filters: %d window predicate calls" % len(cs))
        cs = finals_
    if len(cs) != 1:
        raise CheckerError("find_sysline_between_datetime_filters: %d window predicate calls" % len(cs))
    c = cs[0]
    names = variant_names(prog, DT2)
    swbb, arms, otherwise = result_arms(fb, c)
    key = "%s|accept" % fb.path
    for vidx, target in sorted(arms.items()):
        vname = names[vidx]
        outs = set()
        for p in enumerate_paths(fb, target, _is_ret(fb), opaque_ok=lambda bb: True):
            if p.end == "ret":
                full = decide.Path((swbb,) + p.blocks, p.decisions, p.end)
                outs.add(returned_variant(fb, full))
        want = {"Found"} if vname == "InRange" else {"Done"}
        rep.examined(R32, "%s|%s" % (key, vname), sample={"site": fb.path, "predicate": c.d, "variant": vname, "returns": sorted(map(str, outs))})
        if outs != want:
            rep.violation(R32, "%s|%s" % (key, vname), "%s: predicate result %s leads to %s, expected %s" % (fb.path, vname, sorted(map(str, outs)), sorted(want)))
    # argument roles at the call
    for i, want in ((1, "A"), (2, "B")):
        got = role_of_operand(fb, c.args[i])
        if not got:
            raise CheckerError("%s: cannot tell from which bound argument %d derives" % (fb.path, i + 1))
        rep.examined(R32, "%s|arg%d" % (key, i), sample={"site": fb.path, "arg": i + 1, "derives_from": sorted(got)})
        if got != {want}:
            rep.violation(R32, "%s|arg%d" % (key, i), "%s: argument %d of %s derives from %s, expected the %s bound" % (fb.path, i + 1, c.d, sorted(got), want))

    # ---------------- R3.3
    found_blocks = []
    for bb in sorted(fb.live):
        for s in fb.stmts(bb):
            if s[0] == "=" and s[1] == [0] and s[2][0] == "agg" and isinstance(s[2][1], dict) and s[2][1].get("variant") == "Found":
                found_blocks.append(bb)
    searches = [cc for cc in fb.live_calls() if "find_sysline_at_datetime_filter" in cc.d]
    rep.examined(R33, fb.path + "|postdom", sample={"searches": [cc.d.split("::")[-1] for cc in searches], "found_blocks": found_blocks, "range_check_block": c.bb})
    if len(searches) < 2:
        rep.violation(R33, fb.path + "|strategies", "%s: expected a linear and a binary search call, found %s" % (fb.path, [cc.d for cc in searches]))
    if not found_blocks:
        raise CheckerError("find_sysline_between_datetime_filters never returns Found")
    reach_wo = fb.reachable(0, {c.bb})
    for bb in found_blocks:
        if bb in reach_wo:
            rep.violation(R33, fb.path + "|postdom", "%s: a Found result (bb%d, line %s) can be returned without passing the range check %s" % (
                fb.path, bb, fb.blocks[bb].get("l"), c.d))
    streamed = [cc for cc in fb.live_calls() if cc.d.endswith("::is_streamed_file")]
    rep.examined(R33, fb.path + "|selector", sample={"selector_calls": [cc.d for cc in streamed]})
    if len(streamed) != 1:
        rep.violation(R33, fb.path + "|selector", "%s: search strategy is not selected by is_streamed_file()" % fb.path)
    else:
        sd = decide.switch_decisions(fb, streamed[0].target) if fb.term(streamed[0].target)[0] == "switch" else None
        t = fb.term(streamed[0].target)
        if t[0] != "switch" or op_local(t[1]) != streamed[0].dest[0]:
            rep.violation(R33, fb.path + "|selector", "%s: is_streamed_file() result does not select the strategy" % fb.path)
        else:
            tmap = {int(v): b for v, b in t[2]}
            false_t = tmap.get(0)
            true_t = t[3]
            lin = [cc for cc in searches if "linear" in cc.d]
            bi = [cc for cc in searches if "binary" in cc.d]
            if lin and bi:
                if not (fb.reaches(true_t, lin[0].bb, {false_t}) and fb.reaches(false_t, bi[0].bb, {true_t})) or \
                        fb.reaches(true_t, bi[0].bb, {false_t}) or fb.reaches(false_t, lin[0].bb, {true_t}):
                    rep.violation(R33, fb.path + "|selector", "%s: streamed files must use the linear search and plain files the binary search" % fb.path)

    fixedstruct_window(prog, rep, R32)

    # ---------------- R3.2 (c) evtx reader
    eb = prog.body("s4lib::readers::evtxreader::EvtxReader::analyze")
    cs = [cc for cc in eb.live_calls() if cc.d in preds]
    eins = [cc for cc in eb.live_calls() if "BTreeMap" in cc.d and cc.d.endswith("::insert")]
    if len(cs) != 1 or len(eins) != 1:
        raise CheckerError("EvtxReader::analyze: %d predicate calls, %d inserts" % (len(cs), len(eins)))
    c, ins = cs[0], eins[0]
    swbb, arms, otherwise = result_arms(eb, c)
    hdrs = set(h for (_, h) in eb.back_edges())
    for vidx, target in sorted(arms.items()):
        vname = names[vidx]
        reach = ins.bb in eb.reachable(target, hdrs)
        must = eb.must_pass(target, next(iter(hdrs)), {ins.bb}) if hdrs else reach
        rep.examined(R32, "%s|%s" % (eb.path, vname), sample={"site": eb.path, "variant": vname, "reaches_insert": reach})
        if vname == "InRange":
            if not (reach and must):
                rep.violation(R32, "%s|%s" % (eb.path, vname), "%s: an InRange record does not always reach the index insert" % eb.path)
        elif reach:
            rep.violation(R32, "%s|%s" % (eb.path, vname), "%s: a record judged %s still reaches the index insert" % (eb.path, vname))
    for i, want in ((1, "A"), (2, "B")):
        got = role_of_operand(eb, c.args[i])
        if not got:
            raise CheckerError("%s: cannot tell from which bound argument %d derives" % (eb.path, i + 1))
        rep.examined(R32, "%s|arg%d" % (eb.path, i), sample={"site": eb.path, "arg": i + 1, "derives_from": sorted(got)})
        if got != {want}:
            rep.violation(R32, "%s|arg%d" % (eb.path, i), "%s: argument %d of %s derives from %s, expected the %s bound" % (eb.path, i + 1, c.d, sorted(got), want))

    # ---------------- R3.2 (d) journal reader
    jb = prog.body("s4lib::readers::journalreader::JournalReader::next_common")
    cs = [cc for cc in jb.live_calls() if cc.d in preds]
    if len(cs) != 1:
        raise CheckerError("JournalReader::next_common: %d predicate calls" % len(cs))
    c = cs[0]
    jkind = preds[c.d][1]
    jpred = preds[c.d][0]
    # composed accept: use the callee's verified table (R3.1) and the arm mapping
    swbb, arms, otherwise = result_arms(jb, c)
    jnames = variant_names(prog, DT2 if jkind == 2 else DT1)
    arm_effect = {}
    for vidx, target in sorted(arms.items()):
        outs = set()
        for p in enumerate_paths(jb, target, _is_ret(jb), opaque_ok=lambda bb: True):
            if p.end == "ret":
                outs.add(returned_variant(jb, decide.Path((swbb,) + p.blocks, p.decisions, p.end)))
        arm_effect[jnames[vidx]] = outs
    # which bound goes where
    argroles = []
    for i in range(1, len(c.args)):
        argroles.append(role_of_operand(jb, c.args[i]))
    # the lower bound is applied by the seek in analyze(); here only the upper bound stops the walk
    if jkind == 2:
        lower_none = any(r.startswith("const:") and "None" in r for r in argroles[0]) if argroles[0] else False
        upper = argroles[1]
        shapes = [(0, 1), (0, 0)] if lower_none else [(1, 1), (1, 0), (0, 1), (0, 0)]
        tab = predicate_table(jpred, 2)
        for (sa, sb) in shapes:
            for (ra, rb) in RELS:
                res = tab[(sa, sb, ra, rb)]
                eff = set()
                for v in res:
                    eff |= arm_effect.get(v, {"?"})
                # accept (Found) iff t <= B when B is set; lower bound not applied here
                want = "Done" if (sb and rb == ">") else "Found"
                if sa and ra == "<":
                    want = None  # below the lower bound: either is tolerated (seek already skipped these)
                inst = "%s|%s" % (jb.path, (sa, sb, ra, rb))
                rep.examined(R32, inst, sample={"site": jb.path, "A": sa, "B": sb, "t?A": ra, "t?B": rb, "effect": sorted(map(str, eff)), "spec": want})
                if want and eff != {want}:
                    rep.violation(R32, jb.path + "|accept", "%s: entry with t%sB (before-bound %s) yields %s, the inclusive window requires %s" % (
                        jb.path, rb, "set" if sb else "unset", sorted(map(str, eff)), want))
        if upper != {"B"}:
            rep.violation(R32, jb.path + "|bounds", "%s: the upper-bound argument derives from %s, expected the before filter" % (jb.path, sorted(upper)))
    else:
        # one-bound predicate (dt_after_or_before style): accept <=> not(t >= F) is exclusive -> wrong for an inclusive bound
        tab = predicate_table(jpred, 1)
        for sf in (0, 1):
            for r in "<=>":
                res = tab[(sf, None, r, None)]
                eff = set()
                for v in res:
                    eff |= arm_effect.get(v, {"?"})
                want = "Done" if (sf and r == ">") else "Found"
                inst = "%s|%s" % (jb.path, (sf, r))
                rep.examined(R32, inst, sample={"site": jb.path, "B": sf, "t?B": r, "effect": sorted(map(str, eff)), "spec": want})
                if eff != {want}:
                    rep.violation(R32, jb.path + "|accept", "%s: entry with t%sB (before-bound %s) yields %s, the inclusive window requires %s" % (
                        jb.path, r, "set" if sf else "unset", sorted(map(str, eff)), want))
        if argroles and argroles[0] != {"B"}:
            rep.violation(R32, jb.path + "|bounds", "%s: the bound argument derives from %s, expected the before filter" % (jb.path, sorted(argroles[0])))
    rep.exhaustive.append("R3.2: all Option shapes x consistent orderings at the fixedstruct, evtx and journal use sites; all result variants at the text use site")
    rep.floor(R32, 30)

    # ---------------- R3.5 (lifted from C11 R11.5): year-less logs: the year pre-pass stops only strictly before A
    R35 = rep.rule("R3.5", "year inference for year-less logs covers every message at or after A (lifted from C11 R11.5)")
    import contextlib as _cl, io as _io
    import c11 as _c11
    from common import Report as _Rep
    _sub = _Rep("C11", "quick", dict(rep.meta))
    _sub.finish = lambda *a, **k: 0
    with _cl.redirect_stdout(_io.StringIO()):
        _c11.run(prog, _sub, "quick")
    for (rid_, key_, what_, det_) in _sub.violations:
        if rid_ == "R11.5":
            rep.violation(R35, key_.split("|", 1)[1], what_)
    for s_ in _sub.rules.get("R11.5", {}).get("samples", []):
        rep.examined(R35, str(s_)[:70], sample=s_)

    # ---------------- R3.10 (lifted from C14 R14.10/R14.2): the bounds A and B themselves are the ones the user wrote
    R310 = rep.rule("R3.10", "the window bounds are resolved from the arguments without losing sub-second digits or the has_time/has_tz completion, equal bounds are a valid window, relative bounds keep their base (lifted from C14 R14.2, R14.3, R14.5, R14.10)")
    import c14 as _c14
    _sub14 = _Rep("C14", "quick", dict(rep.meta))
    _sub14.finish = lambda *a, **k: 0
    with _cl.redirect_stdout(_io.StringIO()):
        _c14.run(prog, _sub14, "quick")
    # R14.3: a window with A == B is accepted (both bounds are inclusive; only A > B is rejected);
    # R14.5: a bound written relative to the other bound / to the program start is resolved from that base unaltered
    L310 = ("R14.10", "R14.2", "R14.3", "R14.5")
    for (rid_, key_, what_, det_) in _sub14.violations:
        if rid_ in L310:
            rep.violation(R310, (key_.split("|", 1)[1] if "|" in key_ else key_) + ("" if rid_ in ("R14.10", "R14.2") else "|" + rid_), what_)
    n310 = 0
    for rid_ in L310:
        for k_ in _sub14.rules.get(rid_, {}).get("keys", []):
            n310 += 1
            rep.examined(R310, "%s|%s" % (rid_, str(k_)[:80]), sample={"rule": rid_, "instance": str(k_)[:120]})
    if n310 < 40:
        raise CheckerError("R3.10: only %d lifted C14 instances" % n310)

    # ------------------------------------------------------------ R3.12 bounds and message times are converted without losing the instant
    # The window compares instants.  Every reader converts the bounds (a DateTime with the user's
    # offset) into its own time type, or its records' times into DateTimes: evtx to Utc timestamps,
    # journal to microseconds, accounting records to (sec, usec) pairs.  A conversion that reads the
    # wall clock of a zoned value back as UTC (naive_local -> from_utc) shifts the window by the
    # bound's offset for that kind of source only.  Shared chrono discipline lint (instant.py) over the
    # whole library.
    import instant as _inst3
    R312 = rep.rule("R3.12", "conversions between window bounds, record times and DateTimes preserve the instant (all readers)")
    n312 = _inst3.check(prog, rep, R312, lambda p_: (p_.startswith("s4lib::readers::") or p_.startswith("s4lib::data::")) and "_tests" not in p_,
                        "the -a/-b window is then shifted by the bound's own UTC offset for this kind of source")
    if n312 < 10:
        raise CheckerError("R3.12: only %d chrono conversion sites found in the library" % n312)

    # ------------------------------------------------------------ R3.8 the search functions classify through the window predicates only
    # The three searches for the first message at or after --dt-after (dispatcher, binary search for
    # plain files, linear search for streamed/compressed files) must agree on what "at or after" means.
    # They do as long as each decides through the shared classification helpers, whose tables R3.1
    # decides; a datetime comparison written out inside one of them (`dt <= filter`) can disagree at
    # equality with its sibling.  No direct ordering comparison of datetimes may appear in them.
    R38 = rep.rule("R3.8", "the --dt-after searches compare datetimes only through the window predicates (sibling agreement)")
    SRq = "s4lib::readers::syslinereader::SyslineReader::"
    for fn_ in ("find_sysline_at_datetime_filter", "find_sysline_at_datetime_filter_binary_search", "find_sysline_at_datetime_filter_linear_search"):
        sb_ = prog.body(SRq + fn_)
        direct = []
        helpers = 0
        for c in sb_.live_calls():
            last = (c.o or c.d).split("::")[-1]
            if last in ("dt_after_or_before", "sysline_dt_after_or_before", "dt_pass_filters", "sysline_pass_filters") or c.d.endswith("find_sysline_at_datetime_filter_binary_search") or c.d.endswith("find_sysline_at_datetime_filter_linear_search"):
                helpers += 1
            if last in ("lt", "le", "gt", "ge", "cmp", "partial_cmp", "eq", "ne", "max", "min"):
                st_ = str(c.callee.get("self") or "") + " " + " ".join(str(sb_.local_ty(op_local(a))) for a in c.args if op_local(a) is not None)
                if "DateTime" in st_:
                    direct.append((last, c.line))
        rep.examined(R38, SRq + fn_, sample={"fn": fn_, "classification_calls": helpers, "direct_datetime_comparisons": direct})
        if direct:
            rep.violation(R38, SRq + fn_ + "|direct-comparison", "%s compares datetimes directly (%s at line %d) instead of through the window predicates; its answer at equality can differ from the sibling search "
                          "(plain files take the binary search, compressed files the linear one), so messages stamped exactly at --dt-after appear for one kind of file and not for the other" % (fn_, direct[0][0], direct[0][1]))
        if helpers == 0 and not direct:
            raise CheckerError("%s: no classification call (idiom not recognised)" % fn_)

    # ------------------------------------------------------------ R3.7 each bound goes to the predicate written for it
    # dt_after_or_before(dt, f) classifies against the *lower* bound: equality means "at or after", which
    # is inside the window.  Handing it the upper bound makes the upper bound exclusive (a message
    # exactly on --dt-before is dropped).  Checked by the names the argument is derived from: a value
    # whose provenance says "before" must never reach an after-role parameter, and vice versa.
    R37 = rep.rule("R3.7", "the lower-bound predicates receive the --dt-after bound, the two-bound predicates receive (after, before)")
    AFTER_ROLE = ("dt_after_or_before", "sysline_dt_after_or_before", "entry_dt_after_or_before", "find_sysline_at_datetime_filter",
                  "find_sysline_at_datetime_filter_binary_search", "find_sysline_at_datetime_filter_linear_search")
    TWO = ("dt_pass_filters", "sysline_pass_filters", "entry_pass_filters", "find_sysline_between_datetime_filters", "ts_pass_filters")

    n37 = 0
    for b_ in prog.bodies():
        if not (b_.path.startswith("s4lib::") or b_.path.startswith("s4::")) or "_tests" in b_.path:
            continue
        for c in b_.live_calls():
            if not c.d.startswith("s4lib::"):
                continue
            last = c.d.split("::")[-1]
            if last in AFTER_ROLE and len(c.args) >= 2:
                n37 += 1
                fa = c.args[-1] if last.startswith("find_sysline_at") else c.args[1]
                nm_ = _names(b_, fa)
                bad_ = sorted(x for x in nm_ if "before" in x and "after_or_before" not in x)
                rep.examined(R37, "%s|%s" % (b_.path, last), sample={"site": b_.path.split("::")[-1], "callee": last, "bound_argument_names": sorted(nm_)})
                if bad_:
                    rep.violation(R37, "%s|%s|role" % (b_.path, last), "%s (line %d): %s() classifies against the lower bound (equality counts as inside) but receives %s; used on --dt-before it makes the upper bound exclusive, "
                                  "so a message exactly on --dt-before is not printed" % (b_.path.split("::")[-1], c.line, last, bad_))
            elif last in TWO and len(c.args) >= 3:
                n37 += 1
                a_, bb_ = (c.args[-2], c.args[-1])
                na, nb = _names(b_, a_), _names(b_, bb_)
                rep.examined(R37, "%s|%s" % (b_.path, last), sample={"site": b_.path.split("::")[-1], "callee": last, "after_argument_names": sorted(na), "before_argument_names": sorted(nb)})
                if any("before" in x for x in na) or any("after" in x for x in nb):
                    rep.violation(R37, "%s|%s|role" % (b_.path, last), "%s (line %d): %s() receives its bounds in the wrong roles (after-slot: %s, before-slot: %s)" % (b_.path.split("::")[-1], c.line, last, sorted(na), sorted(nb)))
    if n37 < 8:
        raise CheckerError("R3.7: only %d predicate call sites found (10 on the pinned tree)" % n37)

    # ------------------------------------------------------------ R3.9 the window is applied to message datetimes, never to the file's modification time
    # "Every message with A <= t <= B is printed": whether a file is searched at all must not be decided
    # from its modification time (a copied, restored or touched file is older than its messages; a
    # future-dated message is younger than any mtime).  No comparison or subtraction in the text-log
    # processor may combine a window bound with a value derived from mtime().
    R39 = rep.rule("R3.9", "no window bound is compared with the file's modification time")
    r39(prog, rep, R39)

    # ------------------------------------------------------------ R3.11 an empty selection is not an error
    # "An empty selection prints nothing and is not an error": processing_loop ends with a failure status
    # when any file's Summary carries an error.  In every worker, the arm for "nothing lies within the
    # datetime window" (variants named ...InDtRange / ...WithinDtFilters) has to build its failed-summary
    # with error None.
    import re as _re3
    R311 = rep.rule("R3.11", "the 'nothing within the window' arms of the workers report no error (the exit status stays 0)")
    n311 = 0
    dt_arms = 0
    for p_ in sorted(prog.facts.bodies):
        if not p_.startswith("s4::exec_") or "{closure" in p_:
            continue
        wb_ = prog.body(p_)
        for c in wb_.live_calls():
            if not c.d.endswith("Summary::new_failed"):
                continue
            n311 += 1
            ctl = None
            for sbb in sorted(wb_.live):
                t = wb_.term(sbb)
                if t[0] == "switch" and sbb != c.bb and wb_.dominates(sbb, c.bb):
                    for v_, tb_ in t[2]:
                        if wb_.pred[tb_] == [sbb] and wb_.dominates(tb_, c.bb):
                            if ctl is None or wb_.dominates(ctl[0], sbb):
                                ctl = (sbb, int(v_), t[1])
            vname = None
            if ctl is not None:
                for o2 in wb_.origins(ctl[2]):
                    if o2[0] == "discr":
                        st2 = wb_.stmts(o2[1])[o2[2]]
                        ty_ = (wb_.local_ty(st2[2][1][0]) or "").split("<")[0].lstrip("&").strip()
                        adt_ = prog.facts.adts.get(ty_)
                        if adt_:
                            for va_ in adt_.get("variants", []):
                                if str(va_.get("discr")) == str(ctl[1]):
                                    vname = va_["name"]
            errs = set()
            for o_ in wb_.origins(c.args[-1]):
                if o_[0] == "agg":
                    k_ = wb_.stmts(o_[1])[o_[2]][2][1]
                    errs.add(k_.get("variant") if isinstance(k_, dict) else "?")
                else:
                    errs.add(o_[0])
            is_dt = bool(vname and _re3.search(r"(InDtRange|WithinDtFilters|DtFilter|OutsideDt)", vname))
            dt_arms += 1 if is_dt else 0
            rep.examined(R311, "%s|new_failed@%s" % (p_, vname or "?"), sample={"worker": p_.split("::")[-1], "arm": vname, "error_argument": sorted(map(str, errs)), "is_empty_selection_arm": is_dt})
            if is_dt and errs != {"None"}:
                rep.violation(R311, "%s|new_failed@%s|error" % (p_, vname), "%s: the arm for %s builds its summary with an error (%s); processing_loop turns any summary error into exit status 1, "
                              "so a window that selects none of this file's records makes the whole run fail although nothing went wrong" % (p_.split("::")[-1], vname, sorted(map(str, errs))))
    if n311 < 6 or dt_arms < 1:
        raise CheckerError("R3.11: %d failed-summary sites, %d empty-selection arms (expected >= 6, >= 1)" % (n311, dt_arms))

    # ------------------------------------------------------------ R3.6 the lower-bound search uses the ordering only
    # find_sysline_at_datetime_filter_binary_search must return the FIRST message at or after the bound.
    # With several messages at exactly the bound, a probe that lands on one of them is not the answer
    # unless nothing earlier qualifies; a lower-bound search may therefore branch on the window
    # classification (before / at-or-after) but never on *equality* of a message's datetime with the
    # bound (an equality short-cut returns whichever tie the probe happened to hit).
    R36 = rep.rule("R3.6", "the binary search for the first message at or after the bound never tests datetimes for equality")
    bs = prog.body("s4lib::readers::syslinereader::SyslineReader::find_sysline_at_datetime_filter_binary_search")
    eqs = []
    ncmp = 0
    for c in bs.live_calls():
        tr = c.callee.get("trait") or ""
        last = (c.o or c.d).split("::")[-1]
        if "PartialEq" in tr or "PartialOrd" in tr or last in ("eq", "ne", "lt", "le", "gt", "ge", "cmp", "partial_cmp"):
            ncmp += 1
            st_ = str(c.callee.get("self") or "") + " " + " ".join(str(bs.local_ty(op_local(a))) for a in c.args if op_local(a) is not None)
            if last in ("eq", "ne") and "DateTime" in st_:
                eqs.append(c)
    for bb in sorted(bs.live):
        for s_ in bs.stmts(bb):
            if s_[0] == "=" and s_[2][0] == "bin" and s_[2][1] in ("Eq", "Ne"):
                tys = " ".join(str(bs.local_ty(op_local(a))) for a in (s_[2][2], s_[2][3]) if op_local(a) is not None)
                if "DateTime" in tys:
                    eqs.append(None)
    cls = [c for c in bs.live_calls() if c.d.endswith("::dt_after_or_before") or c.d.endswith("::sysline_dt_after_or_before")]
    rep.examined(R36, bs.path, sample={"comparison_calls": ncmp, "datetime_equality_tests": len(eqs), "window_classifications": len(cls)})
    if not cls:
        raise CheckerError("binary search: no window classification call (idiom not recognised)")
    if eqs:
        ln = eqs[0].line if eqs[0] is not None else 0
        rep.violation(R36, bs.path + "|equality", "find_sysline_at_datetime_filter_binary_search tests a message's datetime for equality with the bound (line %d); among several messages at exactly --dt-after "
                      "the search then returns the one the probe hit, and the ties before it are dropped from the window" % ln)

    return rep.finish(
        "Static necessary-condition check: (R3.1) complete decision tables of every window predicate over Option shapes x orderings, "
        "(R3.2) composition of those tables with each reader's handling of the result so that accept <=> A <= t <= B at the text, "
        "accounting-record, event-log and journal use sites, (R3.3) both text search strategies are followed by the same range check. "
        "Evaluations count table rows and use-site cases; all finite domains are enumerated completely.",
        ["that the binary/linear search locates the first qualifying message", "order preservation inside the readers",
         "monotonicity of the bound conversions (datetime -> time value / microseconds)", "sub-microsecond truncation"])
