"""C02 — every message of a text log is printed exactly once, byte for byte (hand-over stages).

Decides only the hand-over stages; the reassembly arithmetic (find_line, LinePart stitching,
find_sysline_year, block-zero pattern choice) is outside static reach and not claimed:
  R2.1 cursor threading in the streaming loop of exec_syslogprocessor: the offset given to the next
       find call is the offset returned inside the previous Found, and each Found message is moved
       into exactly one NewMessage send before the next find.
  R2.2 the undecorated printers traverse sysline.lines and line.lineparts forward, once, without
       adapters, and hand every part to a sink.
  R2.3 the supplied final newline: in the Sysline arm of processing_loop write_stdout(newline) is
       executed only under is_last && !ends_with_newline.
  R2.4 bytes reach stdout in the order they were handed to the printer: a slice is written directly
       to stdout only after the pending printer buffer was written (all printer variants).
Does not decide: find_line / find_line_in_block newline search, LinePart stitching across blocks,
find_sysline_year grouping, cache-history dependence, block-zero pattern choice.
"""
import decide
import c13
from mir import CheckerError, op_local

W = "s4::exec_syslogprocessor"
PL = "s4::processing_loop"


def run(prog, rep, tier):
    R21 = rep.rule("R2.1", "cursor threading and single send per found message")
    R22 = rep.rule("R2.2", "printers traverse lines and parts forward, once, no adapters")
    R23 = rep.rule("R2.3", "final newline supplied only for an unterminated last message")
    R24 = rep.rule("R2.4", "direct stdout writes happen after the pending buffer was written")

    # ------------------------------------------------------------ R2.1
    b = prog.body(W)
    finds = [c for c in b.live_calls() if c.d.endswith("::find_sysline_between_datetime_filters") and any(c.bb in b.loop_blocks(h) for t, h in b.back_edges())]
    if len(finds) != 1:
        raise CheckerError("exec_syslogprocessor: %d streaming find calls" % len(finds))
    fc = finds[0]
    h = min([hh for t, hh in b.back_edges() if fc.bb in b.loop_blocks(hh)], key=lambda x: len(b.loop_blocks(x)))
    L = b.loop_blocks(h)
    # the offset argument is a loop-carried variable whose in-loop definition is the Found payload .0
    from c08 import var_of
    ov = var_of(b, fc.args[1])
    if ov is None:
        raise CheckerError("exec_syslogprocessor: offset argument of the streaming find is not a variable")
    indefs = [d for d in b.defs.get(ov, []) if d[0] in L]
    okthread = False
    for d in indefs:
        if d[1] != "call" and d[2][0] == "use":
            o = b.origins(d[2][1])
            if o and all(x[0] == "call" and x[1] == fc.bb and "as Found" in x[3] and x[3][-1] == "0" for x in o):
                okthread = True
    rep.examined(R21, W + "|cursor", sample={"offset_variable": b.local_name(ov), "in_loop_definitions": len(indefs), "is_previous_found_offset": okthread})
    if len(indefs) != 1 or not okthread:
        rep.violation(R21, W + "|cursor", "exec_syslogprocessor: the offset passed to the next find is not exactly the offset returned with the previous message (re-using the old offset repeats a message, anything else skips or splits one)")
    # the cursor is advanced on every way round the loop that sent a message
    sends = []
    for c in b.live_calls():
        if c.d == "s4::chan_send" and c.bb in L:
            for x in b.origins(c.args[1]):
                if x[0] == "agg" and isinstance(b.stmts(x[1])[x[2]][2][1], dict) and b.stmts(x[1])[x[2]][2][1].get("variant") == "NewMessage":
                    sends.append(c)
    rep.examined(R21, W + "|send", sample={"NewMessage_sends_in_loop": len(sends)})
    if len(sends) != 1:
        rep.violation(R21, W + "|send", "exec_syslogprocessor: a found message is sent %d times per iteration" % len(sends))
    else:
        snd = sends[0]
        # the message sent is the Found payload of this iteration's find
        mo = b.origins(snd.args[1])
        payload_ok = False
        for x in mo:
            if x[0] == "agg":
                st = b.stmts(x[1])[x[2]]
                inner = st[2][2][0]
                for y in b.origins(inner):
                    if y[0] == "agg":
                        st2 = b.stmts(y[1])[y[2]]
                        for z in b.origins(st2[2][2][0], through_calls=("::clone",)):
                            if z[0] == "call" and z[1] == fc.bb and "as Found" in z[3]:
                                payload_ok = True
        defblocks = [d[0] for d in indefs]
        # every path from the send to the loop header passes the cursor update (or leaves the loop)
        skip = any(h in b.reachable(snd.target, set(defblocks) | {h} - {h}) and not b.must_pass(snd.target, h, set(defblocks)) for _ in [0]) if defblocks else True
        before = [d for d in defblocks if b.dominates(d, snd.bb)]
        ok_adv = bool(defblocks) and (snd.target in defblocks or b.must_pass(snd.target, h, set(defblocks)) or bool(before))
        rep.examined(R21, W + "|advance", sample={"sent_message_is_this_iterations_found": payload_ok, "cursor_advanced_on_every_way_round": ok_adv})
        if not payload_ok:
            rep.violation(R21, W + "|payload", "exec_syslogprocessor: the message sent is not the one returned by this iteration's find")
        if not ok_adv:
            rep.violation(R21, W + "|advance", "exec_syslogprocessor: after sending a message the loop can go round without advancing the cursor; the same message would be found and printed again")
        # send dominated by the Found arm and before next find
        if not b.dominates(fc.bb, snd.bb):
            rep.violation(R21, W + "|order", "exec_syslogprocessor: the send is not preceded by the find of the same iteration")

    # ------------------------------------------------------------ R2.2
    checked = 0
    for p in sorted(prog.facts.bodies):
        if not p.startswith(c13.PR + "print_sysline") or "{closure" in p or p.endswith("::print_sysline"):
            continue
        pb = prog.body(p)
        nexts = [c for c in pb.live_calls() if c.o.endswith("Iterator::next")]
        tys = [c.callee.get("self") or "" for c in nexts]
        lines_it = [t for t in tys if "Line>" in t or "data::line::Line" in t]
        parts_it = [t for t in tys if "LinePart" in t]
        bad = [t for t in tys if any(a in t for a in ("Rev<", "Skip<", "StepBy<", "Take<", "Filter<", "Peekable<", "SkipWhile<", "TakeWhile<")) and ("Line" in t)]
        uses_print_line = any(c.d == c13.PR + "print_line" for c in pb.live_calls())
        checked += 1
        rep.examined(R22, p, sample={"variant": p.split("::")[-1], "line_iterators": lines_it[:2], "part_iterators": parts_it[:2], "delegates_to_print_line": uses_print_line})
        if bad:
            rep.violation(R22, p + "|adapter", "%s: lines/parts are traversed through %s; parts would be skipped, repeated or reordered" % (p.split("::")[-1], bad))
        if not lines_it:
            rep.violation(R22, p + "|lines", "%s: does not iterate the message's lines" % p.split("::")[-1])
        elif not any(t.startswith("std::slice::Iter<") for t in lines_it):
            rep.violation(R22, p + "|lines", "%s: the message's lines are not traversed with a plain forward slice iterator (%s)" % (p.split("::")[-1], lines_it))
        if not parts_it and not uses_print_line:
            rep.violation(R22, p + "|parts", "%s: does not iterate the line parts" % p.split("::")[-1])
    plb = prog.body(c13.PR + "print_line")
    ptys = [c.callee.get("self") or "" for c in plb.live_calls() if c.o.endswith("Iterator::next")]
    rep.examined(R22, plb.path, sample={"part_iterators": ptys})
    if not any(t.startswith("std::slice::Iter<") and "LinePart" in t for t in ptys):
        rep.violation(R22, plb.path + "|parts", "print_line: line parts are not traversed with a plain forward slice iterator (%s)" % ptys)
    if checked < 8:
        raise CheckerError("only %d sysline print variants found" % checked)

    # ------------------------------------------------------------ R2.3
    lb = prog.body(PL)
    ws = [c for c in lb.live_calls() if c.d.endswith("printers::write_stdout")]
    nl = []
    for w in ws:
        for x in lb.origins(w.args[0], through_calls=c13.TH):
            if x[0] == "const" and ("10" in x[1] or "\\n" in x[1]):
                nl.append(w)
    ew = [c for c in lb.live_calls() if c.d.endswith("Sysline::ends_with_newline")]
    rep.examined(R23, PL + "|newline", sample={"newline_writes": len(nl), "ends_with_newline_tests": len(ew)})
    if len(nl) != 1 or len(ew) != 1:
        rep.violation(R23, PL + "|newline", "processing_loop: expected exactly one supplied-newline write guarded by one ends_with_newline test (found %d, %d)" % (len(nl), len(ew)))
    else:
        w, e = nl[0], ew[0]
        t = lb.term(e.target)
        ok = False
        guard_last = False
        if t[0] == "switch":
            arms = {int(v): tb for v, tb in t[2]}
            # the write must be under ends_with_newline == false
            o = lb.origins(t[1], through_calls=("::not",))
            negated = any(d[1] != "call" and d[2][0] == "un" and d[2][1] == "Not" for d in lb.defs.get(op_local(t[1]) or -1, []))
            nz = t[3] if 0 in arms else arms.get(1)
            z = arms.get(0)
            false_t = nz if negated else z
            ok = false_t is not None and lb.dominates(false_t, w.bb)
        # and under is_last
        for bb in sorted(lb.live):
            tt = lb.term(bb)
            if tt[0] == "switch" and len(tt) > 4 and tt[4] == "bool":
                from c08 import var_of as _v
                v = _v(lb, tt[1])
                is_last_flow = any(x[0] == "call" and x[2].endswith("::min_by") and "1" in x[3] for x in lb.origins(tt[1]))
                if is_last_flow or (v is not None and (lb.local_name(v) or "").startswith("is_last")):
                    arms2 = {int(vv): tb for vv, tb in tt[2]}
                    tr = tt[3] if 0 in arms2 else arms2.get(1)
                    if tr is not None and lb.dominates(tr, w.bb):
                        guard_last = True
        if not ok:
            rep.violation(R23, PL + "|newline|cond", "processing_loop: a newline is supplied although the message already ends with one (or the test is inverted)")
        if not guard_last:
            rep.violation(R23, PL + "|newline|last", "processing_loop: a newline can be supplied after a message that is not the file's last")

    # ------------------------------------------------------------ R2.4
    n = 0
    for p in sorted(prog.facts.bodies):
        if not p.startswith(c13.PR + "print_") or "{closure" in p:
            continue
        pb = prog.body(p)
        flushes = []
        directs = []
        for c in pb.live_calls():
            if not c.o.endswith("io::Write::write_all"):
                continue
            selfty = c.callee.get("self") or ""
            if not ("Stdout" in selfty or "StandardStream" in selfty):
                continue
            cl = c13.classify(pb, c.args[1])
            if cl <= {"self.buffer"}:
                flushes.append(c)
            else:
                directs.append((c, cl))
        extends = [c for c in pb.live_calls() if c.d.endswith("::extend_from_slice") and "u8" in (c.callee.get("self") or c.f)]
        for (c, cl) in directs:
            n += 1
            # some flush must be passed on every path from the last buffer append (or entry) to this direct write:
            # i.e. with the flush blocks removed, this write is not reachable from any extend_from_slice block nor from entry
            fb = set(f.bb for f in flushes)
            starts = [e.target for e in extends if e.target is not None]
            bypass = []
            for e in extends:
                if e.target is not None and c.bb in pb.reachable(e.target, fb):
                    # reachable without flushing: only a problem if no clear happened; treat as bypass
                    bypass.append(e.bb)
            from_entry = c.bb in pb.reachable(0, fb) and bool(extends)
            inst = "%s|direct@%s" % (p, ",".join(sorted(cl)))
            rep.examined(R24, inst, sample={"fn": p.split("::")[-1], "direct_write_of": sorted(cl), "buffer_flush_sites": len(fb), "reachable_without_flush_from_append": len(bypass)})
            if not fb or bypass:
                rep.violation(R24, inst, "%s: %s bytes can be written straight to stdout while earlier bytes are still pending in the printer buffer; those earlier bytes come out later, so the message's bytes are reordered (only when a part is larger than the buffer, hence dependent on --blocksz)" % (
                    p.split("::")[-1], sorted(cl)))
    rep.floor(R24, 10)

    # ------------------------------------------------------------ R2.5 (lifted from C13 R13.7)
    R25 = rep.rule("R2.5", "pieces of a line printed around the datetime are contiguous (lifted from C13 R13.7)")
    import slices as _sl
    for p in sorted(prog.facts.bodies):
        if not p.startswith(c13.PR + "print_sysline") or "{closure" in p:
            continue
        for lines_, problems in _sl.partition_chains(prog.body(p)):
            rep.examined(R25, "%s|chain@%s" % (p, len(lines_)), sample={"variant": p.split("::")[-1], "pieces_at_lines": lines_, "problems": problems})
            if problems:
                rep.violation(R25, "%s|pieces|%d" % (p, len(lines_)), "%s: %s" % (p.split("::")[-1], problems[0]))
    rep.floor(R25, 4)

    # ------------------------------------------------------------ R2.7 (shared with C12 R12.1)
    # A file is dismissed in stage 1 when block zero holds fewer lines/messages than a minimum that is
    # looked up by the length of block zero.  Every message of a log that fails the minimum is dropped
    # (known finding F4: a log of one long message prints nothing at the default block size).
    import c12 as _c12
    R27 = rep.rule("R2.7", "no stage-1 minimum count is selected by the length of block zero (shared with C12 R12.1)")
    _c12.r121(prog, rep, R27)
    rep.floor("R2.7", 3)

    # ------------------------------------------------------------ R2.11 the range index is updated with one range per message
    # SyslineReader keeps a RangeMap from byte ranges to messages.  The range entered for a message and
    # the range taken out when the message is removed (year re-processing) must be the same range; a
    # shorter removal leaves a stale byte that still maps to the removed key, and the next lookup of
    # that byte indexes a message that no longer exists (panic, nothing printed).
    R211 = rep.rule("R2.11", "insert and remove on the range index build the same range for a message")
    SRp = "s4lib::readers::syslinereader::SyslineReader"
    # calls to trivial `fn x(&self) -> N { CONST }` helpers (charsz() is 1) are folded to their constant, so that
    # `fo_end + 1` and `fo_end + self.charsz()` have the same shape
    _triv = {}
    for p_, bj in prog.facts.bodies.items():
        if p_.startswith("s4lib::") and len(bj["blocks"]) == 1:
            bt = prog.body(p_)
            if bt.term(0)[0] == "ret":
                cv = [s_[2][1][2] for s_ in bt.stmts(0) if s_[0] == "=" and s_[1] == [0] and s_[2][0] == "use" and s_[2][1][0] == "k" and isinstance(s_[2][1][2], int) and not isinstance(s_[2][1][2], bool)]
                if len(cv) == 1:
                    _triv.setdefault(p_.split("::")[-1], set()).add(cv[0])

    def _fold(sh, _b):
        if not isinstance(sh, tuple):
            return sh
        if sh[0] == "call" and len(_triv.get(sh[1], ())) == 1:
            return ("k", next(iter(_triv[sh[1]])))
        return tuple(_fold(x, _b) if isinstance(x, tuple) else x for x in sh)
    shapes = {}
    for fn_, verb in (("::insert_sysline", "insert"), ("::remove_sysline", "remove")):
        fb2 = prog.body(SRp + fn_)
        for c in fb2.live_calls():
            if "RangeMap" in c.d and c.d.split("::")[-1] == verb and len(c.args) >= 2:
                for x in fb2.origins(c.args[1]):
                    if x[0] == "agg":
                        st_ = fb2.stmts(x[1])[x[2]]
                        shapes.setdefault(verb, []).append((tuple(_fold(fb2.shape(o_), fb2) for o_ in st_[2][2]), c.line))
    rep.examined(R211, SRp + "|range-index", sample={k_: [str(v_[0]) for v_ in vs] for k_, vs in shapes.items()})
    if not shapes.get("insert") or not shapes.get("remove"):
        raise CheckerError("range index: insert (%d) / remove (%d) sites not recognised" % (len(shapes.get("insert", [])), len(shapes.get("remove", []))))
    ins_sh = set(v_[0] for v_ in shapes["insert"])
    for sh_, ln_ in shapes["remove"]:
        if sh_ not in ins_sh:
            rep.violation(R211, SRp + "|range-index", "SyslineReader::remove_sysline takes the range %s out of syslines_by_range (line %d) but insert_sysline enters %s; the byte(s) in the difference keep pointing at the removed message, "
                          "and the next lookup there panics ('no entry found for key') during year re-processing" % (str(sh_), ln_, [str(x) for x in ins_sh]))

    # ------------------------------------------------------------ R2.10 "ends with a newline" looks at the last byte of the last line
    # The final newline is supplied only when Sysline::last_byte() is not a newline; the last byte of a
    # message is the last byte of the last part of its last line.  Every selection in last_byte must
    # therefore take the last element (last(), next_back(), get(len-1), [len-1]).
    R210 = rep.rule("R2.10", "Sysline::last_byte selects the last line, its last part and its last byte")
    lb = prog.body("s4lib::data::sysline::Sysline::last_byte")
    sels = []
    for c in lb.live_calls():
        nm = (c.o or c.d).split("::")[-1]
        if nm in ("first", "last", "next", "next_back", "nth", "get", "get_unchecked", "index", "first_key_value", "last_key_value", "front", "back"):
            kind = None
            if nm in ("last", "next_back", "last_key_value", "back"):
                kind = "last"
            elif nm in ("first", "first_key_value", "front", "next"):
                kind = "first"
            elif len(c.args) >= 2:
                v = lb.eval_int(c.args[1])
                if v is not None:
                    kind = "first" if v == 0 else "const %d" % v
                else:
                    for x in lb.origins(c.args[1]):
                        if x[0] == "bin":
                            st_ = lb.stmts(x[1])[x[2]]
                            if st_[2][1].startswith("Sub") and lb.eval_int(st_[2][3]) == 1 and any(y[0] == "call" and y[2].split("::")[-1] == "len" for y in lb.origins(st_[2][2])):
                                kind = "last"
            sels.append((nm, kind, c.line))
    for bb in sorted(lb.live):
        for s_ in lb.stmts(bb):
            if s_[0] == "=" and s_[2][0] == "use" and s_[2][1][0] != "k":
                pl = s_[2][1][1]
                for e_ in pl[1:]:
                    if isinstance(e_, list) and e_ and e_[0] == "[]":
                        kind = None
                        for x in lb.origins(["cp", [e_[1]]]):
                            if x[0] == "bin":
                                st_ = lb.stmts(x[1])[x[2]]
                                if st_[2][1].startswith("Sub") and lb.eval_int(st_[2][3]) == 1:
                                    kind = "last"
                            elif x[0] == "const":
                                kind = "first" if str(x[1]) == "0" else "const"
                        sels.append(("[]", kind, s_[-1] if isinstance(s_[-1], int) else 0))
    rep.examined(R210, lb.path, sample={"selections": sels})
    if len(sels) < 2:
        raise CheckerError("Sysline::last_byte: only %d element selections recognised" % len(sels))
    wrong = [x for x in sels if x[1] != "last"]
    if wrong:
        rep.violation(R210, lb.path + "|selection", "Sysline::last_byte takes %s (%s, line %s) instead of the last element; for a multi-line message it then answers for the first line, whose last byte is always a newline, "
                      "and the final newline of a file that lacks one is not supplied" % (wrong[0][0], wrong[0][1], wrong[0][2]))

    # ------------------------------------------------------------ R2.9 a message whose end was not seen is stored only at end of file
    # The block-bounded line search answers Done both at the end of the block and at the end of the
    # file.  In find_sysline_in_block_year the message under construction may be stored after a Done
    # only if the file ends there; otherwise it is stored without its remaining lines (truncated
    # message, and the rest of it becomes a second, merged or dropped message).  Knowing that the
    # file ends needs the file's end: every path from the Done arm to insert_sysline must pass a
    # branch whose condition involves fileoffset_last()/filesz().
    R29 = rep.rule("R2.9", "after a block-bounded Done the message is stored only behind a test against the end of the file")
    fb_ = prog.body("s4lib::readers::syslinereader::SyslineReader::find_sysline_in_block_year")
    EOFK = ("fileoffset_last", "filesz", "is_fileoffset_last", "blockoffset_last", "is_last", "filesz_actual")
    ins_ = [c for c in fb_.live_calls() if c.d.endswith("::insert_sysline")]
    fl_ = [c for c in fb_.live_calls() if c.d.endswith("::find_line_in_block")]
    if not ins_ or not fl_:
        raise CheckerError("find_sysline_in_block_year: insert_sysline (%d) / find_line_in_block (%d) not found" % (len(ins_), len(fl_)))
    eof_sw = set()
    eof_non = {}
    for bb in sorted(fb_.live):
        t = fb_.term(bb)
        if t[0] == "switch":
            os_ = fb_.origins(t[1], through_calls=("::not", "::lt", "::le", "::gt", "::ge", "::eq", "::ne"))
            srcs = set()
            for o in os_:
                if o[0] == "call":
                    srcs.add(o[2].split("::")[-1])
                elif o[0] == "bin":
                    st_ = fb_.stmts(o[1])[o[2]]
                    for a in (st_[2][2], st_[2][3]):
                        if a[0] != "k":
                            for o2 in fb_.origins(a):
                                if o2[0] == "call":
                                    srcs.add(o2[2].split("::")[-1])
            if srcs & set(EOFK):
                eof_sw.add(bb)
                # which way out of this test means "NOT at the end of the file"?
                non_eof = None
                arms0 = [tb for v_, tb in t[2] if v_ == 0]
                dl_ = op_local(t[1])
                bins_ = [st_ for st_ in fb_.stmts(bb) if st_[0] == "=" and st_[1] == [dl_] and st_[2][0] == "bin"]
                if bins_ and arms0:
                    rv_ = bins_[0][2]
                    def _is_eof(a_):
                        return a_[0] != "k" and any(o2[0] == "call" and o2[2].split("::")[-1] in EOFK for o2 in fb_.origins(a_))
                    l_eof, r_eof = _is_eof(rv_[2]), _is_eof(rv_[3])
                    rel_ = rv_[1]
                    if l_eof and not r_eof:
                        rel_ = {"Lt": "Gt", "Gt": "Lt", "Le": "Ge", "Ge": "Le"}.get(rel_, rel_)
                    if l_eof != r_eof:
                        if rel_ in ("Lt", "Ne"):       # position < end : true = not at the end
                            non_eof = t[3]
                        elif rel_ in ("Ge", "Gt", "Eq"):  # position >= end : false = not at the end
                            non_eof = arms0[0]
                if non_eof is not None:
                    eof_non[bb] = non_eof
    n29 = 0
    for c in fl_:
        # Done arm of `match result_.0`
        done_t = None
        for bb in sorted(fb_.reachable(c.target)):
            t = fb_.term(bb)
            if t[0] == "switch" and fb_.dominates(c.bb, bb):
                sd = None
                try:
                    sd = decide.switch_decisions(fb_, bb)
                except CheckerError:
                    sd = None
                if sd and any(d[0] == "variant" and len(d[1]) >= 3 and d[1][0] == "call" and d[1][2] == c.bb for _, d in sd):
                    arms_ = {d[2]: tgt for tgt, d in sd if d[0] == "variant"}
                    if len(arms_) >= 3:
                        done_t = arms_.get(1)
                        break
        if done_t is None:
            raise CheckerError("find_sysline_in_block_year: result match of find_line_in_block at line %d not recognised" % c.line)
        stores = [i_ for i_ in ins_ if i_.bb in fb_.reachable(done_t)]
        unguarded = [i_ for i_ in stores if i_.bb in fb_.reachable(done_t, eof_sw)]
        if stores:
            n29 += 1
        inst = "%s|done@%d" % (fb_.path, fl_.index(c))
        rep.examined(R29, inst, nontrivial=bool(stores), sample={"find_line_in_block_line": c.line, "stores_reachable_after_Done": [i_.line for i_ in stores], "end_of_file_tests": sorted(fb_.blocks[x].get("l") for x in eof_sw), "store_without_eof_test": [i_.line for i_ in unguarded]})
        if unguarded:
            rep.violation(R29, inst, "find_sysline_in_block_year: after the block-bounded line search returns Done (line %d) the message can be stored (insert_sysline, line %d) without any comparison against the end of the file; "
                          "a message that continues in the next block is then stored truncated" % (c.line, unguarded[0].line))
        # ... and the store lies on the at-end-of-file side of that comparison: leaving an end-of-file test
        # by its "not at the end" edge must not lead to the store within the same round (a second conjunct
        # such as `&& block_index != 0` re-opens the way: the message is kept although the file goes on)
        for e_ in sorted(eof_sw & set(fb_.reachable(done_t))):
            ne_ = eof_non.get(e_)
            if ne_ is None:
                continue
            leak = [i_ for i_ in stores if i_.bb in fb_.reachable(ne_, {c.bb})]
            rep.examined(R29, inst + "|eof-side@%s" % fb_.blocks[e_].get("l"), sample={"end_of_file_test_line": fb_.blocks[e_].get("l"), "store_reachable_from_the_not_at_end_edge": [i_.line for i_ in leak]})
            if leak:
                rep.violation(R29, inst + "|not-at-eof-side", "find_sysline_in_block_year: after the block-bounded line search returns Done (line %d) the message can be stored (insert_sysline, line %d) although the comparison with the end of the file (line %s) "
                              "found that the file goes on; a message whose later lines lie in the next block is stored without them (lines lost at that --blocksz, printed at any other)" % (c.line, leak[0].line, fb_.blocks[e_].get("l")))
    if n29 == 0:
        raise CheckerError("R2.9: no Done arm from which a message is stored (idiom not recognised)")

    # ------------------------------------------------------------ R2.8 (shared with C12 R12.6)
    R28 = rep.rule("R2.8", "a first line longer than the block is still seen by stage 1 (shared with C12 R12.6)")
    _c12.partial_extent(prog, rep, R28)

    # ------------------------------------------------------------ R2.6 NUL bytes are content
    import blockzero
    R26 = rep.rule("R2.6", "stage 1 dismisses a file for NUL bytes only if every examined byte is NUL")
    bzb, tests = blockzero.analyze(prog)
    if len(tests) != 1:
        raise CheckerError("blockzero_analysis_bytes: %d quantified byte tests leading to FileErrNullBytes (expected 1)" % len(tests))
    t0 = tests[0]
    rep.examined(R26, bzb.path + "|nul-test", sample=t0)
    q, pred, rej = t0["quantifier"], t0["predicate"], t0["reject_on"]
    if pred is None or pred[1] != 0:
        raise CheckerError("blockzero_analysis_bytes: byte predicate of the NUL test not recognised (%s)" % (pred,))
    # normal form "reject iff all bytes == 0":  all(==0) & reject on true   |   any(!=0) & reject on false
    universal = (q == "all" and pred[0] == "Eq" and rej is True) or (q == "any" and pred[0] == "Ne" and rej is False)
    if not universal:
        rep.violation(R26, bzb.path + "|nul-test", "blockzero_analysis_bytes: the file is dismissed (FileErrNullBytes) when %s(%s %s) is %s (line %d), i.e. not only when every examined byte is NUL; "
                      "a text log that merely contains a NUL byte near its start loses all its messages" % (q, "b ==" if pred[0] == "Eq" else "b !=", pred[1], rej, t0["line"]))

    # ------------------------------------------------------------ R2.12 no line part is built with its end tied to its own beginning
    # LinePart::new(block, begin, end, ..): `end` comes from the search for the newline (a variable the
    # scan advances).  If every definition that reaches `end` is the same block_index_at_file_offset(x)
    # the part's *begin* is computed from, the part is one byte long whatever the line holds: the rest
    # of the line is silently lost.  (The scan variables bi_middle / bi_middle_end differ by one suffix.)
    R212 = rep.rule("R2.12", "the end index of every LinePart is not a fixed offset from that part's own begin index")
    n212 = 0
    for p_ in ("s4lib::readers::linereader::LineReader::find_line", "s4lib::readers::linereader::LineReader::find_line_in_block"):
        lb_ = prog.body(p_)

        def _idx_calls(op_, depth=0):
            """set of (callee, frozenset(arg origins)) if the operand is always a block_index call, else None"""
            res = set()
            for o_ in lb_.origins(op_):
                if o_[0] == "call" and o_[2].endswith("block_index_at_file_offset"):
                    cc_ = [z for z in lb_.calls if z.bb == o_[1]][0]
                    res.add(frozenset(str(x[:2]) for a_ in cc_.args[1:] for x in lb_.origins(a_)))
                else:
                    return None
            return res or None
        for c in lb_.live_calls():
            if not c.d.endswith("LinePart::new") or len(c.args) < 3:
                continue
            n212 += 1
            beg_ = _idx_calls(c.args[1])
            tied = False
            endvar = None
            l_ = op_local(c.args[2])
            ds_ = lb_.defs.get(l_, []) if l_ is not None else []
            if len(ds_) == 1 and ds_[0][1] != "call" and ds_[0][2][0] == "bin" and ds_[0][2][1].replace("WithOverflow", "") in ("Add", "Sub") and ds_[0][2][3][0] == "k":
                base = ds_[0][2][2]
                import flow as _fl2
                nt_ = _fl2.named_target(lb_, base, through=())
                endvar = lb_.local_name(nt_) if nt_ is not None else None
                end_ = _idx_calls(base)
                if beg_ is not None and end_ is not None and end_ <= beg_:
                    tied = True
            rep.examined(R212, "%s|LinePart::new#%d@%s" % (p_, n212, endvar or "?"), sample={"fn": p_.split("::")[-1], "line": c.line, "end_variable": endvar, "end_tied_to_begin": tied})
            if tied:
                rep.violation(R212, "%s|LinePart::new|end-tied-to-begin|%s" % (p_, endvar), "%s (line %d): the part's end index is `%s + const` and %s is always the block index the part begins at; the part is one byte long, "
                              "the rest of the line is lost and the next message is merged into this one" % (p_.split("::")[-1], c.line, endvar, endvar))
    if n212 < 10:
        raise CheckerError("R2.12: only %d LinePart::new sites" % n212)

    # ------------------------------------------------------------ R2.13 "this is the file's last message" comes from one predicate at every send
    # The coordinator supplies the missing final newline when a message is flagged as the last of its
    # file.  The text worker sends messages from two places (the first message found by stage 2, and the
    # streaming loop); both have to take the flag from SyslogProcessor::is_sysline_last, the one function
    # that knows the convention (next offset == file size).  A hand-made test at one site (`fo > filesz`)
    # is off by one for exactly the one-message file.
    R213 = rep.rule("R2.13", "every text message is sent with the is-last flag computed by is_sysline_last")
    wb_ = prog.body("s4::exec_syslogprocessor")
    n213 = 0
    for bb in sorted(wb_.live):
        for st in wb_.stmts(bb):
            if st[0] == "=" and st[2][0] == "agg" and isinstance(st[2][1], dict) and st[2][1].get("variant") == "NewMessage" and len(st[2][2]) >= 2:
                n213 += 1
                os_ = wb_.origins(st[2][2][1], through_calls=("::into", "::from"))
                ok_ = bool(os_) and all(o_[0] == "call" and o_[2].endswith("::is_sysline_last") for o_ in os_)
                rep.examined(R213, "%s|NewMessage#%d" % (wb_.path, n213), sample={"line": st[3], "is_last_from": sorted(str(o_[2]).split("::")[-1] if o_[0] == "call" else o_[0] for o_ in os_)})
                if not ok_:
                    rep.violation(R213, "%s|NewMessage|is-last-source" % wb_.path, "exec_syslogprocessor (line %d) sends a message whose is-last flag does not come from is_sysline_last() but from %s; "
                                  "the sibling send site uses the predicate, so the two disagree at the boundary: a log holding exactly one message without a final newline is printed without the supplied newline "
                                  "and the next file's first message is glued onto it" % (st[3], sorted(str(o_[2]).split("::")[-1] if o_[0] == "call" else o_[0] for o_ in os_)))
    if n213 < 2:
        raise CheckerError("R2.13: %d NewMessage sends in exec_syslogprocessor" % n213)

    # ------------------------------------------------------------ R2.14 the "file too small" pre-check cannot dismiss a file that holds a message
    # processing_loop skips files of at most FILE_TOO_SMALL_SZ bytes without reading them.  The constant
    # has to stay below the shortest text that any row of the pattern table can match (computed over the
    # rows' regular languages): a file of that many bytes can be one whole message.
    import rx as _rx2
    R214 = rep.rule("R2.14", "FILE_TOO_SMALL_SZ is smaller than the shortest text any datetime pattern matches")
    small = prog.facts.const("s4lib::common::FILE_TOO_SMALL_SZ")
    rows_ = prog.facts.const("s4lib::data::datetime::DATETIME_PARSE_DATAS")
    if not isinstance(small, int) or not rows_:
        raise CheckerError("R2.14: FILE_TOO_SMALL_SZ or DATETIME_PARSE_DATAS not found")
    res_ = _rx2.analyze([{"id": i_, "regex": r_["fields"]["regex_pattern"], "props": []} for i_, r_ in enumerate(rows_)], limit=6000)
    mins = sorted((r_["min_len"], r_["id"]) for r_ in res_ if r_.get("ok") and r_.get("min_len") is not None)
    if len(mins) < 150:
        raise CheckerError("R2.14: only %d rows analysed" % len(mins))
    users = [b_.path for b_ in prog.bodies() if (b_.path.startswith("s4::") or b_.path.startswith("s4lib::")) and "_tests" not in b_.path
             and any(st[0] == "=" and st[2][0] == "bin" and st[2][1] in ("Le", "Lt", "Ge", "Gt") and any(o[0] == "k" and o[2] == small and "u64" in str(o[1]) for o in (st[2][2], st[2][3]))
                     for bb in b_.live for st in b_.stmts(bb))]
    rep.examined(R214, "FILE_TOO_SMALL_SZ", sample={"FILE_TOO_SMALL_SZ": small, "shortest_match_bytes": mins[0][0], "row": mins[0][1], "row_line": rows_[mins[0][1]]["fields"].get("_line_num")})
    if small >= mins[0][0]:
        rep.violation(R214, "FILE_TOO_SMALL_SZ|too-large", "FILE_TOO_SMALL_SZ = %d, but DATETIME_PARSE_DATAS[%d] (source line %s) matches a text of only %d bytes: a log of %d bytes or fewer that holds a complete message "
                      "(e.g. `1704067200 a`) is skipped without being read, nothing is printed and nothing is reported" % (small, mins[0][1], rows_[mins[0][1]]["fields"].get("_line_num"), mins[0][0], small))

    return rep.finish(
        "Static necessary-condition check of the hand-over stages only: the streaming loop threads the returned offset into the next find and "
        "sends each found message once; the sysline printers traverse lines and parts with plain forward slice iterators; the final newline is "
        "supplied only for an unterminated last message; a slice is written directly to stdout only after the pending buffer was written. The "
        "line/message reassembly arithmetic is explicitly not decided.",
        ["find_line / find_line_in_block newline search", "LinePart stitching across blocks", "find_sysline_year grouping and block-zero pre-parsing",
         "cache-history dependence", "block-zero pattern choice"])
