"""C04 — timestamps are interpreted as the instant they denote (table/code agreement clauses).

Decides, for ALL strings each table regex can match (regular-language analysis of the
const-evaluated DATETIME_PARSE_DATAS):
  R4.1 pre-check soundness: the cheap byte pre-check selected for a row by ezcheck_slice (from the
       row's has_year4()/has_d2()) can only reject strings the row's regex cannot match:
       L(regex) is included in the language of the helper, whose byte classes are read from the
       helper's own MIR.
  R4.2 converter/regex agreement: every named group captures_to_buffer_bytes unwraps for the row's
       DTFSSet lies on every match path of the row's regex; day is 1..2 bytes, fractional <= 12;
       the fraction arms pad to exactly nine digits; month names the regex can capture are all
       accepted by month_bB_to_month_m_bytes (decision tree enumerated from MIR); worst-case
       normalised length fits the buffer.
  R4.3 zone-name agreement: every name a %Z row can capture is a key of MAP_TZZ_TO_TZz; values are
       empty (ambiguous) or +HH:MM.
  R4.4 cgn_first/cgn_last are named groups of the row's regex.
  R4.5 rows are tried in table order, first match wins: no row may be completely shadowed by an
       earlier row that reads the timestamp differently (search-language inclusion, DFA product;
       quick tier: the 8 preceding rows, thorough tier: all earlier rows).
Does not decide: chrono's mapping of the normalised buffer to an instant, which row wins for a given
line (pattern shadowing is reported as information in the thorough tier), --tz-offset arithmetic.
"""
import json

import decide
import rx
from mir import CheckerError, op_local

DT = "s4lib::data::datetime::"
FIELDS = ["year", "month", "day", "hour", "minute", "second", "fractional", "tz", "epoch"]


def enum_variants(prog, adt):
    a = prog.facts.adts.get(adt)
    if not a:
        raise CheckerError("anchor missing: " + adt)
    return {v["idx"]: v["name"] for v in a["variants"]}


def bool_table(prog, fn):
    """DTFSSet predicate fn(&self)->bool as list of (constraints {field: set(variant names)}, bool)"""
    b = prog.body(fn)
    res = []
    ev = {f: enum_variants(prog, DT + "DTFS_" + f.capitalize()) for f in FIELDS}
    inv = {f: {n: i for i, n in ev[f].items()} for f in FIELDS}
    for p in decide.enumerate_paths(b, 0, lambda bb: "ret" if b.term(bb)[0] == "ret" else None):
        if p.end != "ret":
            continue
        cons = {}
        for d in p.decisions:
            if d[0] in ("variant", "variant_not"):
                root = d[1]
                f = root[-1]
                if f not in ev:
                    raise CheckerError("%s: decision on unexpected field %r" % (fn, root))
                allv = set(ev[f].values())
                if d[0] == "variant":
                    s = {ev[f][d[2]]}
                else:
                    s = allv - {ev[f][i] for i in d[2]}
                cons[f] = cons.get(f, allv) & s
            else:
                raise CheckerError("%s: unrecognised decision %r" % (fn, d))
        val = None
        for bb in p.blocks:
            for s in b.stmts(bb):
                if s[0] == "=" and s[1] == [0] and s[2][0] == "use" and s[2][1][0] == "k" and isinstance(s[2][1][2], bool):
                    val = s[2][1][2]
        if val is None:
            raise CheckerError("%s: path without constant result" % fn)
        res.append((cons, val))
    return res


def eval_bool(table, dtfs):
    outs = set()
    for cons, val in table:
        if all(dtfs[f] in vs for f, vs in cons.items()):
            outs.add(val)
    if len(outs) != 1:
        raise CheckerError("predicate table ambiguous for %s: %s" % (dtfs, outs))
    return next(iter(outs))


def byte_classes(prog, fn):
    """(early_true_bytes, run_bytes) read from the per-byte switch of a slice_contains_* helper"""
    b = prog.body(fn)
    early, run = set(), set()
    found = False
    for bb in sorted(b.live):
        t = b.term(bb)
        if t[0] != "switch" or len(t) < 5 or t[4] != "u8" or len(t[2]) < 2:
            continue
        found = True
        groups = {}
        for v, tgt in t[2]:
            groups.setdefault(tgt, []).append(int(v))
        for tgt, vals in groups.items():
            # early: block (chain) that sets _0 = true and returns without testing anything
            cur = tgt
            kind = None
            for _ in range(6):
                sets_true = any(s[0] == "=" and s[1] == [0] and s[2][0] == "use" and s[2][1][0] == "k" and s[2][1][2] is True for s in b.stmts(cur))
                tt = b.term(cur)
                if sets_true:
                    kind = "early"
                    break
                if tt[0] == "switch":
                    kind = "run"
                    break
                if tt[0] == "goto":
                    cur = tt[1]
                    continue
                break
            if kind == "early":
                early.update(vals)
            elif kind == "run":
                run.update(vals)
            else:
                raise CheckerError("%s: byte arm for %s not recognised" % (fn, vals[:3]))
    if not found:
        raise CheckerError("%s: per-byte switch not found" % fn)
    return early, run


def resolve_helper(prog, fn, depth=0):
    """follow trivial wrappers (slice_contains_D2 -> slice_contains_D2_custom)"""
    b = prog.body(fn)
    cs = [c for c in b.live_calls() if c.d.startswith(DT + "slice_contains_")]
    if len(b.blocks) <= 4 and len(cs) == 1 and depth < 3:
        return resolve_helper(prog, cs[0].d, depth + 1)
    return fn


def month_language(prog):
    """strings accepted by month_bB_to_month_m_bytes -> month bytes, by walking its decision tree"""
    b = prog.body(DT + "month_bB_to_month_m_bytes")
    acc = {}
    stack = [(0, None, {})]
    seen = 0
    while stack:
        bb, ln, chars = stack.pop()
        seen += 1
        if seen > 200000:
            raise CheckerError("month_bB_to_month_m_bytes: decision tree too large")
        t = b.term(bb)
        if t[0] == "switch":
            discr = t[1]
            if discr[0] in ("cp", "mv") and len(discr[1]) == 3 and discr[1][1] == "*" and isinstance(discr[1][2], list) and discr[1][2][0] == "[c]":
                idx = discr[1][2][1]
                for v, tgt in t[2]:
                    c2 = dict(chars)
                    c2[idx] = int(v)
                    stack.append((tgt, ln, c2))
                continue
            # length test: `_x = Eq(len, const N)` or Lt/...; find in this block
            l = op_local(discr)
            handled = False
            for s in b.stmts(bb):
                if s[0] == "=" and s[1] == [l] and s[2][0] == "bin" and s[2][1] == "Eq" and _const_int(b, s[2][3]) is not None:
                    n = _const_int(b, s[2][3])
                    arms = {int(v): tgt for v, tgt in t[2]}
                    stack.append((t[3], n, chars))      # true (non-zero) arm
                    if 0 in arms:
                        stack.append((arms[0], ln, chars))
                    handled = True
            if not handled:
                # other tests: follow all arms (over-approximation is not acceptable here)
                raise CheckerError("month_bB_to_month_m_bytes: unrecognised test at bb%d" % bb)
            continue
        if t[0] == "call":
            d = t[1].get("d", "")
            if d.endswith("copy_from_slice") and ln is not None and all(i in chars for i in range(ln)):
                src = None
                for a in t[2][1:]:
                    for o in b.origins(a):
                        if o[0] == "const":
                            try:
                                import ast
                                src = ast.literal_eval(o[1])
                            except Exception:
                                src = o[1]
                acc[bytes(chars[i] for i in range(ln)).decode("latin-1")] = src
                continue
            if t[4] is not None:
                stack.append((t[4], ln, chars))
            continue
        if t[0] == "goto":
            stack.append((t[1], ln, chars))
    return acc


def _const_int(b, op):
    if op[0] == "k":
        return op[2] if isinstance(op[2], int) else None
    l = op_local(op)
    if l is None:
        return None
    ds = b.defs.get(l, [])
    if len(ds) == 1 and ds[0][1] != "call" and ds[0][2][0] == "use" and ds[0][2][1][0] == "k" and isinstance(ds[0][2][1][2], int):
        return ds[0][2][1][2]
    return None


def required_groups(prog):
    """(field, variant name) -> {group: 'unwrap'|'optional'} from captures_to_buffer_bytes"""
    b = prog.body(DT + "captures_to_buffer_bytes")
    ev = {f: enum_variants(prog, DT + "DTFS_" + f.capitalize()) for f in FIELDS}
    names = [c for c in b.live_calls() if c.d.endswith("Captures::<'h>::name") or (c.d.endswith("::name") and "Captures" in c.d)]
    if len(names) < 8:
        raise CheckerError("captures_to_buffer_bytes: %d Captures::name calls" % len(names))
    # arms: switch blocks on discriminant((*dtfs).field)
    arms = []
    for bb in sorted(b.live):
        t = b.term(bb)
        if t[0] != "switch":
            continue
        l = op_local(t[1])
        for s in b.stmts(bb):
            if s[0] == "=" and s[1] == [l] and s[2][0] == "discr":
                pl = s[2][1]
                flds = [e[2] for e in pl[1:] if isinstance(e, list) and e[0] == "."]
                if pl[0] == 5 and len(flds) == 1 and flds[0] in ev:
                    for v, tgt in t[2]:
                        arms.append((flds[0], ev[flds[0]][int(v)], bb, tgt))
                    # otherwise arm: remaining variants
                    listed = {int(v) for v, _ in t[2]}
                    rest = [n for i, n in ev[flds[0]].items() if i not in listed]
                    if b.term(t[3])[0] != "unreachable":
                        for n in rest:
                            arms.append((flds[0], n, bb, t[3]))
    req = {}
    for c in names:
        g = None
        for o in b.origins(c.args[1], through_calls=("::deref", "::as_ref")):
            if o[0] == "const":
                try:
                    import ast
                    g = ast.literal_eval(o[1])
                except Exception:
                    g = o[1]
        if not isinstance(g, str):
            raise CheckerError("captures_to_buffer_bytes: Captures::name with non-constant group")
        # unwrap or matched?
        mode = "optional"
        for c2 in b.live_calls():
            if c2.d.endswith("::unwrap") and any(o[0] == "call" and o[1] == c.bb for o in b.origins(c2.args[0], through_calls=("::as_ref",))):
                mode = "unwrap"
        # optional with a panic on None counts as unwrap
        if mode == "optional" and c.target is not None:
            for bb2 in sorted(b.reachable(c.target)):
                pass
        for (f, vn, swbb, tgt) in arms:
            if b.dominates(tgt, c.bb) and b.pred[tgt] == [swbb]:
                req.setdefault((f, vn), {})[g] = mode
    return req


def fraction_padding(prog):
    """n -> total digits written for a captured fraction of n bytes (from the `match len` arms)"""
    b = prog.body(DT + "captures_to_buffer_bytes")
    best = None
    for bb in sorted(b.live):
        t = b.term(bb)
        if t[0] == "switch" and len(t) > 4 and t[4] == "usize" and len(t[2]) >= 9:
            best = (bb, t)
    if best is None:
        raise CheckerError("captures_to_buffer_bytes: fraction length match not found")
    bb, t = best
    arms = {}
    for v, tgt in t[2]:
        arms.setdefault(tgt, []).append(int(v))
    reach = {tgt: b.reachable(tgt) for tgt in arms}
    res = {}
    for tgt, vals in arms.items():
        others = set()
        for t2, r in reach.items():
            if t2 != tgt:
                others |= r
        region = reach[tgt] - others
        pad = 0
        trunc = None
        for c in b.live_calls():
            if c.bb in region and c.d.endswith("copy_from_slice"):
                for o in b.origins(c.args[1]):
                    if o[0] == "const":
                        try:
                            import ast
                            v_ = ast.literal_eval(o[1])
                            if isinstance(v_, str) and set(v_) <= {"0"}:
                                pad += len(v_)
                        except Exception:
                            pass
        # truncation arms: RangeTo{end: const k}
        for x in region:
            for s in b.stmts(x):
                if s[0] == "=" and s[2][0] == "agg" and isinstance(s[2][1], dict) and s[2][1].get("adt", "").endswith("RangeTo"):
                    o = s[2][2][0]
                    if o[0] == "k" and isinstance(o[2], int):
                        trunc = o[2]
        for n in vals:
            res[n] = (min(n, trunc) if trunc is not None else n) + pad
    return res


def run(prog, rep, tier):
    facts = prog.facts
    R41 = rep.rule("R4.1", "pre-check soundness: L(row regex) is inside the language of its byte pre-check")
    R42 = rep.rule("R4.2", "converter/regex agreement (groups on every path, lengths, fraction padding, month names)")
    R43 = rep.rule("R4.3", "zone names a %Z row can capture are keys of the zone table")
    R44 = rep.rule("R4.4", "cgn_first/cgn_last name groups of the row's regex")
    rows = facts.const(DT + "DATETIME_PARSE_DATAS")
    if not rows or len(rows) < 100:
        raise CheckerError("DATETIME_PARSE_DATAS not extracted")

    def dtfs_of(r):
        d = r["fields"]["dtfs"]["fields"]
        return {f: d[f]["variant"] for f in FIELDS}

    # ---------- which helper for which (has_year4, has_d2)
    y4 = bool_table(prog, DT + "DTFSSet::<'_>::has_year4")
    d2 = bool_table(prog, DT + "DTFSSet::<'_>::has_d2")
    eb = prog.body("s4lib::readers::syslinereader::SyslineReader::ezcheck_slice")

    def end_of(bb):
        t = eb.term(bb)
        if t[0] == "call" and t[1].get("d", "").startswith(DT + "slice_contains_"):
            return t[1]["d"]
        if t[0] == "ret":
            return "ret"
        return None
    sel = {}
    for p in decide.enumerate_paths(eb, 0, end_of, opaque_ok=lambda bb: True):
        fl = {}
        for d in p.decisions:
            if d[0] == "flag" and d[1][0] == "call":
                fl[d[1][1]] = d[2]
        if "has_year4" in fl or "has_d2" in fl:
            for a in (True, False):
                for c in (True, False):
                    if fl.get("has_year4", a) == a and fl.get("has_d2", c) == c:
                        sel.setdefault((a, c), set()).add(p.end)
    helpers = {}
    for k, v in sel.items():
        hs = set(x for x in v if x != "ret")
        if len(hs) > 1:
            raise CheckerError("ezcheck_slice: flags %s select several helpers %s" % (k, hs))
        helpers[k] = next(iter(hs)) if hs else None
    if len(helpers) != 4:
        raise CheckerError("ezcheck_slice: helper selection table incomplete: %s" % helpers)
    # needles of the X_2 helper come from the call site constant
    atoms_by_helper = {}
    for k, h in helpers.items():
        if h is None:
            continue
        real = resolve_helper(prog, h)
        if real.endswith("_memchr") or "X_2" in real:
            cs = [c for c in eb.live_calls() if c.d == h]
            needles = None
            for o in eb.origins(cs[0].args[1]):
                if o[0] == "const":
                    import ast
                    needles = ast.literal_eval(o[1])
            if not isinstance(needles, str) or len(needles) != 2:
                raise CheckerError("ezcheck_slice: needles of %s not constant" % h)
            atoms_by_helper[h] = [{"contains_any": [ord(ch) for ch in needles]}]
        else:
            early, run = byte_classes(prog, real)
            atoms = []
            if early:
                atoms.append({"contains_any": sorted(early)})
            if run:
                atoms.append({"contains_run": {"set": sorted(run | early), "n": 2}})
            atoms_by_helper[h] = atoms
    rep.examined(R41, "ezcheck_slice|selection", sample={"(has_year4,has_d2)->helper": {str(k): (v or "none").split("::")[-1] for k, v in helpers.items()},
                                                        "helper_languages": {h.split("::")[-1]: a for h, a in atoms_by_helper.items()}})

    # ---------- analyse all rows
    req = []
    meta = []
    for i, r in enumerate(rows):
        f = r["fields"]
        dtfs = dtfs_of(r)
        k = (eval_bool(y4, dtfs), eval_bool(d2, dtfs))
        h = helpers[k]
        props = []
        if h is not None:
            props.append({"name": "precheck", "any_of": atoms_by_helper[h]})
        req.append({"id": i, "regex": f["regex_pattern"], "props": props})
        meta.append((dtfs, k, h))
    res = rx.analyze(req, limit=6000)
    groups_req = required_groups(prog)
    months = month_language(prog)
    fpad = fraction_padding(prog)
    rep.examined(R42, "captures_to_buffer_bytes|fraction-padding", sample={"digits_written_per_captured_length": fpad})
    for n, total in sorted(fpad.items()):
        if total != 9:
            rep.violation(R42, "captures_to_buffer_bytes|fraction-padding|%d" % n,
                          "captures_to_buffer_bytes: a %d-digit fraction is normalised to %d digits instead of 9; chrono's %%f then reads it as a different number of nanoseconds (e.g. .1234567 becomes .012345670)" % (n, total))
    if set(range(1, 10)) - set(fpad):
        rep.violation(R42, "captures_to_buffer_bytes|fraction-padding|coverage", "captures_to_buffer_bytes: fraction lengths %s have no arm" % sorted(set(range(1, 10)) - set(fpad)))
    rep.examined(R42, "month_bB_to_month_m_bytes|language", sample={"accepted_month_strings": len(months), "examples": sorted(months)[:6]})
    if len(months) < 60:
        raise CheckerError("month_bB_to_month_m_bytes: only %d accepted strings enumerated" % len(months))
    # R4.7 Unix-epoch rows denote an instant.  chrono parses `%s` to the UTC NaiveDateTime of that instant;
    # rows whose notation carries no zone go through the zone-less branch of datetime_parse_from_str,
    # where the naive value is read as wall clock in --tz-offset.  For epoch rows that reading must not
    # be reachable: the local-reading constructor is dominated by the false edge of a test for `%s`
    # in the pattern, and the true edge reads the value as UTC.
    R47 = rep.rule("R4.7", "zone-less Unix-epoch rows are read as the UTC instant, not as wall clock in --tz-offset")
    import instant as _inst
    rows_ = facts.const(DT + "DATETIME_PARSE_DATAS")
    ep_rows = [i for i, r in enumerate(rows_) if r["fields"]["dtfs"]["fields"]["epoch"]["variant"] != "_none" and r["fields"]["dtfs"]["fields"]["tz"]["variant"] == "_none"]
    pb_ = prog.body(DT + "datetime_parse_from_str")
    calls_ = {c.bb: c for c in pb_.live_calls()}
    loc = [c for c in calls_.values() if _inst._kind(c) == "local_ctor" and
           any(o[0] == "call" and o[2].endswith("NaiveDateTime::parse_from_str") for a in c.args if a[0] != "k" for o in pb_.origins(a, through_calls=_inst.THROUGH))]
    utc = [c for c in calls_.values() if _inst._kind(c) == "utc_ctor" and
           any(o[0] == "call" and o[2].endswith("NaiveDateTime::parse_from_str") for a in c.args if a[0] != "k" for o in pb_.origins(a, through_calls=_inst.THROUGH))]
    gates = []
    for c in calls_.values():
        if c.d.endswith("::contains") and "str" in c.d and c.target is not None:
            cs = [a[2] for a in c.args if a[0] == "k"] + [o[1] for a in c.args if a[0] != "k" for o in pb_.origins(a) if o[0] == "const"]
            if any("%s" in str(x) for x in cs):
                t_ = pb_.term(c.target)
                if t_[0] == "switch" and op_local(t_[1]) == c.dest[0]:
                    arms_ = {int(v): tb for v, tb in t_[2]}
                    if 0 in arms_:
                        gates.append((arms_[0], t_[3]))
    rep.examined(R47, "datetime_parse_from_str|epoch", sample={"zone-less epoch rows": len(ep_rows), "wall-clock readings of the parsed naive value": [c.line for c in loc],
                                                              "UTC readings": [c.line for c in utc], "tests for %s in the pattern": len(gates)})
    if ep_rows:
        if not loc and not utc:
            raise CheckerError("datetime_parse_from_str: no constructor applied to the parsed naive value (idiom not recognised)")
        for c in loc:
            if not any(pb_.dominates(f_, c.bb) for (f_, t__) in gates):
                rep.violation(R47, "datetime_parse_from_str|epoch|wall-clock", "datetime_parse_from_str: rows %s match a bare Unix epoch (no zone), and the parsed value is read as wall clock in --tz-offset by %s (line %d) "
                              "without excluding `%%s` patterns: '1600000000' is dated 2020-09-13T12:26:40 in the --tz-offset zone instead of 12:26:40Z" % (ep_rows[:4], c.d.split("::")[-1], c.line))
        if loc and not any(any(pb_.dominates(t__, u.bb) for (f_, t__) in gates) for u in utc):
            rep.violation(R47, "datetime_parse_from_str|epoch|utc", "datetime_parse_from_str: no UTC reading of the parsed value under the `%s` test; epoch rows cannot resolve to their instant")

    # R4.6 sibling agreement inside the two name tables: every spelling of one month (case, long form,
    # trailing dot) yields the same month number, which is its calendar number; upper- and lowercase
    # spellings of one zone name denote the same offset
    R46 = rep.rule("R4.6", "all spellings of one month name / one zone name denote the same month / offset")
    CAL = {"jan": "01", "feb": "02", "mar": "03", "apr": "04", "may": "05", "jun": "06", "jul": "07", "aug": "08", "sep": "09", "oct": "10", "nov": "11", "dec": "12"}
    by3 = {}
    for name, val in months.items():
        by3.setdefault(name.lower()[:3], {}).setdefault(val if isinstance(val, str) else repr(val), []).append(name)
    for k3, vals in sorted(by3.items()):
        rep.examined(R46, "month|" + k3, sample={"month": k3, "spellings": sum(len(v) for v in vals.values()), "values": sorted(vals)})
        if k3 not in CAL:
            rep.violation(R46, "month|%s|unknown" % k3, "month_bB_to_month_m_bytes accepts %s, which is not a month name" % sorted(sum(vals.values(), []))[:3])
            continue
        wrong = {v: n for v, n in vals.items() if v != CAL[k3]}
        if wrong:
            v, n = sorted(wrong.items())[0]
            rep.violation(R46, "month|%s|value" % k3, "month_bB_to_month_m_bytes: the spelling(s) %s of month %s are converted to month %s (other spellings give %s); such timestamps are dated in the wrong month" % (
                sorted(n)[:4], CAL[k3], v, sorted(set(vals) - {v}) or [CAL[k3]]))
    if len(by3) < 12:
        rep.violation(R46, "month|coverage", "month_bB_to_month_m_bytes accepts spellings of only %d months" % len(by3))
    zmap = facts.const(DT + "MAP_TZZ_TO_TZz")
    zkeys = set(e[0] for e in zmap["fields"]["entries"])

    def _off(v):
        if v == "":
            return "ambiguous"
        import re as _re
        m_ = _re.match(r"^([+-])(\d\d):(\d\d)$", v)
        if not m_:
            return "malformed:" + v
        return (1 if m_.group(1) == "+" else -1) * (int(m_.group(2)) * 3600 + int(m_.group(3)) * 60)
    zd = {}
    for e in zmap["fields"]["entries"]:
        zd.setdefault(e[0].lower(), {})[e[0]] = _off(e[1])
    nz = 0
    for low, sp in sorted(zd.items()):
        nz += 1
        if len(set(sp.values())) > 1:
            rep.violation(R46, "zone|%s" % low, "MAP_TZZ_TO_TZz: the spellings %s of one zone name map to different offsets %s; a timestamp using one of them is shifted by the difference" % (
                sorted(sp), sorted(map(str, set(sp.values())))))
    rep.examined(R46, "zone|case-agreement", sample={"zone_names": nz, "entries": len(zmap["fields"]["entries"])})
    buflen = None
    for p_, c in facts.consts.items():
        if p_.endswith("::BUFLEN") and isinstance(c["value"], int) and "datetime" in p_:
            buflen = c["value"] if buflen is None else min(buflen, c["value"])
    if buflen is None:
        raise CheckerError("converter buffer length constant not found")
    # longest zone text that can be substituted: map values and the --tz-offset string (+HH:MM)
    zone_max = max([len(e[1]) for e in zmap["fields"]["entries"]] + [6])
    rep.examined(R42, "captures_to_buffer_bytes|buffer", sample={"BUFLEN": buflen, "longest_zone_text": zone_max})
    for r in res:
        i = r["id"]
        dtfs, k, h = meta[i]
        line = rows[i]["fields"].get("_line_num")
        key = "DATETIME_PARSE_DATAS[%d]@L%s" % (i, line)
        if not r.get("ok"):
            raise CheckerError("rxtab failed on row %d: %s" % (i, r.get("error")))
        g = {x["name"]: x for x in r["groups"]}
        # R4.1
        for pr in r.get("props", []):
            rep.examined(R41, key, sample={"row": i, "line": line, "flags(year4,d2)": k, "helper": (h or "none").split("::")[-1], "holds": pr["holds"], "product_states": pr["product_states"]})
            if not pr["holds"]:
                rep.violation(R41, "row|%s|%s" % (rows[i]["fields"]["regex_pattern"][:60], (h or "").split("::")[-1]),
                              "DATETIME_PARSE_DATAS[%d] (source line %s): the regex matches %r but the pre-check %s rejects it, so the line is skipped without trying the regex" % (
                                  i, line, pr["counterexample"], (h or "").split("::")[-1]))
        if h is None:
            rep.examined(R41, key, sample={"row": i, "line": line, "flags(year4,d2)": k, "helper": "none"})
        # R4.2 groups
        need = {}
        for f in FIELDS:
            for grp, mode in groups_req.get((f, dtfs[f]), {}).items():
                need[grp] = mode if need.get(grp) != "unwrap" else "unwrap"
        probs = []
        for grp, mode in sorted(need.items()):
            if mode == "unwrap":
                if grp not in g:
                    probs.append("group '%s' is unwrapped for %s but the regex has no such group" % (grp, dtfs))
                elif not g[grp]["mandatory"]:
                    probs.append("group '%s' is unwrapped but lies on an optional/alternative path of the regex" % grp)
        if "day" in g and dtfs["day"] != "_none":
            if not (g["day"]["min_len"] >= 1 and (g["day"]["max_len"] or 99) <= 2):
                probs.append("day group length %s..%s outside 1..2" % (g["day"]["min_len"], g["day"]["max_len"]))
        if "fractional" in g and dtfs["fractional"] == "f":
            if (g["fractional"]["max_len"] or 99) > 12:
                probs.append("fractional group may capture %s bytes (>12 is dropped silently)" % g["fractional"]["max_len"])
        if dtfs["month"] in ("b", "B") and "month" in g:
            lang = g["month"]["language"]
            if lang is None:
                probs.append("month group language is not finite")
            else:
                bad = [m for m in lang if m not in months]
                if bad:
                    probs.append("month spellings %s can be captured but are not accepted by month_bB_to_month_m_bytes" % bad[:4])
        # worst-case length of the normalised buffer against the converter's fixed buffer
        if buflen is not None:
            def gmax(name, default=None):
                if name in g:
                    return g[name]["max_len"]
                return default
            parts = []
            unbounded = []
            def add(label, n):
                if n is None:
                    unbounded.append(label)
                else:
                    parts.append((label, n))
            if dtfs["epoch"] != "_none":
                add("epoch", gmax("epoch"))
            if dtfs["year"] in ("Y", "y"):
                add("year", gmax("year"))
            elif dtfs["year"] == "_fill":
                add("year", max(4, gmax("year", 0) or 0))
            if dtfs["month"] != "_none":
                add("month", 2)
            if dtfs["day"] != "_none":
                add("day", 2)
            add("T", 1)
            if dtfs["hour"] in ("I", "l", "H"):
                add("hour", gmax("hour"))
            elif dtfs["hour"] == "k":
                add("hour", 2)
            if dtfs["minute"] != "_none":
                add("minute", gmax("minute"))
            if dtfs["second"] == "S":
                add("second", gmax("second"))
            elif dtfs["second"] == "_fill":
                add("second", 2)
            if dtfs["fractional"] == "f":
                add("fraction", 10)
            if dtfs["tz"] in ("z", "zc", "zp"):
                add("tz", gmax("tz"))
            elif dtfs["tz"] in ("Z", "_fill"):
                add("tz", zone_max)
            total = sum(n for _, n in parts)
            if unbounded:
                probs.append("groups %s have no upper length bound; the normalised timestamp can overflow the %d-byte buffer and panic" % (unbounded, buflen))
            elif total > buflen:
                probs.append("normalised timestamp can need %d bytes (%s), the buffer has %d; the copy would panic" % (total, parts, buflen))
        rep.examined(R42, key, sample={"row": i, "dtfs": dtfs, "needs": need, "has": sorted(g)})
        for pb in probs:
            rep.violation(R42, "row|%s|%s" % (rows[i]["fields"]["regex_pattern"][:60], pb[:40]), "DATETIME_PARSE_DATAS[%d] (source line %s): %s" % (i, line, pb))
        # R4.3
        if dtfs["tz"] == "Z":
            lang = g.get("tz", {}).get("language")
            if lang is None:
                rep.violation(R43, "row|%s|tz" % rows[i]["fields"]["regex_pattern"][:60], "DATETIME_PARSE_DATAS[%d]: %%Z row whose tz group language is not finite" % i)
            else:
                # the converter looks the captured text up as it is (get_entry, no case folding)
                bad = [z for z in lang if z not in zkeys]
                rep.examined(R43, key, sample={"row": i, "tz_names": len(lang), "unknown": bad[:4]})
                if bad:
                    rep.violation(R43, "row|%s|tz" % rows[i]["fields"]["regex_pattern"][:60], "DATETIME_PARSE_DATAS[%d] (source line %s): zone names %s can be captured but are not in MAP_TZZ_TO_TZz" % (i, line, bad[:5]))
        # R4.4
        f_ = rows[i]["fields"]
        rep.examined(R44, key, sample={"row": i, "cgn_first": f_["cgn_first"], "cgn_last": f_["cgn_last"]})
        for nm in ("cgn_first", "cgn_last"):
            if f_[nm] not in g:
                rep.violation(R44, "row|%s|%s" % (rows[i]["fields"]["regex_pattern"][:60], nm), "DATETIME_PARSE_DATAS[%d] (source line %s): %s = %r is not a named group of the row's regex" % (i, line, nm, f_[nm]))
    # ---------- R4.5 dead rows: rows are tried in table order and the first match wins
    R45 = rep.rule("R4.5", "no row is completely shadowed by an earlier row with a different interpretation")
    window = 1000 if tier == "thorough" else 8
    sh = rx.shadow([r_["fields"]["regex_pattern"] for r_ in rows], window=window)
    for e in sh["shadow"]:
        j = e["j"]
        if e.get("error"):
            raise CheckerError("rxtab could not build the search automaton of row %d" % j)
        i = e.get("dead_by")
        rep.examined(R45, "row%d" % j, nontrivial=(i is not None), sample=({"row": j, "shadowed_by": i} if i is not None else None))
        if i is None:
            continue
        dj, di = dtfs_of(rows[j]), dtfs_of(rows[i])
        pj = rows[j]["fields"]["dtfs"]["fields"]["pattern"]
        pi = rows[i]["fields"]["dtfs"]["fields"]["pattern"]
        ri, rj = rows[i]["fields"]["range_regex"]["fields"], rows[j]["fields"]["range_regex"]["fields"]
        covers = ri["start"] <= rj["start"] and ri["end"] >= rj["end"]
        if (dj != di or pj != pi) and covers:
            rep.violation(R45, "row|%s|dead" % rows[j]["fields"]["regex_pattern"][:60],
                          "DATETIME_PARSE_DATAS[%d] (source line %s, format %s) can never be chosen: every line it matches is matched first by row %d (source line %s, format %s), which reads the timestamp differently" % (
                              j, rows[j]["fields"].get("_line_num"), pj, i, rows[i]["fields"].get("_line_num"), pi))
        else:
            rep.info("row %d (line %s) is redundant: always preceded by row %d with the same interpretation" % (j, rows[j]["fields"].get("_line_num"), i))
    rep.extra["shadow_product_states"] = sh.get("product_states")
    rep.extra["shadow_window"] = window
    rep.floor(R41, 150)
    rep.floor(R42, 150)
    rep.exhaustive.append("R4.1-R4.4: every row of DATETIME_PARSE_DATAS; inclusion decided over all strings of each row's regular language (DFA product)")
    # zone table values
    import re
    badv = [e for e in zmap["fields"]["entries"] if e[1] != "" and not re.match(r"^[+-]\d\d:\d\d$", e[1])]
    rep.examined(R43, "MAP_TZZ_TO_TZz|values", sample={"entries": len(zkeys), "malformed": badv[:3]})
    if badv:
        rep.violation(R43, "MAP_TZZ_TO_TZz|values", "MAP_TZZ_TO_TZz: malformed offsets %s" % badv[:4])

    # ------------------------------------------------------------ R4.10 an hour-only zone row never sees more of the line than its full-offset siblings
    # Rows that share everything up to the zone group form a family: `%:z` (+HH:MM), `%z` (+HHMM) and
    # `%#z` (+HH).  The hour-only row matches a prefix of what its siblings match, so it is only safe
    # while a sibling that reads the whole offset searches at least as much of the line: where only the
    # hour-only row reaches, `+05:30` is read as +05:00 - half an hour off, no error.
    R410 = rep.rule("R4.10", "in every family of rows differing only in zone notation the full-offset rows search at least as far as the hour-only row")
    import collections as _col
    fam_ = _col.defaultdict(list)
    for i, r_ in enumerate(rows):
        p_ = r_["fields"]["regex_pattern"]
        k_ = p_.find("(?P<tz>")
        if k_ >= 0:
            fam_[p_[:k_]].append(i)
    nfam = 0
    for pre_, members in fam_.items():
        def _tzg(i_):
            return next((g_ for g_ in res[i_].get("groups", []) if g_["name"] == "tz"), None)
        def _tzv(i_):
            return rows[i_]["fields"]["dtfs"]["fields"]["tz"].get("variant")
        hour_only = [i_ for i_ in members if _tzv(i_) == "zp" and _tzg(i_) and (_tzg(i_)["max_len"] or 99) <= 5]
        def _is_full(i_):
            g_ = _tzg(i_)
            if not g_ or _tzv(i_) not in ("z", "zc"):
                return False
            if g_.get("language"):
                return all(len(z) >= 5 and z[0] in "+-\u2212" for z in g_["language"])
            return (g_["min_len"] or 0) >= 5
        full = [i_ for i_ in members if _is_full(i_)]
        if not hour_only or not full:
            continue
        nfam += 1
        for t_ in hour_only:
            eT = rows[t_]["fields"]["range_regex"]["fields"]["end"]
            for p2 in full:
                eP = rows[p2]["fields"]["range_regex"]["fields"]["end"]
                bounded = res[p2].get("anchored_start") and res[p2].get("max_len") is not None and res[p2]["max_len"] <= eP
                key_ = "row|%s|vs|%s" % (rows[p2]["fields"]["dtfs"]["fields"]["pattern"], pre_[:50])
                rep.examined(R410, "family %d|rows %d,%d" % (nfam, t_, p2), sample={"hour_only_row": t_, "line": rows[t_]["fields"].get("_line_num"), "searches_to": eT, "full_offset_row": p2,
                                                                                    "full_line": rows[p2]["fields"].get("_line_num"), "full_searches_to": eP, "full_row_bounded_by_anchor": bool(bounded)})
                if eP < eT and not bounded:
                    rep.violation(R410, "%s|%d<%d" % (key_, eP, eT), "DATETIME_PARSE_DATAS[%d] (source line %s, %s) searches bytes 0..%d while its hour-only sibling row %d (source line %s, %%#z) searches 0..%d: "
                                  "a timestamp whose offset ends between byte %d and %d is matched only by the hour-only row and `+05:30` is read as +05:00" % (
                                      p2, rows[p2]["fields"].get("_line_num"), rows[p2]["fields"]["dtfs"]["fields"]["pattern"], eP, t_, rows[t_]["fields"].get("_line_num"), eT, eP, eT))
    if nfam < 20:
        raise CheckerError("R4.10: only %d zone-notation families found (expected >= 20)" % nfam)

    # ------------------------------------------------------------ R4.11 an hour-only zone row cannot swallow the first half of a four-digit offset
    # `+0530` under an hour-only row (`%#z`, group `[+-]\d\d`) is read as +05:00 when the row's pattern
    # lets digits follow the captured hour and no sibling reading four digits is tried before it.
    R411 = rep.rule("R4.11", "where digits may follow an hour-only zone group, a four-digit sibling row is tried first")
    import re as _re4

    def _py(rx_):
        for a_, b_ in (("[[:^digit:]]", "[^0-9]"), ("[[:digit:]]", "[0-9]"), ("[[:blank:]]", "[ \t]"), ("[[:^alpha:]]", "[^A-Za-z]"), ("[[:alpha:]]", "[A-Za-z]"),
                       ("[[:^alnum:]]", "[^A-Za-z0-9]"), ("[[:alnum:]]", "[A-Za-z0-9]"), ("[[:space:]]", "\\s"), ("[[:^space:]]", "\\S"), ("[[:upper:]]", "[A-Z]"), ("[[:lower:]]", "[a-z]")):
            rx_ = rx_.replace(a_, b_)
        if "[[:" in rx_ or "[:" in rx_.replace("[:]", ""):
            return None
        try:
            return _re4.compile(rx_)
        except _re4.error:
            return None
    n411 = 0
    for pre_, members in fam_.items():
        for t_ in members:
            if rows[t_]["fields"]["dtfs"]["fields"]["tz"].get("variant") != "zp":
                continue
            p_ = rows[t_]["fields"]["regex_pattern"]
            after_ = p_[len(pre_):]
            depth_ = 0
            cut_ = None
            for ci, ch_ in enumerate(after_):
                if ch_ == "(" and (ci == 0 or after_[ci - 1] != "\\"):
                    depth_ += 1
                elif ch_ == ")" and after_[ci - 1] != "\\":
                    depth_ -= 1
                    if depth_ == 0:
                        cut_ = ci + 1
                        break
            if cut_ is None:
                raise CheckerError("R4.11: cannot isolate the tz group of row %d" % t_)
            rem_ = after_[cut_:]
            n411 += 1
            if rem_ == "":
                digit_follows = True
            else:
                cre = _py(rem_)
                if cre is None:
                    raise CheckerError("R4.11: cannot evaluate what may follow the zone group of row %d: %r" % (t_, rem_[:40]))
                digit_follows = any(cre.match(x_) for x_ in ("30", "30 ", "30 x", "3", "00", "45:", "30]", "30\""))
            eT = rows[t_]["fields"]["range_regex"]["fields"]["end"]
            four = [i_ for i_ in members if i_ < t_ and rows[i_]["fields"]["dtfs"]["fields"]["tz"].get("variant") == "z" and _tzg(i_) and (_tzg(i_)["min_len"] or 0) >= 5
                    and rows[i_]["fields"]["range_regex"]["fields"]["end"] >= eT]
            rep.examined(R411, "row %d" % t_, sample={"row": t_, "line": rows[t_]["fields"].get("_line_num"), "after_zone_group": rem_[:30], "digit_may_follow": digit_follows, "four_digit_siblings_tried_first": four})
            if digit_follows and not four:
                rep.violation(R411, "row|%s|hour-only-swallows-four-digit-offset" % p_[:48], "DATETIME_PARSE_DATAS[%d] (source line %s, %%#z) lets digits follow its two-digit zone group and no sibling row reading `+HHMM` precedes it: "
                              "`%s+0530` is attributed +05:00, half an hour off" % (t_, rows[t_]["fields"].get("_line_num"), "<14>2023-02-01T15:00:36" if p_.startswith("^<") else "..."))
    if n411 < 25:
        raise CheckerError("R4.11: only %d hour-only rows examined (expected >= 25)" % n411)

    # ------------------------------------------------------------ R4.18 a row that carries a zone looks at all the bytes its own pattern can span
    # bytes_to_regex_to_datetime applies each pattern to `line[range_regex]` only, and the end of that
    # slice satisfies the `$` alternatives of the trailing guards.  When a row anchored at the start of
    # the line admits a longer text than its slice (full month names, optional commas and double blanks,
    # the three-byte minus sign), the zone is cut: `+05:45` matches an hour-only sibling as `+05`, `PETT`
    # as `PET`, or the zone-less sibling wins (instants 15 min to 17 h off).  For every start-anchored row
    # with a zone group and a finite longest match: range end >= longest match.
    R418 = rep.rule("R4.18", "a start-anchored row searches at least as far as its own longest match")
    n418 = 0
    short418 = []
    for i_, r_ in enumerate(rows):
        if not res[i_].get("anchored_start") or res[i_].get("max_len") is None:
            continue
        # (rows without a zone group too: what is cut there is the year or the time, and a year-less sibling takes the line)
        n418 += 1
        e_ = r_["fields"]["range_regex"]["fields"]["end"]
        if res[i_]["max_len"] > e_:
            short418.append((i_, r_["fields"].get("_line_num"), e_, res[i_]["max_len"], r_["fields"]["dtfs"]["fields"]["pattern"]))
    rep.examined(R418, "table|start-anchored zone rows", sample={"rows_examined": n418, "rows_whose_longest_match_exceeds_their_slice": [(x_[0], x_[1], x_[2], x_[3]) for x_ in short418][:12]})
    for (i_, ln_, e_, ml_, pat_) in short418:
        rep.violation(R418, "row|%s|slice-%d<%d|tz-%s|%s" % (pat_, e_, ml_, rows[i_]["fields"]["dtfs"]["fields"]["tz"].get("variant"), rows[i_]["fields"]["regex_pattern"][:40]), "DATETIME_PARSE_DATAS[%d] (source line %s, %s) is applied to bytes 0..%d of a line, but its own pattern can span %d bytes; a timestamp in one of its longer spellings "
                      "(a long month name, doubled blanks, the U+2212 minus) has its zone cut off: `+05:45` is read as +05, `PETT` as PET, or a zone-less sibling takes the line" % (i_, ln_, pat_, e_, ml_))
    if n418 < 10:
        raise CheckerError("R4.18: only %d start-anchored zone rows with a finite longest match" % n418)

    # ------------------------------------------------------------ R4.19 a month group that accepts dotted abbreviations accepts them for all twelve months
    # `Jan.` ... `Dec.` with a dot are ordinary spellings (date(1) in several locales, RFC-ish mail logs).
    # A month group whose finite language has `jan.` but not `may.` silently fails for one month of the
    # year: the line is not recognised and is glued to the previous message (defect F54; `May` is the one
    # month whose abbreviation equals its name, which is how the alternative got lost).
    R419 = rep.rule("R4.19", "a month group with dotted abbreviations has them for every month")
    ABBR = ("jan", "feb", "mar", "apr", "may", "jun", "jul", "aug", "sep", "oct", "nov", "dec")
    seen419 = set()
    n419 = 0
    for i_, r_ in enumerate(rows):
        lang_ = _mlang(i_) if "_mlang" in dir() else None
        if lang_ is None:
            g_ = next((g2_ for g2_ in res[i_].get("groups", []) if g2_["name"] == "month"), None)
            lang_ = set(x_.lower() for x_ in g_["language"]) if g_ and g_.get("language") else None
        if not lang_ or frozenset(lang_) in seen419:
            continue
        seen419.add(frozenset(lang_))
        n419 += 1
        dotted_ = [a_ for a_ in ABBR if a_ + "." in lang_]
        plain_ = [a_ for a_ in ABBR if a_ in lang_]
        missing_ = [a_ for a_ in plain_ if dotted_ and a_ + "." not in lang_]
        rep.examined(R419, "month-language#%d" % n419, sample={"first_row": i_, "months_with_dotted_abbreviation": len(dotted_), "months_without": missing_})
        if missing_:
            rep.violation(R419, "month-group|dotted-missing|%s" % "+".join(missing_), "DATETIME_PARSE_DATAS[%d] (source line %s): the month group accepts dotted abbreviations for %d months but not for %s; a timestamp written `%s.` in this notation is not recognised and its line is glued to the previous message"
                          % (i_, r_["fields"].get("_line_num"), len(dotted_), missing_, missing_[0].capitalize()))
    if n419 < 2:
        raise CheckerError("R4.19: only %d distinct month languages found" % n419)

    # ------------------------------------------------------------ R4.17 a full-offset row accepts every month spelling its hour-only sibling accepts
    # Rows that are equal up to the zone group *and up to the month group* are one notation in several
    # spellings.  If the hour-only row (`%#z`) accepts month spellings (full names) that the row reading
    # `+HH:MM` / `+HHMM` does not, a line with such a month and a four-digit offset matches only the
    # hour-only row: `Thu February 27 00:33:59 2020 -03:30` was read as -03:00 (defect F50).
    R417 = rep.rule("R4.17", "within a notation, the full-offset rows accept every month spelling of the hour-only row")
    mfam_ = _col.defaultdict(list)
    mre_ = _re4.compile(r"\(\?P<month>")
    for pre_, members in fam_.items():
        k_ = pre_.find("(?P<month>")
        if k_ < 0:
            continue
        # cut the month group out of the prefix
        d_ = 0
        end_ = None
        for ci in range(k_, len(pre_)):
            ch_ = pre_[ci]
            if ch_ == "(" and (ci == 0 or pre_[ci - 1] != "\\"):
                d_ += 1
            elif ch_ == ")" and pre_[ci - 1] != "\\":
                d_ -= 1
                if d_ == 0:
                    end_ = ci + 1
                    break
        if end_ is None:
            continue
        mfam_[pre_[:k_] + "<MONTH>" + pre_[end_:]].extend(members)

    def _mlang(i_):
        g_ = next((g2_ for g2_ in res[i_].get("groups", []) if g2_["name"] == "month"), None)
        return set(x_.lower() for x_ in g_["language"]) if g_ and g_.get("language") else None
    n417 = 0
    for key_, members in mfam_.items():
        hs_ = [i_ for i_ in members if rows[i_]["fields"]["dtfs"]["fields"]["tz"].get("variant") == "zp" and _mlang(i_)]
        fs_ = [i_ for i_ in members if rows[i_]["fields"]["dtfs"]["fields"]["tz"].get("variant") in ("z", "zc") and _mlang(i_)]
        for h_ in hs_:
            for f_ in fs_:
                n417 += 1
                miss_ = sorted(_mlang(h_) - _mlang(f_))
                rep.examined(R417, "rows %d,%d" % (h_, f_), sample={"hour_only_row": h_, "line": rows[h_]["fields"].get("_line_num"), "full_offset_row": f_, "full_line": rows[f_]["fields"].get("_line_num"),
                                                                     "month_spellings_only_the_hour_only_row_accepts": miss_[:4]})
                if miss_:
                    rep.violation(R417, "row|%s|%s|month-spellings" % (rows[f_]["fields"]["dtfs"]["fields"]["pattern"], key_[:40]), "DATETIME_PARSE_DATAS[%d] (source line %s, %s) does not accept the month spellings %s that its hour-only sibling row %d (source line %s, %%#z) accepts; "
                                  "a timestamp with such a month and a `-03:30` offset is matched only by the hour-only row and read as -03:00" % (f_, rows[f_]["fields"].get("_line_num"), rows[f_]["fields"]["dtfs"]["fields"]["pattern"], miss_[:3], h_, rows[h_]["fields"].get("_line_num")))
    if n417 < 4:
        raise CheckerError("R4.17: only %d (hour-only, full-offset) row pairs with a month group found" % n417)

    # ------------------------------------------------------------ R4.12 the numeric zone rows of a family agree on what may precede the zone
    # Rows that read the same notation with `+HHMM`, `+HH:MM` and `+HH` differ in the zone group only.
    # If one of them demands a blank before the zone where its siblings make it optional, a timestamp
    # written without the blank in that one notation falls through to the zone-less sibling: the
    # written offset is dropped and the wall clock is read in --tz-offset.
    import re as _re412
    R412 = rep.rule("R4.12", "numeric-zone sibling rows accept the same separator before the zone group")
    SEP412 = _re412.compile(r"(\[\[:blank:\]\][?*+]?|\[\[:blank:\]\]\{[0-9,]+\})$")
    fam412 = _col.defaultdict(list)
    for i, r_ in enumerate(rows):
        p_ = r_["fields"]["regex_pattern"]
        k_ = p_.find("(?P<tz>")
        if k_ < 0:
            continue
        pre_ = p_[:k_]
        m_ = SEP412.search(pre_)
        sep_ = m_.group(1) if m_ else ""
        fam412[pre_[:len(pre_) - len(sep_)]].append((i, sep_, r_["fields"]["dtfs"]["fields"]["tz"].get("variant")))
    n412 = 0
    for pre_, mem in fam412.items():
        numeric = [(i, sp) for i, sp, tv in mem if tv in ("z", "zc", "zp")]
        if len(numeric) < 2:
            continue
        n412 += 1
        seps = sorted({sp for _i, sp in numeric})
        rep.examined(R412, "family#%d|%s" % (n412, pre_[-40:]), sample={"rows": [i for i, _sp in numeric], "separators_before_zone": seps})
        if len(seps) > 1:
            # the odd one out
            cnt = _col.Counter(sp for _i, sp in numeric)
            odd = [(i, sp) for i, sp in numeric if cnt[sp] == min(cnt.values())]
            rep.violation(R412, "family|%s|separator" % pre_[-60:], "DATETIME_PARSE_DATAS[%d] (source line %s) wants %r before its zone group while its numeric-zone siblings want %r: "
                          "a timestamp written in that one notation %s the blank is not read by it and falls to a sibling that ignores the offset" % (
                              odd[0][0], rows[odd[0][0]]["fields"].get("_line_num"), odd[0][1], [sp for sp in seps if sp != odd[0][1]][0], "without" if odd[0][1] in ("[[:blank:]]", "[[:blank:]]+") else "with"))
    if n412 < 20:
        raise CheckerError("R4.12: only %d families with two or more numeric-zone rows" % n412)

    # ------------------------------------------------------------ R4.13 a tie between notations is decided towards the front of the table
    # After the first lines of a file the reader keeps the most-used pattern.  The table is ordered from
    # specific to general (a row with a zone precedes its zone-less sibling), so on a tie the row nearer
    # the front has to win: the counts live in a BTreeMap keyed by table index and the surplus is removed
    # from the back.  `Iterator::max_by_key`/`max_by`/`max` return the *last* of equal maxima, `last()`,
    # `rev()`, `next_back()` and `pop_first()` prefer the back: with them a 1:1 tie between `+05:30` and the
    # zone-less notation drops the written offset for the whole file.
    R413 = rep.rule("R4.13", "the most-used-pattern selection never prefers the later table row on a tie")
    ab_ = prog.body("s4lib::readers::syslinereader::SyslineReader::dt_patterns_analysis")
    back_pref = []
    on_counts = 0
    for fb_ in [ab_] + list(prog.closures_in(ab_.path)):
        for c in fb_.live_calls():
            nm_ = (c.o or c.d).split("::")[-1]
            st_ = (c.callee.get("self") or "")
            touches = "BTreeMap" in st_ or "btree_map" in st_ or "btree" in c.d
            if touches:
                on_counts += 1
            if "Values" in st_:
                continue        # the maximum *count* is a value, not a choice between rows
            if (nm_ in ("max_by_key", "max_by", "max", "last", "rev", "next_back") and ("btree" in st_.lower() or "btree" in str(c.callee.get("ga", "")).lower() or "btree" in c.d.lower())) or (nm_ == "pop_first" and touches):
                back_pref.append((nm_, c.line))
    rep.examined(R413, ab_.path + "|tie", sample={"calls_on_the_count_map": on_counts, "back_preferring_selections": back_pref})
    if on_counts == 0:
        raise CheckerError("dt_patterns_analysis: no call on the BTreeMap of pattern counts")
    if back_pref:
        rep.violation(R413, ab_.path + "|tie|back-preferred", "dt_patterns_analysis (line %d) selects the pattern to keep with %s(), which on equal counts prefers the row nearer the END of the table (the more general one); "
                      "a short file whose second line lacks the zone its other lines carry is then read with the zone-less pattern and every written offset is ignored" % (back_pref[0][1], back_pref[0][0]))

    # ------------------------------------------------------------ R4.14 a zone name is not the beginning of a longer word
    # Rows that read a named zone capture one of the table's abbreviations.  What follows the group has
    # to exclude a letter, or the first letters of an ordinary word are taken for a zone:
    # `... 14:35:05.506282 getting started` is read with GET (+04:00), four hours off.
    R414 = rep.rule("R4.14", "after a named-zone group a letter cannot follow")
    n414 = 0
    for i, r_ in enumerate(rows):
        if r_["fields"]["dtfs"]["fields"]["tz"].get("variant") not in ("Z",):
            continue
        p_ = r_["fields"]["regex_pattern"]
        k_ = p_.find("(?P<tz>")
        if k_ < 0:
            continue
        after_ = p_[k_:]
        depth_, cut_ = 0, None
        for ci, ch_ in enumerate(after_):
            if ch_ == "(" and (ci == 0 or after_[ci - 1] != "\\"):
                depth_ += 1
            elif ch_ == ")" and after_[ci - 1] != "\\":
                depth_ -= 1
                if depth_ == 0:
                    cut_ = ci + 1
                    break
        if cut_ is None:
            raise CheckerError("R4.14: cannot isolate the tz group of row %d" % i)
        rem_ = after_[cut_:]
        n414 += 1
        if rem_ == "":
            letter_follows = True
        else:
            cre = _py(rem_)
            if cre is None:
                raise CheckerError("R4.14: cannot evaluate what may follow the zone group of row %d: %r" % (i, rem_[:40]))
            letter_follows = any(cre.match(x_) for x_ in ("ting started", "x", "H established", "a ", "Z"))
        rep.examined(R414, "row %d" % i, sample={"row": i, "line": r_["fields"].get("_line_num"), "after_zone_group": rem_[:30], "letter_may_follow": letter_follows})
        if letter_follows:
            rep.violation(R414, "row|%s|zone-name-prefix-of-word" % p_[:48], "DATETIME_PARSE_DATAS[%d] (source line %s): a letter may follow the captured zone name (%r), so a word that merely begins with an abbreviation is read as a zone: "
                          "`...05.506282 getting started` is attributed GET (+04:00), `WITH ...` WIT (+09:00)" % (i, r_["fields"].get("_line_num"), rem_[:30]))
    if n414 < 20:
        raise CheckerError("R4.14: only %d named-zone rows" % n414)

    # ------------------------------------------------------------ R4.8 the --tz-offset value itself (lift of C14 R14.4, R14.8)
    # "A timestamp without zone information is read in the --tz-offset zone": the option's parser is part
    # of this property; its structural rules live in C14 and are lifted here.
    import contextlib as _cl4, io as _io4
    import c14 as _c14
    from common import Report as _Rep4
    R48 = rep.rule("R4.8", "the --tz-offset option resolves to the offset it denotes (from C14 R14.4, R14.8)")
    _s14 = _Rep4("C14", "quick", dict(rep.meta))
    _s14.finish = lambda *a, **k: 0
    with _cl4.redirect_stdout(_io4.StringIO()):
        _c14.run(prog, _s14, "quick")
    for (rid_, key_, what_, det_) in _s14.violations:
        if rid_ in ("R14.4", "R14.8"):
            rep.violation(R48, key_.split("|", 1)[1], what_)
    for rid_ in ("R14.4", "R14.8"):
        for k_ in sorted(_s14.rules.get(rid_, {}).get("keys", ())):
            rep.examined(R48, "%s|%s" % (rid_, k_), sample={"rule": rid_, "instance": k_})
    rep.floor("R4.8", 2)

    # ------------------------------------------------------------ R4.9 the zone text filled in for zone-less timestamps denotes the fallback offset
    # A timestamp without (or with an ambiguous) zone is completed with SyslineReader.tz_offset_string
    # before chrono parses it.  That text must be a rendering of the same FixedOffset as the reader's
    # tz_offset: chrono's own Display, or a hand-written +HH:MM that takes sign and magnitude apart
    # before dividing (signmag).  Also applied to every other body that reads a FixedOffset's signed seconds.
    import signmag as _sm
    import mir as _mir
    R49 = rep.rule("R4.9", "the fallback-zone text is rendered from the same offset, sign and magnitude taken apart before dividing")
    # positive control: the detector fires on a minimal hand-built body (seconds.div_euclid(60) on local_minus_utc())
    _ctl = _mir.Body({"path": "control::floor_split", "kind": "fn", "span": "control:1:1", "argc": 1,
                      "locals": [{"ty": "i32"}, {"ty": "&chrono::FixedOffset", "name": "off"}, {"ty": "i32", "name": "seconds"}, {"ty": "i32"}],
                      "blocks": [{"s": [], "t": ["call", {"o": "chrono::FixedOffset::local_minus_utc", "ga": [], "d": "chrono::FixedOffset::local_minus_utc", "f": "chrono::FixedOffset::local_minus_utc", "self": "chrono::FixedOffset", "aty": [], "line": 1}, [["cp", [1]]], [2], 1], "l": 1},
                                 {"s": [], "t": ["call", {"o": "core::num::<impl i32>::div_euclid", "ga": [], "d": "core::num::<impl i32>::div_euclid", "f": "core::num::<impl i32>::div_euclid", "self": "i32", "aty": [], "line": 2}, [["cp", [2]], ["k", "i32", 60]], [0], 2], "l": 2},
                                 {"s": [], "t": ["ret"], "l": 3}]})
    if not _sm.splits_of_signed(_ctl):
        raise CheckerError("R4.9: positive control of the sign/magnitude detector did not fire")
    nb_ = prog.body("s4lib::readers::syslinereader::SyslineReader::new")
    found49 = 0
    for bb in sorted(nb_.live):
        for st in nb_.stmts(bb):
            if st[0] == "=" and st[2][0] == "agg" and isinstance(st[2][1], dict) and st[2][1].get("adt", "").endswith("SyslineReader") and "tz_offset_string" in st[2][1].get("fields", []):
                flds = st[2][1]["fields"]
                o_s = nb_.origins(st[2][2][flds.index("tz_offset_string")])
                o_o = nb_.origins(st[2][2][flds.index("tz_offset")], through_calls=("Clone>::clone", "::clone"))
                found49 += 1
                verdict = []
                for x in o_s:
                    if x[0] != "call":
                        verdict.append(("not-a-call", str(x[:2])))
                        continue
                    cc_ = [z for z in nb_.calls if z.bb == x[1]][0]
                    src_ = set()
                    for a in cc_.args:
                        src_ |= {y[:2] for y in nb_.origins(a, through_calls=("Clone>::clone", "::clone", "::deref"))}
                    same = bool(src_) and src_ == {y[:2] for y in o_o}
                    nm_ = (cc_.o or cc_.d)
                    if not same:
                        verdict.append(("other-offset", nm_))
                    elif nm_.endswith("ToString::to_string") and cc_.callee.get("self") == "chrono::FixedOffset":
                        verdict.append(("chrono-display", nm_))
                    elif cc_.d in prog.facts.bodies:
                        sp_ = _sm.splits_of_signed(prog.body(cc_.d))
                        verdict.append(("hand-written-bad" if sp_ else "hand-written", nm_, sp_))
                    else:
                        verdict.append(("unrecognised", nm_))
                rep.examined(R49, nb_.path + "|tz_offset_string", sample={"rendered_by": [list(v[:2]) for v in verdict]})
                for v in verdict:
                    if v[0] == "other-offset":
                        rep.violation(R49, nb_.path + "|tz_offset_string|source", "SyslineReader::new: tz_offset_string is rendered (%s) from a value other than the tz_offset stored beside it; zone-less timestamps would be completed with a different zone than the one used for naive datetimes" % v[1])
                    if v[0] == "hand-written-bad":
                        rep.violation(R49, nb_.path + "|tz_offset_string|sign-magnitude", "%s (line %d) applies %s to the signed second count of the offset: a negative offset with a minute part is rendered wrong "
                                      "(-03:30 as -04:30), so timestamps completed with the fallback zone text are attributed an instant one hour off" % (v[1].split("::")[-1], v[2][0][0], v[2][0][1]))
    if found49 != 1:
        raise CheckerError("R4.9: %d constructions of SyslineReader with tz_offset_string in SyslineReader::new" % found49)
    for ob_ in prog.bodies():
        if not (ob_.path.startswith("s4lib::") or ob_.path.startswith("s4::")) or "_tests" in ob_.path:
            continue
        sp_ = _sm.splits_of_signed(ob_)
        if sp_ is None:
            continue
        rep.examined(R49, ob_.path + "|signed-seconds", sample={"fn": ob_.path, "splits_of_raw_signed_count": sp_})
        if sp_:
            rep.violation(R49, ob_.path + "|signed-seconds", "%s (line %d) applies %s to a FixedOffset's signed second count without taking the magnitude first: negative offsets with a minute part come out wrong (-03:30 as -04:30 or -03:-30)" % (ob_.path.split("::")[-1], sp_[0][0], sp_[0][1]))

    # ------------------------------------------------------------ R4.15 messages dated by a pattern that lost the analysis are parsed again
    # Stage 1 tries every pattern on the first messages, then dt_patterns_analysis() keeps the one that
    # matched most.  Messages already stored were dated by whichever pattern matched them first - possibly
    # one that reads the zone differently - so when more than one pattern was in use *before* the analysis
    # they are cleared and parsed again.  That decision needs the count taken before the analysis: after
    # it the count is always 1 and the re-parse never runs (first message of the file keeps an instant
    # computed by a pattern the rest of the file is not read with).
    R415 = rep.rule("R4.15", "the decision to re-parse the stage-1 messages uses the pattern count taken before the pattern analysis")
    bz415 = prog.body("s4lib::readers::syslogprocessor::SyslogProcessor::blockzero_analysis_syslines")
    ana_ = [c for c in bz415.live_calls() if c.d.endswith("SyslineReader::dt_patterns_analysis")]
    clr_ = [c for c in bz415.live_calls() if c.d.endswith("SyslineReader::clear_syslines")]
    cnt_ = [c for c in bz415.live_calls() if c.d.endswith("SyslineReader::dt_patterns_counts_in_use")]
    if len(ana_) != 1 or not clr_ or not cnt_:
        raise CheckerError("R4.15: blockzero_analysis_syslines: %d analysis, %d clear_syslines, %d count calls" % (len(ana_), len(clr_), len(cnt_)))
    for cl_ in clr_:
        # the switch that guards the re-parse: nearest dominating switch whose condition derives from a count call
        guards_ = []
        for bb in sorted(bz415.live):
            t_ = bz415.term(bb)
            if t_[0] != "switch" or not bz415.dominates(bb, cl_.bb) or bb == cl_.bb:
                continue
            srcs_ = set()
            for o_ in bz415.origins(t_[1], through_calls=("::not",)):
                if o_[0] == "bin":
                    st_ = bz415.stmts(o_[1])[o_[2]]
                    for a_ in (st_[2][2], st_[2][3]):
                        if a_[0] != "k":
                            for o2_ in bz415.origins(a_):
                                if o2_[0] == "call" and o2_[2].endswith("dt_patterns_counts_in_use"):
                                    srcs_.add(o2_[1])
                elif o_[0] == "call" and o_[2].endswith("dt_patterns_counts_in_use"):
                    srcs_.add(o_[1])
            if srcs_:
                guards_.append((bb, srcs_))
        if not guards_:
            raise CheckerError("R4.15: clear_syslines (line %d) is not guarded by a test of dt_patterns_counts_in_use()" % cl_.line)
        gbb_, srcs_ = guards_[-1]
        stale_ = [x_ for x_ in srcs_ if bz415.dominates(ana_[0].bb, x_)]
        rep.examined(R415, bz415.path + "|reparse-guard", sample={"clear_syslines_line": cl_.line, "guard_line": bz415.blocks[gbb_].get("l"), "count_taken_at_lines": sorted(bz415.blocks[x_].get("l") for x_ in srcs_), "analysis_line": ana_[0].line, "count_taken_after_the_analysis": bool(stale_)})
        if stale_:
            rep.violation(R415, bz415.path + "|reparse-guard|count-after-analysis", "blockzero_analysis_syslines: the test that decides whether the stage-1 messages are parsed again (line %s) uses a pattern count taken after dt_patterns_analysis() (line %s), "
                          "which is always 1; messages dated during stage 1 by a pattern that then lost the analysis keep that pattern's reading (an offset ignored, a zone name missed) while the rest of the file is read with the winner"
                          % (bz415.blocks[gbb_].get("l"), bz415.blocks[stale_[0]].get("l")))

    # ------------------------------------------------------------ R4.16 no two same-typed arguments change places on the way to the callee
    # The options reach the workers and the printers as long positional argument lists in which several
    # parameters share a type (two FixedOffsets: the zone log lines are read in, the zone datetimes are
    # printed in).  The compiler cannot tell them apart; the names can: a caller variable named like
    # parameter B passed for parameter A *and* vice versa is an exchange.  Exact cross-overs only.
    import argswap as _as_R416
    R416 = rep.rule("R4.16", "the zone values reach the readers under their own parameter (no exchanged same-typed arguments)")
    sw_R416 = _as_R416.scan(prog)
    for x_ in sw_R416:
        rep.examined(R416, "%s->%s@%s" % (x_["caller"], x_["callee"], x_["line"]), sample=({k_: x_[k_] for k_ in ("caller", "callee", "same_typed_parameter_pairs", "swapped")} if x_["swapped"] or "processing_loop" in x_["callee"] else None))
        for (i_, j_, a_, b_, t_) in x_["swapped"]:
            if not ("FixedOffset" in t_ or "DateTime" in t_):
                continue
            rep.violation(R416, "%s->%s|%s<->%s" % (x_["caller"], x_["callee"], a_, b_), "%s (line %s) calls %s with its `%s` in the place of parameter `%s` and its `%s` in the place of `%s` (both %s): zone-less timestamps are then read in the zone meant for printing"
                          % (x_["caller"], x_["line"], x_["callee"].split("::")[-1], b_, a_, a_, b_, t_))
    if len(sw_R416) < 50:
        raise CheckerError("R4.16: only %d calls with same-typed parameter pairs found" % len(sw_R416))

    return rep.finish(
        "Static check, for all strings of the regular language of each of the table's rows: the byte pre-check chosen for the row (helper byte "
        "classes read from the helpers' MIR, selection read from ezcheck_slice and DTFSSet::has_year4/has_d2) never rejects a string the regex "
        "matches; every capture group the converter unwraps for the row is on every match path; day/fraction lengths fit; fraction arms pad to "
        "nine digits; capturable month spellings are accepted by the month converter (its decision tree enumerated); capturable zone names are "
        "keys of the zone table; cgn_first/last exist.",
        ["chrono's mapping of the normalised buffer to an instant", "which row wins for a line (row order / shadowing)", "--tz-offset arithmetic",
         "year inference (C11)"])
