"""C01 — merged output chronological, deterministic tie rule.

Decides necessary conditions in processing_loop / recv_many_chan / process_path / main:
  R1.1 selection = Iterator::min_by over the ordered pending map (BTreeMap keyed by PathId, no
       adapters) with a closure that returns DateTime<FixedOffset>::cmp(first.dt(), second.dt()).
  R1.2 every print call is dominated by "channel count == pending count" and "all FileInfo received".
  R1.3 a source with a pending message is not polled (recv_many_chan skips iff filter.contains(key))
       and the pending map and its shadow set are updated together with the same key.
  R1.4 source order: PathIds come from enumerate() over the drained results, main appends
       process_path results in argument order, the directory walker is sorted (sort(true)).
  R1.5 per-source FIFO: one bounded/unbounded crossbeam channel per worker.
Does not decide: that each reader yields its messages in file/time order; concrete outputs; timing.
"""
from mir import CheckerError, op_local
import decide

PL = "s4::processing_loop"
PENDING_ITEM = "(s4lib::data::common::LogMessage, bool)"
SELECTORS = ("min_by", "min_by_key", "max_by", "max_by_key", "min", "max", "reduce", "fold", "last", "find", "position", "next", "nth", "next_back")


def pending_map_locals(b):
    return [i for i, l in enumerate(b.locals) if PENDING_ITEM in l["ty"] and ("Map<" in l["ty"]) and not l["ty"].startswith("&")]


def run(prog, rep, tier):
    R11 = rep.rule("R1.1", "selection is first-minimum-by-instant over the PathId-ordered pending map")
    R12 = rep.rule("R1.2", "print only when every live source has a pending message and all FileInfo arrived")
    R13 = rep.rule("R1.3", "pending sources are not polled; pending map and shadow set agree")
    R14 = rep.rule("R1.4", "source order = argument order / sorted walk")
    R15 = rep.rule("R1.5", "per-source FIFO channel")
    b = prog.body(PL)

    # ------------------------------------------------------------ R1.1
    pm = pending_map_locals(b)
    if len(pm) != 1:
        raise CheckerError("processing_loop: %d pending-datum map locals" % len(pm))
    pm_ty = b.local_ty(pm[0])
    rep.examined(R11, PL + "|pending-map-type", sample={"pending_map": b.local_name(pm[0]), "type": pm_ty})
    if not pm_ty.startswith("std::collections::BTreeMap<usize, "):
        rep.violation(R11, PL + "|pending-map-type", "processing_loop: the pending-message map is %s; ties between sources are resolved by its iteration order, which must be PathId order (BTreeMap<PathId, _>)" % pm_ty)
    sel = []
    for c in b.live_calls():
        selfty = c.callee.get("self") or ""
        if "Iterator" in (c.callee.get("trait") or "") and PENDING_ITEM in selfty and c.o.split("::")[-1] in SELECTORS:
            # for-loops over the map use next(): only count selections that yield the printed message
            if c.o.endswith("::next"):
                continue
            sel.append(c)
    rep.examined(R11, PL + "|selection", sample={"selection_calls": [c.f[:160] for c in sel]})
    if len(sel) != 1:
        rep.violation(R11, PL + "|selection", "processing_loop: expected exactly one selection over the pending map, found %d (%s)" % (len(sel), [c.o for c in sel]))
    else:
        c = sel[0]
        name = c.o.split("::")[-1]
        selfty = c.callee.get("self") or ""
        ok_iter = selfty.startswith("std::collections::btree_map::Iter<") or selfty.startswith("std::collections::btree_map::IterMut<")
        key_is_dt = False
        if name == "min_by_key" and ok_iter:
            # tolerated equivalent: min_by_key whose key is the message's DateTime itself
            for x in b.origins(c.args[1]):
                kc = None
                if x[0] == "agg":
                    k = b.stmts(x[1])[x[2]][2][1]
                    kc = k.get("closure") if isinstance(k, dict) else None
                elif x[0] == "const" and "closure" in x[1]:
                    import json as _j
                    kc = _j.loads(x[1]).get("closure")
                if kc:
                    kb = prog.body(kc)
                    ro = kb.origins(["cp", [0]], through_calls=("::deref", "::clone"))
                    if kb.local_ty(0) == "chrono::DateTime<chrono::FixedOffset>" and ro and all(
                            y[0] == "call" and y[2].endswith("LogMessage::dt") for y in ro):
                        key_is_dt = True
        if key_is_dt:
            rep.examined(R11, PL + "|comparator", sample={"min_by_key": "key is LogMessage::dt()"})
        elif name != "min_by" or not ok_iter:
            rep.violation(R11, PL + "|selection", "processing_loop: the next message is selected with %s over %s; the property needs Iterator::min_by (first minimum) directly over the BTreeMap iterator" % (name, selfty.split("<")[0]))
        else:
            # receiver must be the pending map's iter()/iter_mut() with no adapter in between
            o = b.origins(c.args[0])
            direct = all(x[0] == "call" and (x[2].endswith("::iter_mut") or x[2].endswith("::iter")) and "BTreeMap" in x[2] for x in o)
            if not direct:
                rep.violation(R11, PL + "|selection", "processing_loop: the iterator given to min_by is not the pending map's own iter()/iter_mut()")
            # closure
            clos = None
            a = c.args[1]
            for x in b.origins(a):
                if x[0] == "agg":
                    st = b.stmts(x[1])[x[2]]
                    k = st[2][1]
                    if isinstance(k, dict) and "closure" in k:
                        clos = k["closure"]
                elif x[0] == "const" and "closure" in x[1]:
                    import json
                    clos = json.loads(x[1]).get("closure")
            if clos is None and a[0] == "k" and isinstance(a[2], dict):
                clos = a[2].get("closure") or a[2].get("fn")
            if clos is None:
                raise CheckerError("processing_loop: cannot resolve the comparator closure of min_by")
            cb = prog.body(clos)
            cmps = [x for x in cb.live_calls()]
            last = None
            ret_or = cb.origins(["cp", [0]])
            good = False
            why = "comparator does not return DateTime::cmp(first.dt(), second.dt())"
            if len(ret_or) == 1:
                r = next(iter(ret_or))
                if r[0] == "call":
                    cc = [x for x in cb.calls if x.bb == r[1]][0]
                    if cc.o == "std::cmp::Ord::cmp" and "chrono::DateTime<chrono::FixedOffset>" in (cc.callee.get("self") or ""):
                        def arg_src(op):
                            res = set()
                            for y in cb.origins(op, through_calls=("::deref",)):
                                if y[0] == "call" and y[2].endswith("LogMessage::dt"):
                                    inner = [z for z in cb.calls if z.bb == y[1]][0]
                                    for w in cb.origins(inner.args[0]):
                                        if w[0] == "arg":
                                            res.add(w[1])
                                else:
                                    res.add(("other", y[0], y[2] if len(y) > 2 else ""))
                            return res
                        a0, a1 = arg_src(cc.args[0]), arg_src(cc.args[1])
                        if a0 == {2} and a1 == {3}:
                            good = True
                        else:
                            why = "comparator compares %s with %s (expected first.dt() with second.dt(), in that order)" % (sorted(map(str, a0)), sorted(map(str, a1)))
                    else:
                        why = "comparator returns %s, not <DateTime<FixedOffset> as Ord>::cmp" % cc.f[:120]
            rep.examined(R11, PL + "|comparator", sample={"closure": clos, "returns": [str(x) for x in ret_or]})
            if not good:
                rep.violation(R11, PL + "|comparator", "processing_loop: %s" % why)

    # ------------------------------------------------------------ R1.2
    prints = [c for c in b.live_calls() if c.d.startswith("s4lib::printer::printers::PrinterLogMessage::print_")]
    if len(prints) < 4:
        raise CheckerError("processing_loop: %d print calls" % len(prints))
    W1 = None
    for bb in sorted(b.live):
        t = b.term(bb)
        if t[0] != "switch":
            continue
        l = op_local(t[1])
        ds = b.defs.get(l, []) if l is not None else []
        if len(ds) == 1 and ds[0][1] != "call" and ds[0][2][0] == "bin":
            rv = ds[0][2]
            srcs = []
            for o in (rv[2], rv[3]):
                oo = b.origins(o)
                srcs.append(sorted(x[2] for x in oo if x[0] == "call"))
            flat = [s[0] if s else "" for s in srcs]
            if all(f.endswith("::len") for f in flat) and len(flat) == 2:
                # which maps?
                kinds = []
                for o in (rv[2], rv[3]):
                    for x in b.origins(o):
                        if x[0] == "call":
                            cc = [z for z in b.calls if z.bb == x[1]][0]
                            kinds.append(cc.callee.get("self") or cc.f)
                if any("Receiver<s4::ChanDatum>" in k for k in kinds) and any(PENDING_ITEM in k for k in kinds):
                    W1 = (bb, rv[1], t)
                    W1_len_blocks = [x[1] for o in (rv[2], rv[3]) for x in b.origins(o) if x[0] == "call"]
    if W1 is None:
        raise CheckerError("processing_loop: wait condition comparing channel count with pending count not found")
    w1bb, op, t1 = W1
    rep.examined(R12, PL + "|wait-cond", sample={"block": w1bb, "operator": op})
    if op != "Ne":
        rep.violation(R12, PL + "|wait-cond", "processing_loop: the wait condition compares live-channel count and pending count with %s; it must be != (print only when every live source has a pending message)" % op)
    # both counts are taken afresh on every round of the coordinator loop: the channel registry shrinks
    # whenever a source is done, a count read once before the loop never equals the pending count again
    # after the first source has finished (nothing more is printed, the loop ends on recv None)
    loops_w1 = [h_ for (s_, h_) in b.back_edges() if w1bb in b.loop_blocks(h_) or w1bb == h_]
    if not loops_w1:
        raise CheckerError("processing_loop: the wait condition is not inside a loop")
    for lb_ in W1_len_blocks:
        inside_ = all(lb_ in b.loop_blocks(h_) or lb_ == h_ for h_ in loops_w1)
        rep.examined(R12, PL + "|wait-cond|count@%s" % ("loop" if inside_ else "before-loop"), sample={"len_call_block": lb_, "inside_the_coordinator_loop": inside_})
        if not inside_:
            rep.violation(R12, PL + "|wait-cond|stale-count", "processing_loop: one of the two counts compared by the wait condition (line %s) is taken outside the coordinator loop; the registry of live channels shrinks as sources finish, "
                          "so after the first source has ended the comparison never holds again: the remaining sources' pending messages are never printed (s4 a.log b.log loses the tail of the longer file)" % b.blocks[lb_].get("l"))
    z1 = dict((int(v), tb) for v, tb in t1[2]).get(0)
    if z1 is None:
        raise CheckerError("processing_loop: wait condition switch has no zero arm")
    # second conjunct: received_fileinfo.is_empty()
    W2 = None
    for c in b.live_calls():
        if c.d.endswith("::is_empty") and "HashMap<usize, bool>" in (c.callee.get("self") or c.f) and c.bb in b.reachable(z1) and c.target is not None:
            t = b.term(c.target)
            if t[0] == "switch" and op_local(t[1]) == c.dest[0] and b.dominates(z1, c.bb):
                W2 = (c.target, t)
                break
    if W2 is None:
        rep.violation(R12, PL + "|fileinfo-cond", "processing_loop: after the count test, printing is not conditioned on all FileInfo having been received (received_fileinfo.is_empty())")
        t2true = z1
    else:
        w2bb, t2 = W2
        t2true = t2[3] if dict((int(v), tb) for v, tb in t2[2]).get(0) is not None else None
        if t2true is None:
            raise CheckerError("processing_loop: FileInfo condition switch shape")
    for c in prints:
        inst = "%s|%s" % (PL, c.d.split("::")[-1])
        d1 = b.dominates(z1, c.bb) and b.pred[z1] == [w1bb]
        d2 = b.dominates(t2true, c.bb) and (W2 is None or b.pred[t2true] == [W2[0]])
        rep.examined(R12, inst, sample={"print": c.d.split("::")[-1], "dominated_by_counts_equal": d1, "dominated_by_all_fileinfo": d2})
        if not (d1 and d2):
            rep.violation(R12, inst, "processing_loop: %s can be reached without %s" % (c.d.split("::")[-1],
                          "the channel-count == pending-count test" if not d1 else "the all-FileInfo-received test"))

    # ------------------------------------------------------------ R1.3
    rm = prog.body(PL + "::recv_many_chan")
    contains = [c for c in rm.live_calls() if c.d.endswith("HashSet::<T, S>::contains") or (c.d.endswith("::contains") and "HashSet" in c.d)]
    recvs = [c for c in rm.live_calls() if c.d.endswith("::recv") and "crossbeam_channel::Select" in c.d and "SelectedOperation" not in c.d]
    rep.examined(R13, rm.path + "|skip", sample={"contains_calls": len(contains), "select_recv_calls": len(recvs)})
    filt_ok = None
    if len(contains) == 0 and len(recvs) == 1:
        # iterator form: `for (..) in chans.iter().filter(|(id, _)| !filter.contains(id)) .. { select.recv(chan) }`
        # the registered channel comes from next() of a chain that contains Iterator::filter with a closure of
        # this function; that closure returns the negation of HashSet::contains(filter, its item's key)
        import re as _re13
        flt = [c for c in rm.live_calls() if (c.o or c.d).endswith("Iterator::filter") or c.d.endswith("::filter")]
        chan_calls = set(x[2].split("::")[-1] for x in rm.origins(recvs[0].args[1]) if x[0] == "call")
        if len(flt) == 1 and "next" in chan_calls and rm.dominates(flt[0].bb, recvs[0].bb):
            m_ = _re13.search(r"\{closure@([^ :]+:\d+:\d+)", str(flt[0].callee.get("ga")))
            cl_ = None
            for cb_ in prog.closures_in(rm.path):
                if m_ and cb_.j.get("span", "").startswith(m_.group(1)):
                    cl_ = cb_
            if cl_ is not None:
                cc_ = [c for c in cl_.live_calls() if c.d.endswith("::contains") and "HashSet" in c.d]
                if len(cc_) == 1:
                    # polarity: the closure's result is Not(contains(..))
                    neg = False
                    for bb_ in sorted(cl_.live):
                        for st_ in cl_.stmts(bb_):
                            if st_[0] == "=" and st_[1] == [0] and st_[2][0] == "un" and st_[2][1] == "Not" and op_local(st_[2][2]) == cc_[0].dest[0]:
                                neg = True
                    key_from_item = any(x[0] == "arg" and x[1] == 2 for x in cl_.origins(cc_[0].args[1]))
                    set_from_capture = any(x[0] == "arg" and x[1] == 1 for x in cl_.origins(cc_[0].args[0]))
                    filt_ok = neg and key_from_item and set_from_capture
                    rep.examined(R13, rm.path + "|skip|filter-closure", sample={"closure": cl_.path, "keeps_items_not_in_the_set": neg, "key_is_the_item": key_from_item, "set_is_captured": set_from_capture})
        if filt_ok is False:
            rep.violation(R13, rm.path + "|skip", "recv_many_chan: the filter closure of the channel iterator does not keep exactly the channels whose PathId is NOT in the filter set")
    if filt_ok:
        pass
    elif len(contains) != 1 or len(recvs) != 1:
        rep.violation(R13, rm.path + "|skip", "recv_many_chan: expected one filter.contains() test guarding one select.recv() registration (found %d, %d)" % (len(contains), len(recvs)))
    else:
        cc, rc = contains[0], recvs[0]
        t = rm.term(cc.target)
        ok = False
        if t[0] == "switch" and op_local(t[1]) == cc.dest[0]:
            false_t = dict((int(v), tb) for v, tb in t[2]).get(0)
            true_t = t[3]
            if false_t is not None and rm.dominates(false_t, rc.bb) and rc.bb not in rm.reachable(true_t, {cc.bb} | set(h for _, h in rm.back_edges())):
                ok = True
        src_filter = set(x[1] for x in rm.origins(cc.args[0]) if x[0] == "arg")
        key_o = rm.origins(cc.args[1])
        chan_o = rm.origins(rc.args[1])
        same_item = any(x[0] == "call" and x[2].endswith("::next") for x in key_o) and \
            set(x[1] for x in key_o if x[0] == "call") == set(x[1] for x in chan_o if x[0] == "call")
        if not ok:
            rep.violation(R13, rm.path + "|skip", "recv_many_chan: a channel is registered for receiving although its PathId is in the filter set (or skipped although it is not)")
        if src_filter != {3}:
            rep.violation(R13, rm.path + "|filter-arg", "recv_many_chan: the membership test is not on the filter parameter")
        if not same_item:
            rep.violation(R13, rm.path + "|same-item", "recv_many_chan: the tested key and the registered channel are not the same map entry")
    # call site passes the shadow set
    rcall = [c for c in b.live_calls() if c.d == PL + "::recv_many_chan"]
    if len(rcall) != 1:
        raise CheckerError("processing_loop: %d recv_many_chan calls" % len(rcall))
    sets = [i for i, l in enumerate(b.locals) if l["ty"].startswith("std::collections::HashSet<usize") and l.get("name")]
    # the shadow set is the HashSet<usize> passed as the filter
    shadow = set()
    for x in b.origins(rcall[0].args[2]):
        if x[0] == "local":
            shadow.add(x[1])
        if x[0] in ("call",):
            d = b.term(x[1])[3]
            shadow.add(d[0])
    shadow_named = [s for s in shadow if b.local_name(s)]
    rep.examined(R13, PL + "|filter-is-shadow", sample={"filter_local": [b.local_name(s) for s in shadow_named]})
    if len(shadow_named) != 1:
        raise CheckerError("processing_loop: cannot identify the shadow set passed to recv_many_chan")
    sh = shadow_named[0]

    def on_local(c, l):
        for x in b.origins(c.args[0]):
            if x[0] == "local" and x[1] == l:
                return True
            if x[0] == "call" and b.term(x[1])[3][0] == l:
                return True
        return False

    def key_var(op):
        res = set()
        for x in b.origins(op):
            if x[0] in ("local", "arg"):
                res.add((x[0], x[1]))
            elif x[0] == "call":
                res.add(("call", x[1]))
            else:
                res.add((x[0],) + tuple(x[1:2]))
        return res

    map_ops = [c for c in b.live_calls() if c.d.startswith("std::collections::") and "Map" in c.d and c.d.split("::")[-1] in ("insert", "remove") and on_local(c, pm[0])]
    set_ops = [c for c in b.live_calls() if "HashSet" in c.d and c.d.split("::")[-1] in ("insert", "remove") and on_local(c, sh)]
    hdrs = set(h for _, h in b.back_edges())
    for m in map_ops:
        kind = m.d.split("::")[-1]
        partners = []
        for s in set_ops:
            if s.d.split("::")[-1] != kind:
                continue
            if key_var(s.args[1]) & key_var(m.args[1]) or True:
                # same iteration: every path from the map op onwards to any loop header passes the set op
                after = b.reachable_after(m.bb, {s.bb})
                escapes = any(h in after for h in hdrs) or any(b.term(x)[0] == "ret" for x in after)
                if not escapes and s.bb in b.reachable_after(m.bb):
                    partners.append(s)
        inst = "%s|map-%s@%s" % (PL, kind, "recv" if kind == "insert" else "printed")
        same_key = any(key_var(s.args[1]) & key_var(m.args[1]) for s in partners)
        rep.examined(R13, inst, sample={"map_op": kind, "paired_set_ops": len(partners), "same_key": same_key})
        if not partners:
            rep.violation(R13, inst, "processing_loop: pending-map %s is not followed on every path by the same %s on the shadow set used as the poll filter" % (kind, kind))
        elif not same_key:
            rep.violation(R13, inst, "processing_loop: pending-map %s and shadow-set %s use different keys" % (kind, kind))
    # set inserts with no map insert (e.g. stale filter entries) are tolerated only if a map insert of the same key dominates... report count
    rep.examined(R13, PL + "|ops", sample={"map_ops": len(map_ops), "set_ops": len(set_ops)})
    if len(map_ops) < 2:
        raise CheckerError("processing_loop: pending map has %d insert/remove sites" % len(map_ops))

    # ------------------------------------------------------------ R1.4
    # PathId = index of enumerate() over the drained results
    enum_calls = [c for c in b.live_calls() if c.o.endswith("Iterator::enumerate") and "Drain<" in (c.callee.get("self") or "") and "ProcessPathResult" in (c.callee.get("self") or "")]
    rep.examined(R14, PL + "|pathid-enumerate", sample={"enumerate_over": [c.callee.get("self") for c in enum_calls]})
    if len(enum_calls) != 1:
        rep.violation(R14, PL + "|pathid-enumerate", "processing_loop: PathIds are not taken from enumerate() over the drained path results (found %d)" % len(enum_calls))
    else:
        o = b.origins(enum_calls[0].args[0])
        okd = all(x[0] == "call" and x[2].endswith("::drain") for x in o)
        if not okd:
            rep.violation(R14, PL + "|pathid-enumerate", "processing_loop: an adapter sits between drain(..) and enumerate(); PathId order would differ from argument order")
    mb = prog.body("s4::main")
    pp = [c for c in mb.live_calls() if c.d.endswith("filepreprocessor::process_path")]
    pushes = [c for c in mb.live_calls() if c.d.endswith("Vec::<T, A>::push") or (c.d.endswith("::push") and "Vec" in c.d)]
    iters = [c for c in mb.live_calls() if c.d.endswith("::iter") and "String" in c.f]
    rep.examined(R14, "s4::main|append-in-order", sample={"process_path_calls": len(pp), "push_calls": len(pushes)})
    # path expansion handed to other threads: the results come back in completion order
    pp_closures = []
    for cb_ in prog.bodies():
        if cb_.path.startswith("s4::main::{closure"):
            if any(c.d.endswith("filepreprocessor::process_path") for c in cb_.live_calls()):
                sends_ = [c.d.split("::")[-1] for c in cb_.live_calls() if "Sender" in c.d and c.d.split("::")[-1] in ("send", "try_send", "send_timeout")]
                pp_closures.append((cb_.path, sends_))
    for cp_, sends_ in pp_closures:
        if sends_:
            rep.violation(R14, "s4::main|append-in-order|expanded-in-threads", "main: a path argument is expanded by process_path inside %s and its result is sent over a channel; the source list is then assembled in the order "
                          "the expansions finish (and behind the arguments expanded inline), not in command-line order, so ties between sources are no longer broken by argument order" % cp_.split("::", 2)[-1])
    if len(pp) != 1:
        if not any(s_ for _p, s_ in pp_closures):
            raise CheckerError("main: %d process_path calls" % len(pp))
    if len(pp) == 1:
        # the argument of process_path is the item of a forward slice iteration over `paths`
        o = mb.origins(pp[0].args[0])
        fwd = all(x[0] == "call" and x[2].endswith("Iterator>::next") or (x[0] == "call" and x[2].endswith("::next")) for x in o)
        nexts = [c for c in mb.live_calls() if c.o.endswith("Iterator::next")]
        rev = [c for c in mb.live_calls() if c.o.split("::")[-1] in ("rev", "sort", "sort_unstable", "sort_by", "dedup", "reverse", "sort_by_key", "swap")]
        if rev:
            rep.violation(R14, "s4::main|append-in-order", "main: the path list is reordered (%s) before processing" % [c.o for c in rev])
        if not fwd:
            rep.violation(R14, "s4::main|append-in-order", "main: process_path is not applied to the paths in iteration order")
        self_tys = [c.callee.get("self") or "" for c in nexts]
        if any("Rev<" in s for s in self_tys):
            rep.violation(R14, "s4::main|append-in-order", "main: a reversed iteration feeds the path list")
        if not pushes:
            rep.violation(R14, "s4::main|append-in-order", "main: results of process_path are not appended with push()")
    # walker sorted
    wb = prog.body("s4lib::readers::filepreprocessor::process_path")
    sorts = [c for c in wb.live_calls() if c.d.endswith("WalkDirGeneric::<C>::sort") or (c.d.endswith("::sort") and "WalkDir" in c.d)]
    walks = [c for c in wb.live_calls() if "WalkDirGeneric" in c.d and c.d.endswith("::new")]
    into = [c for c in wb.live_calls() if c.o.endswith("IntoIterator::into_iter") and "WalkDirGeneric" in (c.callee.get("self") or "")]
    rep.examined(R14, wb.path + "|sorted-walk", sample={"walkers": len(walks), "sort_calls": [str(c.args[1]) for c in sorts]})
    if not walks or not into:
        raise CheckerError("process_path: directory walker not found")
    for it in into:
        # the iterated walker must have had sort(true) applied
        chain = []
        cur = it.args[0]
        found = False
        for _ in range(8):
            o = [x for x in wb.origins(cur) if x[0] == "call"]
            if len(o) != 1:
                break
            cc = [z for z in wb.calls if z.bb == o[0][1]][0]
            chain.append(cc.d.split("::")[-1])
            if cc.d.split("::")[-1] == "sort":
                a = cc.args[1]
                if a[0] == "k" and a[2] is True:
                    found = True
                break
            if not cc.args:
                break
            cur = cc.args[0]
        if not found:
            rep.violation(R14, wb.path + "|sorted-walk", "process_path: the directory walker that is iterated is not configured with sort(true) (builder chain: %s)" % chain)

    # ------------------------------------------------------------ R1.5
    chans = [c for c in b.live_calls() if c.d.startswith("crossbeam_channel::") and c.d.split("::")[-1].split("<")[0] in ("bounded", "unbounded")]
    others = [c for c in b.live_calls() if c.d.startswith("crossbeam_channel::") and c.d.split("::")[-1] in ("after", "tick", "never", "at")]
    spawn = [c for c in b.live_calls() if c.d.endswith("Builder::spawn") or c.d.endswith("thread::spawn")]
    rep.examined(R15, PL + "|channel", sample={"constructors": [c.f for c in chans], "spawns": len(spawn)})
    if len(chans) != 1 or len(spawn) != 1:
        rep.violation(R15, PL + "|channel", "processing_loop: expected one FIFO channel constructor and one spawn per source (found %d, %d)" % (len(chans), len(spawn)))
    else:
        hd = [h for (tl, h) in b.back_edges() if chans[0].bb in b.loop_blocks(h) and spawn[0].bb in b.loop_blocks(h)]
        if not hd:
            rep.violation(R15, PL + "|channel", "processing_loop: channel creation and thread spawn are not in the same per-source loop")

    # ------------------------------------------------------------ R1.6 the instants being merged (lifts)
    # The merge orders messages by the datetime each reader attached.  A reader that attaches the wrong
    # instant to some messages (a fraction padded wrongly, microseconds read from the seconds field,
    # the year inferred one too high) makes the merged output unsorted although the merge itself is
    # right.  The rules that decide those derivations live with their own properties and are lifted.
    import contextlib as _cl1, io as _io1
    from common import Report as _Rep1
    R16 = rep.rule("R1.6", "each kind of source attaches the instant its text denotes (from C04 R4.2/R4.6/R4.7, C08 R8.4/R8.11, C11 R11.4/R11.8)")
    import c04 as _c04, c08 as _c08, c11 as _c11
    n16 = 0
    for mod_, pid_, rids_ in ((_c04, "C04", ("R4.2", "R4.6", "R4.7")), (_c08, "C08", ("R8.4", "R8.11")), (_c11, "C11", ("R11.4", "R11.8"))):
        sub_ = _Rep1(pid_, "quick", dict(rep.meta))
        sub_.finish = lambda *a, **k: 0
        with _cl1.redirect_stdout(_io1.StringIO()):
            mod_.run(prog, sub_, "quick")
        for (rid_, key_, what_, det_) in sub_.violations:
            if rid_ in rids_:
                known_ = False
                rep.violation(R16, key_.split("|", 1)[1] + "|" + rid_, what_)
        for rid_ in rids_:
            ks_ = sorted(sub_.rules.get(rid_, {}).get("keys", ()))
            n16 += len(ks_)
            for k_ in ks_[:6]:
                rep.examined(R16, "%s|%s" % (rid_, k_), sample={"rule": rid_, "instance": k_})
    # journal entries: the instant each renderer stores is the receive time (C09 R9.11)
    import c09 as _c09
    sub9_ = _Rep1("C09", "quick", dict(rep.meta))
    r9_ = sub9_.rule("R9.11", "lift")
    _c09.r911(prog, sub9_, r9_)
    for (rid_, key_, what_, det_) in sub9_.violations:
        rep.violation(R16, key_.split("|", 1)[1] + "|R9.11", what_)
    for k_ in sorted(sub9_.rules["R9.11"]["keys"]):
        n16 += 1
        rep.examined(R16, "R9.11|%s" % k_, sample={"rule": "R9.11", "instance": k_})
    if n16 < 20:
        raise CheckerError("R1.6: only %d lifted instances" % n16)

    # ------------------------------------------------------------ R1.7 a printed message has left the source's private buffer
    # Each source prints through its own PrinterLogMessage, which batches bytes in a private buffer.
    # "The next message printed is the earliest pending one" needs every print call to hand its bytes
    # to stdout before it reports Ok; otherwise messages of other sources chosen later overtake it.
    import printflush as _pf
    R17 = rep.rule("R1.7", "every printer body returns Ok only with its private buffer written out (path-sensitive, helpers summarised)")
    _pf.check(prog, rep, R17, floor=24)

    # ------------------------------------------------------------ R1.8 no two same-typed arguments change places on the way to the callee
    # The options reach the workers and the printers as long positional argument lists in which several
    # parameters share a type (two FixedOffsets: the zone log lines are read in, the zone datetimes are
    # printed in).  The compiler cannot tell them apart; the names can: a caller variable named like
    # parameter B passed for parameter A *and* vice versa is an exchange.  Exact cross-overs only.
    import argswap as _as_R18
    R18 = rep.rule("R1.8", "no call passes two same-typed named arguments in the place of each other (whole program)")
    sw_R18 = _as_R18.scan(prog)
    for x_ in sw_R18:
        rep.examined(R18, "%s->%s@%s" % (x_["caller"], x_["callee"], x_["line"]), sample=({k_: x_[k_] for k_ in ("caller", "callee", "same_typed_parameter_pairs", "swapped")} if x_["swapped"] or "processing_loop" in x_["callee"] else None))
        for (i_, j_, a_, b_, t_) in x_["swapped"]:
            if not (True):
                continue
            rep.violation(R18, "%s->%s|%s<->%s" % (x_["caller"], x_["callee"], a_, b_), "%s (line %s) calls %s with its `%s` in the place of parameter `%s` and its `%s` in the place of `%s` (both %s): the callee then works with exchanged values (instants read in the wrong zone shift one source against the others; ties are no longer ties)"
                          % (x_["caller"], x_["line"], x_["callee"].split("::")[-1], b_, a_, a_, b_, t_))
    if len(sw_R18) < 50:
        raise CheckerError("R1.8: only %d calls with same-typed parameter pairs found" % len(sw_R18))

    return rep.finish(
        "Static necessary-condition check of the merge: the selection is Iterator::min_by (first minimum) directly over a BTreeMap keyed by PathId "
        "with a comparator returning DateTime::cmp(first.dt(), second.dt()); every print is dominated by 'live channels == pending messages' and "
        "'all FileInfo received'; sources with a pending message are not polled and pending map / shadow set are updated together; PathIds follow "
        "argument order (enumerate over drain, in-order append in main) and directory walks are sorted; one FIFO channel per worker.",
        ["that each reader yields its own messages in file/time order", "actual output for concrete timestamp multisets", "timing / scheduling"])
