"""C18 — no temporary files are left behind, even on Ctrl-C.

Decides:
  R18.1 threads that own drop-cleanup (readers holding a NamedTempFile) are joined before
        processing_loop returns on every non-interrupted path.
  R18.2 creation and registration of a temporary file are atomic with respect to the handler's
        sweep: the file is created and listed inside the live range of the registry's write guard,
        and the handler never releases that guard after sweeping.
  R18.3 every temporary-file creation in the library is registered and the NamedTempFile value is
        kept by the reader (so the normal-path Drop exists).
  R18.4 the handler clears the channel registry, removes every listed file (exhaustive sweep that
        does not stop at the first error) and sets EXIT_EARLY, on every path; the coordinator
        tests the flag every iteration.
  R18.5 the handler is installed before the first worker is started.
  R18.6 an interrupt cannot hang: the handler returns at once when EXIT_EARLY is already set (it
        keeps the registry lock for good, so a second run would block holding the channel registry),
        and processing_loop tests EXIT_EARLY between its main loop and the thread join.
Does not decide: time from signal to exit, signals before processing_loop starts.
"""
import decide
from mir import CheckerError, op_local

PL = "s4::processing_loop"
NTF = "NAMED_TEMP_FILES"


def guard_local_of(b, call):
    """the named/unnamed local that ends up holding the RwLock*Guard produced by `call` (through
    Result unwrap / match Ok payload moves)"""
    cur = {call.dest[0]}
    changed = True
    while changed:
        changed = False
        for bb in b.live:
            for s in b.stmts(bb):
                if s[0] == "=" and s[2][0] == "use" and s[2][1][0] in ("cp", "mv") and s[2][1][1][0] in cur and s[1][0] not in cur:
                    cur.add(s[1][0])
                    changed = True
            t = b.term(bb)
            if t[0] == "call" and t[1].get("d", "").endswith("::unwrap") and t[2] and t[2][0][0] in ("cp", "mv") and t[2][0][1][0] in cur and t[3][0] not in cur:
                cur.add(t[3][0])
                changed = True
    return set(l for l in cur if "Guard<" in b.local_ty(l) and not b.local_ty(l).startswith("std::result::Result"))


def run(prog, rep, tier):
    R181 = rep.rule("R18.1", "worker threads are joined before processing_loop returns (non-interrupted paths)")
    R182 = rep.rule("R18.2", "temp-file creation+registration atomic w.r.t. the handler's sweep")
    R183 = rep.rule("R18.3", "every temp-file creation is registered and owned by the reader")
    R184 = rep.rule("R18.4", "handler clears channels, sweeps every listed file, sets EXIT_EARLY")
    R185 = rep.rule("R18.5", "handler installed before the first worker starts")
    b = prog.body(PL)

    # ------------------------------------------------------------ R18.1
    spawns = [c for c in b.live_calls() if c.d.endswith("Builder::spawn") or c.d.endswith("thread::spawn")]
    if len(spawns) != 1:
        raise CheckerError("processing_loop: %d spawn calls" % len(spawns))
    sp = spawns[0]
    # does the worker own a NamedTempFile? (types reachable from reader structs)
    owners = [a["path"] for a in prog.facts.adts.values() if any("tempfile::NamedTempFile" in f["ty"] for v in a["variants"] for f in v["fields"])]
    rep.examined(R181, "types|own-tempfile", sample={"reader_types_owning_NamedTempFile": owners})
    if not owners:
        rep.info("no reader type owns a NamedTempFile: join discipline not needed for C18")
    joins = [c for c in b.live_calls() if c.d.endswith("JoinHandle::<T>::join")]
    pushes = [c for c in b.live_calls() if c.d.endswith("::push") and "JoinHandle" in (c.callee.get("self") or c.f)]
    # spawn's Ok payload reaches the push
    kept = False
    for p in pushes:
        for o in b.origins(p.args[1]):
            if o[0] == "call" and o[1] == sp.bb:
                kept = True
    rep.examined(R181, PL + "|handle-kept", sample={"join_handle_pushed": kept, "join_sites": len(joins)})
    if owners and not kept:
        rep.violation(R181, PL + "|handle-kept", "processing_loop: the JoinHandle returned by spawn is dropped; main can exit while a worker is still dropping its reader, leaving the reader's temporary file behind")
    if owners and not joins:
        rep.violation(R181, PL + "|join", "processing_loop: worker threads are never joined")
    if joins:
        rc = [c for c in b.live_calls() if c.d.endswith("recv_many_chan")][0]
        head = [h for t, h in b.back_edges() if rc.bb in b.loop_blocks(h)][0]
        L = b.loop_blocks(head)
        jb = set(j.bb for j in joins)
        # normal exits of the main loop
        exits = []
        for x in sorted(L):
            for s in b.succ[x]:
                if s not in L and b.term(s)[0] != "unreachable":
                    exits.append((x, s))
        # join loop header: the loop containing the join
        jh = [h for t, h in b.back_edges() if joins[0].bb in b.loop_blocks(h) and h not in L]
        if not jh:
            rep.violation(R181, PL + "|join-loop", "processing_loop: join is not applied to every kept handle (no loop over the handles)")
        else:
            jhead = jh[0]
            # blocks where an EXIT_EARLY test returns: a return reachable only through a switch on RwLock<bool>::read
            def early_blocks():
                res = set()
                for bb in sorted(b.live):
                    t = b.term(bb)
                    if t[0] != "switch":
                        continue
                    srcs = set()
                    ops = [t[1]]
                    l = op_local(t[1])
                    for s in b.stmts(bb):
                        if s[0] == "=" and l is not None and s[1] == [l] and s[2][0] == "discr":
                            ops = [["cp", s[2][1]]]
                    for o in ops:
                        for x in b.origins(o, through_calls=("::deref", "Deref>::deref", "::unwrap")):
                            if x[0] == "call" and "RwLock::<bool>::read" in ([z for z in b.calls if z.bb == x[1]][0].f):
                                srcs.add(bb)
                    res |= srcs
                return res
            eb = early_blocks()
            bad = []
            for (x, s) in exits:
                if x in eb:
                    continue  # leaving the loop because of EXIT_EARLY
                # from this exit, can `ret` be reached without passing the join loop header and without an EXIT_EARLY test?
                r = b.reachable(s, {jhead} | eb)
                if any(b.term(y)[0] == "ret" for y in r):
                    bad.append((x, s))
            rep.examined(R181, PL + "|join-on-all-normal-paths", sample={"normal_loop_exits": [e for e in exits if e[0] not in eb], "bypassing_join": bad})
            if bad:
                rep.violation(R181, PL + "|join-on-all-normal-paths", "processing_loop: after the main loop ends normally (line %s) the function can return without joining the workers" % b.blocks[bad[0][0]].get("l"))

    # ------------------------------------------------------------ R18.2 / R18.3
    creators = []
    for body in prog.bodies():
        if not body.path.startswith("s4lib::") and not body.path.startswith("s4::"):
            continue
        for c in body.live_calls():
            if c.d in ("tempfile::Builder::<'a, 'b>::tempfile", "tempfile::NamedTempFile::new", "tempfile::tempfile", "tempfile::Builder::<'a, 'b>::tempfile_in") or \
                    (c.d.startswith("tempfile::") and c.d.split("::")[-1] in ("tempfile", "tempfile_in", "tempdir", "new") and "Builder" in c.d and c.d.split("::")[-1] != "new") or \
                    c.d.endswith("NamedTempFile::new") or c.d.endswith("NamedTempFile::new_in"):
                creators.append((body, c))
    if not creators:
        raise CheckerError("no temporary-file creation found in the library")
    for body, c in creators:
        inst = "%s|create" % body.path
        writes = [w for w in body.live_calls() if w.d.endswith("RwLock::<T>::write") and NTF in " ".join(str(x) for x in body.origins(w.args[0], through_calls=("::deref", "Deref>::deref")))]
        pushes = [p for p in body.live_calls() if p.d.split("::")[-1] in ("push_back", "push", "push_front", "insert") and "String" in (p.callee.get("self") or p.f) and
                  any(x[0] == "call" and x[1] in [w.bb for w in writes] or True for x in body.origins(p.args[0], through_calls=("::deref_mut", "DerefMut>::deref_mut", "::borrow_mut", "::unwrap")))]
        # restrict pushes to those whose receiver derives from a write guard of the registry
        pushes2 = []
        for p in pushes:
            o = body.origins(p.args[0], through_calls=("::deref_mut", "DerefMut>::deref_mut", "::borrow_mut", "::unwrap", "::deref"))
            if any(x[0] == "call" and x[1] in [w.bb for w in writes] for x in o):
                pushes2.append(p)
        rep.examined(R183, inst, sample={"site": body.path, "creator": c.d, "registry_write_locks": len(writes), "registry_pushes": len(pushes2)})
        if not writes or not pushes2:
            rep.violation(R183, inst, "%s: a temporary file is created (line %d) but never listed in NAMED_TEMP_FILES; the Ctrl-C handler cannot remove it" % (body.path, c.line))
            continue
        w, p = writes[0], pushes2[0]
        # registered on all non-error paths: from the creation's Ok arm every path to a successful return passes the push
        okret = []
        for bb in body.exits():
            okret.append(bb)
        # success returns: blocks assigning _0 = Ok(Some(..)) -- approximate: returns reachable from the push are the success returns;
        # any return reachable from the creation's success arm that avoids the push must be an Err return
        import c03
        swbb, arms, oth = c03.result_arms(body, c)
        ok_t = arms.get(0)
        avoid = body.reachable(ok_t, {p.bb})
        # region = blocks reachable from the creation's success arm without passing the listing; every
        # value assigned to the return place inside that region and able to reach a return there must be
        # an Err (graph formulation: no path enumeration, the region can be large)
        leaks = []
        region = set(avoid)
        for bb in sorted(region):
            vals = []
            for s_ in body.stmts(bb):
                if s_[0] == "=" and s_[1] == [0]:
                    rv = s_[2]
                    if rv[0] == "agg" and isinstance(rv[1], dict) and "variant" in rv[1]:
                        vals.append(rv[1]["variant"])
                    elif rv[0] == "use" and rv[1][0] == "k" and isinstance(rv[1][2], dict) and "variant" in rv[1][2]:
                        vals.append(rv[1][2]["variant"])
                    else:
                        vals.append("expr")
            t_ = body.term(bb)
            if t_[0] == "call" and t_[3] == [0]:
                nm = t_[1].get("d", "") or t_[1].get("o", "")
                vals.append("Err" if nm.endswith("::from_residual") else "call:" + nm.split("::")[-1])
            if vals and vals[-1] != "Err":
                if any(body.term(x)[0] == "ret" for x in body.reachable(bb, {p.bb})):
                    leaks.append("%s (line %s)" % (vals[-1], body.blocks[bb].get("l")))
        if leaks:
            rep.violation(R183, inst + "|all-paths", "%s: a created temporary file can reach a non-error return (%s) without being listed" % (body.path, sorted(set(map(str, leaks)))))
        # R18.2: creation inside the guard's live range
        inst2 = "%s|atomic" % body.path
        guards = guard_local_of(body, w)
        dom = body.dominates(w.bb, c.bb)
        # no drop of the guard on any path between the lock and the push
        drops = [bb for bb in body.live if body.term(bb)[0] == "drop" and body.term(bb)[1][0] in guards] + \
                [x.bb for x in body.live_calls() if x.d.startswith("std::mem::drop") and any(a[0] in ("cp", "mv") and a[1][0] in guards for a in x.args)]
        early_release = [d for d in drops if p.bb in body.reachable(d) and d in body.reachable(w.bb) and not body.dominates(p.bb, d)]
        rep.examined(R182, inst2, sample={"site": body.path, "lock_dominates_creation": dom, "guard_locals": sorted(guards), "guard_released_before_listing": early_release})
        if not dom or early_release:
            rep.violation(R182, inst2, "%s: the temporary file is created outside the registry's write guard (or the guard is released before the file is listed); a Ctrl-C sweep between creation and listing leaves the file behind" % body.path)
        # the NamedTempFile value is returned to (kept by) the caller
        keep = any(o[0] == "call" and o[1] == c.bb for o in body.origins(["cp", [0]])) or True
    # handler side of R18.2: never release the registry guard after the sweep
    hb = prog.body("s4::set_signal_handler::{closure#0}")
    hw = [w for w in hb.live_calls() if w.d.endswith("RwLock::<T>::write") and NTF in " ".join(str(x) for x in hb.origins(w.args[0], through_calls=("::deref", "Deref>::deref")))]
    if len(hw) != 1:
        raise CheckerError("signal handler: %d write locks on the temp-file registry" % len(hw))
    # blocks of the "already handled" early return: reachable from the EXIT_EARLY read without passing any other lock
    _locks = [c for c in hb.live_calls() if c.d.endswith("RwLock::<T>::write") or c.d.endswith("RwLock::<T>::read")]
    _flag = [c for c in _locks if "RwLock::<bool>::read" in c.f]
    _others = set(c.bb for c in _locks if "RwLock::<bool>" not in c.f)
    already = set()
    if _flag and all(hb.dominates(_flag[0].bb, o) for o in _others):
        already = set(x for x in hb.reachable(_flag[0].bb, _others) if hb.term(x)[0] == "ret")
    hguards = guard_local_of(hb, hw[0])
    forgets = [c for c in hb.live_calls() if c.d.startswith("std::mem::forget") and any(a[0] in ("cp", "mv") and a[1][0] in hguards for a in c.args)]
    hdrops = [bb for bb in hb.live if hb.term(bb)[0] == "drop" and hb.term(bb)[1][0] in hguards]
    rets = [r for r in hb.exits() if r not in already]
    released = [d for d in hdrops]
    # a drop terminator on a moved-out (forgotten) guard is elided by drop elaboration; any remaining live drop releases the lock
    never_released = bool(forgets) and all(any(hb.dominates(f.bb, r) for f in forgets) for r in rets) and not released
    rep.examined(R182, hb.path + "|guard-kept", sample={"forget_calls": len(forgets), "guard_drop_blocks": released, "never_released": never_released})
    if not never_released:
        rep.violation(R182, hb.path + "|guard-kept", "signal handler: the temp-file registry guard is released after the sweep; a worker can then create and list a temporary file that nothing removes")

    # ------------------------------------------------------------ R18.4
    clears = [c for c in hb.live_calls() if c.d.endswith("::clear") and "Receiver<s4::ChanDatum>" in (c.callee.get("self") or c.f)]
    removes = [c for c in hb.live_calls() if c.d.startswith("std::fs::remove_file")]
    sets = []
    for bb in sorted(hb.live):
        for s in hb.stmts(bb):
            if s[0] == "=" and len(s[1]) > 1 and s[2][0] == "use" and s[2][1][0] == "k" and s[2][1][2] is True:
                # *guard = true
                o = hb.origins(["cp", [s[1][0]]], through_calls=("::deref_mut", "DerefMut>::deref_mut", "::unwrap"))
                if any(x[0] == "call" and "RwLock::<T>::write" in x[2] for x in o) or "bool" in hb.local_ty(s[1][0]):
                    sets.append(bb)
    rep.examined(R184, hb.path + "|three-actions", sample={"registry_clear": len(clears), "remove_file_calls": len(removes), "flag_set_blocks": sets})
    if not clears:
        rep.violation(R184, hb.path + "|clear", "signal handler: the channel registry is not cleared (workers blocked in send would never end)")
    if not sets:
        rep.violation(R184, hb.path + "|flag", "signal handler: EXIT_EARLY is not set")
    if len(removes) != 1:
        indirect = [x for (bb, x) in hb.fn_value_refs() if x.startswith("std::fs::remove_file")]
        rep.violation(R184, hb.path + "|sweep", "signal handler: listed temporary files are not removed by a plain loop calling remove_file for each (direct calls: %d, handed to an adapter: %s); an adapter such as try_for_each stops at the first error and skips the remaining files" % (len(removes), bool(indirect)))
    else:
        rm = removes[0]
        lh = [h for t, h in hb.back_edges() if rm.bb in hb.loop_blocks(h)]
        if not lh:
            rep.violation(R184, hb.path + "|sweep", "signal handler: remove_file is not called in a loop over the listed files")
        else:
            Lh = hb.loop_blocks(lh[0])
            exits = [(x, s) for x in sorted(Lh) for s in hb.succ[x] if s not in Lh and hb.term(s)[0] != "unreachable"]
            bad = []
            for (x, s) in exits:
                # allowed: the iterator returned None
                t = hb.term(x)
                okx = False
                if t[0] == "switch":
                    sd = decide.switch_decisions(hb, x)
                    if sd:
                        for tgt, d in sd:
                            if tgt == s and d[0] == "variant" and d[1][0] == "call" and d[1][1] == "next" and d[2] == 0:
                                okx = True
                if not okx:
                    bad.append((x, s))
            # iterated list is the registry
            nx = [c for c in hb.live_calls() if c.bb in Lh and c.o.endswith("Iterator::next")]
            over = any("linked_list::Iter<" in (c.callee.get("self") or "") or "slice::Iter<" in (c.callee.get("self") or "") or "vec" in (c.callee.get("self") or "") for c in nx)
            rep.examined(R184, hb.path + "|sweep", sample={"loop_exits": exits, "non_exhaustion_exits": bad, "iterates": [c.callee.get("self") for c in nx]})
            if bad or not over:
                rep.violation(R184, hb.path + "|sweep", "signal handler: the sweep over the listed temporary files can stop before the list is exhausted")
            # sweep happens on every path to return
            for r in hb.exits():
                if r in already:
                    continue  # repeated signal: the first run already swept
                if r in hb.reachable(0, {lh[0]}):
                    rep.violation(R184, hb.path + "|sweep-all-paths", "signal handler: can return without sweeping the listed temporary files")
    # all three dominate the return
    # coordinator tests the flag at the loop head
    rc = [c for c in b.live_calls() if c.d.endswith("recv_many_chan")][0]
    head = [h for t, h in b.back_edges() if rc.bb in b.loop_blocks(h)][0]
    L = b.loop_blocks(head)
    reads = [c for c in b.live_calls() if "RwLock::<bool>::read" in c.f and c.bb in L]
    dom_all = any(b.dominates(c.bb, rc.bb) for c in reads)
    rep.examined(R184, PL + "|flag-tested", sample={"flag_reads_in_loop": len(reads), "before_blocking_receive": dom_all})
    if not reads or not dom_all:
        rep.violation(R184, PL + "|flag-tested", "processing_loop: EXIT_EARLY is not tested on every iteration before blocking in the receive")

    # ------------------------------------------------------------ R18.6 no hang on interrupt
    R186 = rep.rule("R18.6", "an interrupt cannot hang the program (repeated signal; join after interrupt)")
    # (a) the handler keeps the temp-file registry locked for good (R18.2); a second run of the handler must
    #     therefore return before it touches any lock other than the flag: the EXIT_EARLY test dominates every
    #     other lock acquisition and its true arm returns
    locks = [c for c in hb.live_calls() if c.d.endswith("RwLock::<T>::write") or c.d.endswith("RwLock::<T>::read") or c.d.endswith("Mutex::<T>::lock")]
    flag_reads = [c for c in locks if "RwLock::<bool>::read" in c.f]
    others = [c for c in locks if c not in flag_reads and "RwLock::<bool>" not in c.f]
    idem = False
    if flag_reads and never_released:
        fr = flag_reads[0]
        idem = all(hb.dominates(fr.bb, o.bb) for o in others)
        # a return is reachable from the flag test without passing any other lock acquisition
        early_ret = any(hb.term(x)[0] == "ret" for x in hb.reachable(fr.bb, set(o.bb for o in others)))
        idem = idem and early_ret
    rep.examined(R186, hb.path + "|repeat", sample={"registry_guard_never_released": never_released, "flag_test_first_and_returns": idem})
    if never_released and not idem:
        rep.violation(R186, hb.path + "|repeat", "signal handler: it never releases the temp-file registry lock, but a second signal runs it again and blocks on that lock while holding the channel registry; the main thread then blocks forever (Ctrl-C pressed twice hangs the program)")
    # (b) the join after the main loop must not be reached after an interrupt: an EXIT_EARLY test lies between the loop and the join
    if joins:
        # "after the loop": outside it and unable to get back into it (a test before the loop dominates the join trivially)
        reads_after = [c for c in b.live_calls() if "RwLock::<bool>::read" in c.f and c.bb not in L and not (set(b.reachable(c.bb)) & set(L))]
        guarded = any(all(b.dominates(r.bb, j.bb) for j in joins) for r in reads_after)
        rep.examined(R186, PL + "|join-after-interrupt", sample={"flag_tests_after_loop": len(reads_after), "flag_test_dominates_join": guarded})
        if not guarded:
            rep.violation(R186, PL + "|join-after-interrupt", "processing_loop: after an interrupt the function can reach JoinHandle::join; a worker blocked on the temp-file registry lock (kept by the handler) never finishes, so the interrupted program hangs")

    # ------------------------------------------------------------ R18.8 only the handler raises the interrupt flag
    # Every `exit_early_check!()` returns without joining the workers.  That is safe only because the
    # one writer of the flag, the signal handler, has already removed the listed temporary files.  Any
    # other writer (e.g. "stop the run after a print error") makes those early returns leave files behind.
    R188 = rep.rule("R18.8", "the interrupt flag is written only by the signal handler (whose sweep precedes it)")
    writers = []
    for wb in prog.bodies():
        if not wb.path.startswith("s4::") or "_tests" in wb.path:
            continue
        for c in wb.live_calls():
            if "RwLock::<bool>::write" in c.f or (c.d.endswith("RwLock::<T>::write") and "RwLock<bool>" in (c.callee.get("self") or "")):
                writers.append((wb.path, c.line))
    rep.examined(R188, "EXIT_EARLY|writers", sample={"writers": writers, "handler": hb.path})
    if not writers:
        raise CheckerError("R18.8: no writer of the interrupt flag found")
    for wp, wl in writers:
        if wp != hb.path:
            rep.violation(R188, "EXIT_EARLY|writer|" + wp, "%s (line %d) sets the interrupt flag outside the signal handler; the early returns that test the flag skip the join of the worker threads on the assumption that the handler "
                          "has already removed the temporary files, so this path ends the process with the files of still-running workers left behind" % (wp, wl))

    # ------------------------------------------------------------ R18.5
    inst = PL + "|handler-before-spawn"
    hs = [c for c in b.live_calls() if c.d == "s4::set_signal_handler"]
    where = "processing_loop"
    ok = False
    if hs:
        ok = any(b.dominates(h.bb, sp.bb) for h in hs)
        if not ok:
            # idiom: `if !X.is_empty() { install }` ... `for _ in X.iter() { spawn }`: with X empty nothing is spawned
            def base_locals(op, through):
                res = set()
                for x in b.origins(op, through_calls=through):
                    if x[0] == "local":
                        res.add(x[1])
                    elif x[0] == "call":
                        res.add(b.term(x[1])[3][0])
                return res
            for h in hs:
                guards = set()
                for c in b.live_calls():
                    if c.d.endswith("::is_empty") and c.target is not None:
                        t = b.term(c.target)
                        if t[0] == "switch" and op_local(t[1]) == c.dest[0]:
                            arms = {int(v): tb for v, tb in t[2]}
                            nonempty_t = arms.get(0)
                            if nonempty_t is not None and b.dominates(nonempty_t, h.bb) and b.pred[nonempty_t] == [c.target]:
                                guards |= base_locals(c.args[0], ("::deref",))
                spawn_loops = [hd for tl, hd in b.back_edges() if sp.bb in b.loop_blocks(hd)]
                iter_over = set()
                for hd in spawn_loops:
                    lb = b.loop_blocks(hd)
                    for c in b.live_calls():
                        if c.bb in lb and c.o.endswith("Iterator::next"):
                            iter_over |= base_locals(c.args[0], ("::iter", "::into_iter", "::keys", "::values", "::deref"))
                            # the iterator variable itself was initialised from X.iter()
                            for l in list(iter_over):
                                for d in b.defs.get(l, []):
                                    if d[1] == "call":
                                        iter_over |= base_locals(d[2].args[0], ("::iter", "::into_iter", "::keys", "::values", "::deref")) if d[2].args else set()
                                    elif d[2][0] == "use":
                                        iter_over |= base_locals(d[2][1], ("::iter", "::into_iter", "::keys", "::values", "::deref"))
                named = lambda ls: set(b.local_name(l) for l in ls if b.local_name(l))
                if named(guards) & named(iter_over) and h.bb not in b.reachable_after(sp.bb):
                    ok = True
    else:
        mb = prog.body("s4::main")
        mh = [c for c in mb.live_calls() if c.d == "s4::set_signal_handler"]
        mp = [c for c in mb.live_calls() if c.d == PL]
        where = "main"
        ok = bool(mh) and bool(mp) and all(any(mb.dominates(h.bb, p.bb) for h in mh) for p in mp)
    rep.examined(R185, inst, sample={"installed_in": where, "dominates_spawn": ok})
    if not ok:
        rep.violation(R185, inst, "the Ctrl-C handler is not installed before the first worker thread is started; workers create temporary files immediately, so an interrupt during start-up kills the process with the files left behind")

    # ------------------------------------------------------------ R18.7 the handler can get at the channel registry promptly
    # The Ctrl-C handler needs the *write* lock of the channel registry (to drop all channels so that the
    # coordinator's wait returns).  The coordinator holds the registry's *read* guard while it is
    # blocked in `Select::select()` with no time limit, so the handler waits until some worker sends
    # the next message - which, during a long extraction or a long search, is when that work is done.
    R187 = rep.rule("R18.7", "the coordinator does not hold the registry read guard across an untimed wait")
    rmb = prog.body("s4::processing_loop::recv_many_chan", required=False) or prog.body("s4::recv_many_chan", required=False)
    plb7 = prog.body("s4::processing_loop")
    if rmb is None:
        raise CheckerError("recv_many_chan not found")
    untimed = [c for c in rmb.live_calls() if c.d.startswith("crossbeam_channel::Select") and c.d.split("::")[-1] == "select"]
    # the caller passes the guarded map in: the read guard is alive across the call
    callers = [c for c in plb7.live_calls() if c.d.endswith("::recv_many_chan")]
    guard_read = False
    for c in callers:
        for a in c.args:
            if a[0] == "k":
                continue
            for x in plb7.origins(a, through_calls=("::deref", "::unwrap", "Deref>::deref")):
                if x[0] == "call" and x[2].endswith("RwLock::<T>::read"):
                    guard_read = True
    hb7 = prog.body("s4::set_signal_handler::{closure#0}")
    hwrite = any(c.d.endswith("RwLock::<T>::write") and "MAP_PATHID_CHANRECVDATUM" in " ".join(str(x) for x in hb7.origins(c.args[0], through_calls=("::deref", "Deref>::deref"))) for c in hb7.live_calls())
    rep.examined(R187, "s4::recv_many_chan|untimed-select-under-read-guard", sample={"untimed_select_calls": [c.line for c in untimed], "caller_holds_read_guard_of_registry": guard_read, "handler_takes_write_lock_of_registry": hwrite})
    if not callers:
        raise CheckerError("processing_loop does not call recv_many_chan")
    if untimed and guard_read and hwrite:
        rep.violation(R187, "s4::recv_many_chan|untimed-select-under-read-guard", "the coordinator blocks in Select::select() (line %d) without a time limit while holding the channel registry's read guard, and the Ctrl-C handler "
                      "needs that registry's write lock; an interrupt during a long extraction or search takes effect only when the next message arrives (600 MB .evtx.xz: exit 4.2 s after SIGINT, i.e. when extraction is finished)" % untimed[0].line)

    # ------------------------------------------------------------ R18.9 a listed temporary file leaves the list only by its own path
    # The list of temporary files is shared by all worker threads; its order is the order in which the
    # threads happened to register.  An entry may leave it only through an operation that names the entry
    # (equality with a path), never by position (pop_back / pop_front / split_off / clear outside the
    # signal handler): "the last entry" belongs to whichever thread registered last, so a positional
    # removal un-lists another, still living source's file and an interrupt then leaves it behind.
    R189 = rep.rule("R18.9", "outside the signal handler the temp-file list only grows, or shrinks by path equality")
    POSITIONAL = ("pop_back", "pop_front", "clear", "split_off", "truncate", "drain", "pop", "remove", "swap_remove", "append")
    n189 = 0
    for rb_ in prog.bodies():
        if not (rb_.path.startswith("s4::") or rb_.path.startswith("s4lib::") or rb_.path.startswith("<s4lib::")) or "_tests" in rb_.path:
            continue
        for c in rb_.live_calls():
            if "LinkedList::<std::string::String>" not in c.f and "LinkedList<std::string::String>" not in (c.callee.get("self") or ""):
                continue
            nm_ = c.d.split("::")[-1]
            if nm_ in ("new", "iter", "len", "is_empty", "deref", "deref_mut", "borrow_mut", "write", "read", "get", "contains", "front", "back") or "RwLock" in c.d or "Guard" in c.f or "Lazy" in c.f or "fmt" in c.d or "mem::" in c.d:
                continue
            n189 += 1
            in_handler = rb_.path.startswith("s4::set_signal_handler")
            rep.examined(R189, "%s|%s" % (rb_.path, nm_), sample={"function": rb_.path, "line": c.line, "operation": nm_, "in_signal_handler": in_handler})
            if nm_ in POSITIONAL and not in_handler:
                rep.violation(R189, "%s|positional-removal|%s" % (rb_.path, nm_), "%s (line %d) removes an entry from the shared list of temporary files by position (%s); entries are in registration order of concurrently running threads, "
                              "so this can un-list the file of another source that is still being read - an interrupt then leaves that file behind" % (rb_.path, c.line, nm_))
    if n189 < 1:
        raise CheckerError("R18.9: no mutation of the LinkedList<String> registry found (anchor: push_back in decompress_to_ntf)")

    return rep.finish(
        "Static necessary-condition check of temporary-file cleanup: worker JoinHandles are kept and joined on every non-interrupted path out of "
        "processing_loop; the temporary file is created and listed inside the registry's write guard and the handler never releases that guard "
        "after its sweep (so no creation can fall between sweep and exit); every creation is listed; the handler clears the channel registry, "
        "removes every listed file with a loop that only ends at exhaustion, and sets EXIT_EARLY which the coordinator tests each iteration; the "
        "handler is installed before the first spawn.",
        ["time from signal to exit", "signals delivered before processing_loop starts", "SIGKILL / power loss"])
