"""C05 — compression and archiving are transparent.

Decides:
  R5.1 short-read discipline at every io::Read::read call site of the library: the returned count
       bounds the slice that is consumed, or drives a fill loop, or the buffer is never consumed.
  R5.2 container dispatch agreement: BlockReader::read_block maps Text and FixedStruct to the same
       reader per archive kind, one distinct reader per archive kind; every reader that drops earlier
       blocks while decoding is marked streamed by is_streamed_file for every file type.
  R5.3 evtx/journal readers open the temporary extraction when there is one, the original otherwise.
  R5.4 the accounting-record reader, which revisits earlier offsets (time order), disables block
       dropping on streamed files before its full scan.
Does not decide: equality of decoded bytes for every compressor parameter (decoder crates trusted),
tar member lookup, window behaviour on streamed files (C03).
"""
import decide
from decide import enumerate_paths
from mir import CheckerError, op_local

BR = "s4lib::readers::blockreader::BlockReader"
FT = "s4lib::common::FileType"
FTA = "s4lib::common::FileTypeArchive"


def forward_taint(body, seeds):
    """locals data-dependent on the seed locals through copies, casts, arithmetic and tuple/field moves"""
    t = set(seeds)
    changed = True
    while changed:
        changed = False
        for bb in body.live:
            for s in body.stmts(bb):
                if s[0] != "=":
                    continue
                dst = s[1][0]
                if dst in t:
                    continue
                rv = s[2]
                ops = []
                k = rv[0]
                if k == "use":
                    ops = [rv[1]]
                elif k == "cast":
                    ops = [rv[2]]
                elif k == "bin":
                    ops = [rv[2], rv[3]]
                elif k == "un":
                    ops = [rv[2]]
                elif k in ("ref", "rawptr"):
                    if rv[2][0] in t:
                        t.add(dst)
                        changed = True
                    continue
                for o in ops:
                    if o[0] in ("cp", "mv") and o[1][0] in t:
                        t.add(dst)
                        changed = True
                        break
    return t


def raw_copies(body, seeds):
    """locals that hold exactly the seed value (copies and integer casts only, no arithmetic)"""
    t = set(seeds)
    changed = True
    while changed:
        changed = False
        for bb in body.live:
            for s in body.stmts(bb):
                if s[0] == "=" and len(s[1]) == 1 and s[1][0] not in t:
                    rv = s[2]
                    o = rv[1] if rv[0] == "use" else (rv[2] if rv[0] == "cast" else None)
                    if o is not None and o[0] in ("cp", "mv") and len(o[1]) == 1 and o[1][0] in t:
                        t.add(s[1][0])
                        changed = True
    return t


def _root_is_payload(body, root, call):
    """decision root denotes the Ok payload of `call`"""
    return root[0] == "call" and root[2] == call.bb and "as Ok" in root


def ok_payload_locals(body, call):
    """locals assigned from (dest as Ok).0 of a call returning io::Result<usize>"""
    d = call.dest[0]
    res = set()
    for bb in body.live:
        for s in body.stmts(bb):
            if s[0] == "=" and s[2][0] == "use" and s[2][1][0] in ("cp", "mv"):
                pl = s[2][1][1]
                if pl[0] == d and len(pl) >= 3 and isinstance(pl[1], list) and pl[1][0] == "as" and pl[1][1] == "Ok":
                    res.add(s[1][0])
    return res


def buffer_root(body, op):
    """base local (array/Vec variable) the &mut [u8] argument of read() borrows from"""
    roots = set()
    for o in body.origins(op, through_calls=("::index_mut", "::as_mut", "::as_mut_slice", "::deref_mut", "::index", "::borrow_mut")):
        if o[0] == "local":
            roots.add(o[1])
        elif o[0] == "arg":
            roots.add(o[1])
        elif o[0] == "call":
            # the variable initialised by this call (e.g. Vec::with_capacity)
            d = body.term(o[1])[3]
            roots.add(d[0])
        elif o[0] in ("repeat", "agg"):
            st = body.stmts(o[1])[o[2]]
            roots.add(st[1][0])
    return roots


def range_uses(body, taint):
    """(kind, bb) for Range/RangeTo/RangeFrom aggregates having a tainted operand"""
    res = []
    for bb in sorted(body.live):
        for s in body.stmts(bb):
            if s[0] == "=" and s[2][0] == "agg" and isinstance(s[2][1], dict) and "adt" in s[2][1]:
                adt = s[2][1]["adt"]
                if adt.startswith("std::ops::Range"):
                    names = s[2][1]["fields"]
                    for n, o in zip(names, s[2][2]):
                        if o[0] in ("cp", "mv") and o[1][0] in taint:
                            res.append((adt.split("::")[-1] + "." + n, bb))
    return res


def buffer_consumers(body, root, read_call):
    """calls (other than the read itself and buffer preparation) that receive the buffer"""
    prep = ("::resize", "::with_capacity", "::clear", "::as_mut_slice", "::index_mut", "::as_mut", "::deref_mut", "::len", "::capacity",
            "::index", "::deref", "::as_slice", "::reserve", "Argument", "::fmt", "::is_empty")
    # locals that alias the buffer
    alias = forward_taint(body, {root})
    res = []
    for c in body.live_calls():
        if c.bb == read_call.bb:
            continue
        uses = any(a[0] in ("cp", "mv") and a[1][0] in alias for a in c.args)
        if not uses:
            continue
        if any(c.d.endswith(p) or p in c.d for p in prep):
            # slicing helpers produce new aliases
            if len(c.dest) == 1:
                alias.add(c.dest[0])
            continue
        res.append(c)
    # second pass with enlarged alias set
    res = []
    for c in body.live_calls():
        if c.bb == read_call.bb:
            continue
        if any(a[0] in ("cp", "mv") and a[1][0] in alias for a in c.args):
            if any(c.d.endswith(p) or p in c.d for p in prep):
                continue
            res.append(c)
    return res


def in_loop_with_cond(body, call, taint):
    """is the call inside a loop one of whose conditions compares a tainted local?"""
    for (tail, head) in body.back_edges():
        loop = body.loop_blocks(head)
        if call.bb not in loop:
            continue
        for bb in loop:
            t = body.term(bb)
            if t[0] != "switch":
                continue
            # exits the loop on one arm?
            succs = body.succ[bb]
            if all(s in loop for s in succs):
                continue
            l = op_local(t[1])
            if l is None:
                continue
            ds = body.defs.get(l, [])
            for d in ds:
                if d[1] != "call" and d[2][0] == "bin" and d[2][1] in ("Lt", "Le", "Gt", "Ge"):
                    for o in (d[2][2], d[2][3]):
                        if o[0] in ("cp", "mv") and o[1][0] in taint:
                            return True
    return False


def match_table(body, start_field, end_label):
    """(outer variant, inner variant) -> set(labels) for a match on self.<start_field> with a nested
    archival_type, starting at the switch on the discriminant of that field"""
    sw = None
    for bb in sorted(body.live):
        t = body.term(bb)
        if t[0] != "switch":
            continue
        l = op_local(t[1])
        for s in body.stmts(bb):
            if s[0] == "=" and s[1] == [l] and s[2][0] == "discr":
                pl = s[2][1]
                keys = [e[2] for e in pl[1:] if isinstance(e, list) and e[0] == "."]
                if keys == [start_field] and len(t[2]) >= 3:
                    sw = bb
        if sw is not None:
            break
    if sw is None:
        raise CheckerError("%s: no match on self.%s" % (body.path, start_field))
    paths = enumerate_paths(body, sw, end_label, opaque_ok=lambda bb: True)
    table = {}
    for p in paths:
        outer = None
        inner = None
        for d in p.decisions:
            if d[0] == "variant":
                root = d[1]
                if root[-1] == start_field:
                    outer = d[2]
                elif root[-1] == "archival_type":
                    inner = d[2]
        table.setdefault((outer, inner), set()).add(p.end)
    return table


def run(prog, rep, tier):
    facts = prog.facts
    R51 = rep.rule("R5.1", "short-read discipline at every io::Read::read call site")
    R52 = rep.rule("R5.2", "container dispatch agreement (reader per archive kind; streamed marking)")
    R53 = rep.rule("R5.3", "evtx/journal readers open the extracted temporary file")

    # ------------------------------------------------------------ R5.1
    nsites = 0
    for b in prog.bodies():
        if not b.path.startswith("s4lib::"):
            continue
        idx = 0
        for c in b.live_calls():
            if c.o != "std::io::Read::read":
                continue
            nsites += 1
            selfty = c.callee.get("self") or "?"
            key = "%s|read#%d<%s>" % (b.path, idx, selfty.split("<")[0].split("::")[-1])
            idx += 1
            pay = ok_payload_locals(b, c)
            taint = forward_taint(b, pay)
            ru = range_uses(b, taint)
            roots = buffer_root(b, c.args[1])
            consumers = []
            for r in roots:
                if isinstance(r, int):
                    consumers += buffer_consumers(b, r, c)
            bounded_end = [u for u in ru if u[0].endswith(".end")]
            bounded_start = [u for u in ru if u[0].endswith(".start")]
            loopc = in_loop_with_cond(b, c, taint)
            verdict = None
            if not pay:
                verdict = "count-dropped"
            if bounded_end:
                verdict = "count bounds the consumed slice"
            elif bounded_start and loopc:
                verdict = "fill loop (offset accumulates the count and is compared with the requested length)"
            elif not consumers:
                verdict = "buffer never consumed (size pre-pass)"
            else:
                verdict = None
            rep.examined(R51, key, sample={"site": b.path, "reader": selfty, "line": c.line, "count_locals": sorted(pay), "range_uses": ru[:4],
                                           "loop_condition_on_count": loopc, "buffer_consumers": [x.d.split("::")[-1] for x in consumers][:5],
                                           "verdict": verdict or "VIOLATION"})
            if verdict is None:
                rep.violation(R51, key, "%s: the count returned by %s::read (line %d) is not used to bound the buffer, yet the buffer is consumed at full length by %s; a short read leaves zero/stale bytes in the data" % (
                    b.path, selfty, c.line, sorted(set(x.d.split("::")[-1] for x in consumers))))
    rep.floor(R51, 6, "(decoder read sites of blockreader and filedecompressor)")

    # ------------------------------------------------------------ R5.1b / R5.1c: read loops
    R51b = rep.rule("R5.1b", "a read loop ends only on a zero count, an error, or a filled request - never on a short count")
    R51c = rep.rule("R5.1c", "a read loop cannot go round again after a zero count")
    for b in prog.bodies():
        if not b.path.startswith("s4lib::"):
            continue
        idx = 0
        for c in b.live_calls():
            if c.o != "std::io::Read::read":
                continue
            selfty = c.callee.get("self") or "?"
            key = "%s|read#%d<%s>" % (b.path, idx, selfty.split("<")[0].split("::")[-1])
            idx += 1
            loops = [(h, b.loop_blocks(h)) for (t_, h) in b.back_edges() if c.bb in b.loop_blocks(h)]
            if not loops:
                continue
            h, L = min(loops, key=lambda x: len(x[1]))
            pay = ok_payload_locals(b, c)
            raw = raw_copies(b, pay)
            # --- R5.1b
            bad = []
            for bb in sorted(L):
                t = b.term(bb)
                if t[0] != "switch":
                    continue
                at = decide.bool_atom(b, t[1])
                if not at or at[0] != "cmp":
                    continue
                l = op_local(t[1])
                ds = b.defs.get(l, [])
                ops = []
                for d in ds:
                    if d[1] != "call" and d[2][0] == "bin":
                        ops = [d[2][2], d[2][3]]
                    elif d[1] == "call":
                        ops = list(d[2].args[:2])
                involved = [o for o in ops if o[0] in ("cp", "mv") and o[1][0] in raw]
                if not involved:
                    continue
                other = [o for o in ops if o not in involved]
                zero = any(o[0] == "k" and o[2] == 0 for o in other)
                if zero:
                    continue
                for s_ in b.succ[bb]:
                    if s_ in L:
                        continue
                    # leaving the loop on a comparison of the raw count with something other than 0
                    outs = set()
                    try:
                        for p_ in decide.enumerate_paths(b, s_, lambda x: "ret" if b.term(x)[0] == "ret" else None, opaque_ok=lambda x: True, max_paths=3000):
                            if p_.end == "ret":
                                outs.add(decide.returned_variant(b, decide.Path((bb,) + p_.blocks, p_.decisions, p_.end)))
                    except CheckerError:
                        outs.add("?")
                    if not outs <= {"Err"}:
                        bad.append((bb, at[1], b.blocks[bb].get("l")))
            rep.examined(R51b, key, sample={"site": b.path, "line": c.line, "loop_header": h, "short_count_exits": bad})
            if bad:
                rep.violation(R51b, key, "%s: the loop around %s::read (line %d) is left when the returned count is %s something other than 0 (line %s); Read::read may return a short non-zero count before the end of the stream, so the rest of the data is silently dropped" % (
                    b.path, selfty.split("<")[0], c.line, bad[0][1], bad[0][2]))
            # --- R5.1c
            if c.target is None:
                continue
            t = b.term(c.target)
            ok_t = None
            if t[0] == "switch":
                ok_t = {int(v): tb for v, tb in t[2]}.get(0)
            if ok_t is None:
                continue
            spins = []

            def end_of(x):
                if x == h:
                    return "back"
                if x not in L:
                    return "exit"
                return None
            try:
                paths = decide.enumerate_paths(b, ok_t, end_of, opaque_ok=lambda x: True, max_paths=20000)
            except CheckerError as e:
                raise CheckerError("%s: read loop too complex for the zero-progress rule (%s)" % (b.path, e))
            for p_ in paths:
                if p_.end != "back":
                    continue
                nonzero = False
                for d in p_.decisions:
                    if d[0] != "cmp":
                        continue
                    _, op, x, y, outcome = d
                    xs, ys = str(x), str(y)
                    is_x = x[0] == "call" and x[1] == "read" or (x[0] == "local" and x[1] in raw) or _root_is_payload(b, x, c)
                    is_y = y[0] == "const" and y[1] == "0"
                    if _root_is_payload(b, x, c) and is_y:
                        # count OP 0
                        if (op == "eq" and outcome is False) or (op == "ne" and outcome is True) or (op == "gt" and outcome is True) or (op == "le" and outcome is False):
                            nonzero = True
                    if _root_is_payload(b, y, c) and x[0] == "const" and x[1] == "0":
                        if (op == "eq" and outcome is False) or (op == "ne" and outcome is True) or (op == "lt" and outcome is True) or (op == "ge" and outcome is False):
                            nonzero = True
                if not nonzero:
                    spins.append(p_.blocks[-6:])
            rep.examined(R51c, key, sample={"site": b.path, "line": c.line, "paths_round_the_loop": len([p_ for p_ in paths if p_.end == "back"]), "without_nonzero_count": len(spins)})
            if spins:
                rep.violation(R51c, key, "%s: after %s::read (line %d) returns 0 bytes the loop can go round again without making progress (blocks %s); on a stream that ends early (multi-member or junk-trailed input) this spins forever" % (
                    b.path, selfty.split("<")[0], c.line, spins[0]))

    # ------------------------------------------------------------ R5.2
    rb = prog.body(BR + "::read_block")
    ftv = {v["idx"]: v["name"] for v in facts.adts[FT]["variants"]}
    fav = {v["idx"]: v["name"] for v in facts.adts[FTA]["variants"]}

    def end_read_block(bb):
        t = rb.term(bb)
        if t[0] == "call":
            d = t[1].get("d", "")
            if "::read_block_File" in d:
                return d.split("::")[-1]
            if "panic" in d:
                return "panic"
        if t[0] == "ret":
            return "ret"
        return None

    table = match_table(rb, "filetype", end_read_block)
    per_ft = {}
    for (o, i), labs in table.items():
        if o is None:
            continue
        per_ft.setdefault(ftv[o], {})[fav.get(i, "*")] = labs
    readers_by_archive = {}
    for ft in ("Text", "FixedStruct"):
        if ft not in per_ft:
            raise CheckerError("read_block has no arm for FileType::%s" % ft)
    for a in fav.values():
        lt = per_ft["Text"].get(a)
        lf = per_ft["FixedStruct"].get(a)
        inst = "%s|%s" % (rb.path, a)
        rep.examined(R52, inst, sample={"archive": a, "Text": sorted(lt or []), "FixedStruct": sorted(lf or [])})
        if not lt or not lf or lt != lf or len(lt) != 1 or next(iter(lt)) in ("panic", "ret"):
            rep.violation(R52, inst, "%s: archive kind %s is read by %s for Text but %s for FixedStruct (each kind needs one and the same reader)" % (
                rb.path, a, sorted(lt or []), sorted(lf or [])))
        else:
            readers_by_archive[a] = next(iter(lt))
    inv = {}
    for a, r in readers_by_archive.items():
        inv.setdefault(r, []).append(a)
    for r, as_ in inv.items():
        if len(as_) > 1:
            rep.violation(R52, "%s|distinct|%s" % (rb.path, r), "%s: archive kinds %s share the reader %s" % (rb.path, sorted(as_), r))
    # streamed implication
    sf = prog.body(BR + "::is_streamed_file")

    def end_const(bb):
        for s in sf.stmts(bb):
            if s[0] == "=" and s[1] == [0] and s[2][0] == "use" and s[2][1][0] == "k" and isinstance(s[2][1][2], bool):
                return "true" if s[2][1][2] else "false"
        if sf.term(bb)[0] == "ret":
            return "ret"
        return None

    st = match_table(sf, "filetype", end_const)
    streamed = {}
    for (o, i), labs in st.items():
        if o is None:
            continue
        streamed[(ftv[o], fav.get(i, "*"))] = labs
    for a, r in sorted(readers_by_archive.items()):
        body = prog.body(BR + "::" + r)
        drops = [c for c in body.live_calls() if c.d.endswith("::drop_block")]
        for ft in ("Text", "FixedStruct"):
            labs = streamed.get((ft, a))
            inst = "%s|%s|%s" % (sf.path, ft, a)
            rep.examined(R52, inst, sample={"filetype": ft, "archive": a, "reader": r, "reader_drops_blocks": bool(drops), "is_streamed": sorted(labs or [])})
            if drops and labs != {"true"}:
                rep.violation(R52, inst, "%s: %s drops earlier blocks while decoding but is_streamed_file() is %s for %s/%s; the backward-jumping binary search would then meet dropped blocks" % (
                    sf.path, r, sorted(labs or []), ft, a))
    rep.floor(R52, 12)

    # ------------------------------------------------------------ R5.5
    R55 = rep.rule("R5.5", "tar members are named through tar::Entry::path everywhere (GNU long names / pax aware)")
    for bd in prog.bodies():
        if not bd.path.startswith("s4lib::"):
            continue
        ents = [c for c in bd.live_calls() if c.d.startswith("tar::Archive") and "entries" in c.d.split("::")[-1]]
        if not ents:
            continue
        epath = [c for c in bd.live_calls() if c.d.startswith("tar::Entry") and c.d.split("::")[-1] in ("path", "path_bytes")]
        hpath = [c for c in bd.live_calls() if c.d.startswith("tar::Header") and c.d.split("::")[-1] in ("path", "path_bytes", "path_lossy")]
        rep.examined(R55, bd.path, sample={"fn": bd.path, "Entry::path": len(epath), "Header::path": len(hpath)})
        if hpath:
            rep.violation(R55, bd.path, "%s: a tar member is named by the raw header field (tar::Header::path, line %d) while the member list is built from tar::Entry::path; for GNU long-name or pax archives the two differ and the member is never found" % (bd.path, hpath[0].line))
    rep.floor(R55, 3)

    # ------------------------------------------------------------ R5.4
    R54 = rep.rule("R5.4", "readers that revisit earlier offsets keep all blocks of a streamed file")
    fr = prog.body("s4lib::readers::fixedstructreader::FixedStructReader::new")
    pre = [c for c in fr.live_calls() if c.d.endswith("FixedStructReader::preprocess_timevalues")]
    # every pass over the file made by new(): layout scoring reads blocks too
    passes = [c for c in fr.live_calls() if c.d.startswith("s4lib::readers::fixedstructreader::FixedStructReader::preprocess_") or c.d.endswith("FixedStructReader::score_file")]
    dis = [c for c in fr.live_calls() if c.d.endswith("BlockReader::disable_drop_data")]
    stc = [c for c in fr.live_calls() if c.d.endswith("BlockReader::is_streamed_file")]
    if len(pre) != 1:
        raise CheckerError("FixedStructReader::new: %d preprocess_timevalues calls" % len(pre))
    ok = False
    for c in stc:
        if c.target is None:
            continue
        t = fr.term(c.target)
        if t[0] == "switch" and op_local(t[1]) == c.dest[0]:
            arms = {int(v): tb for v, tb in t[2]}
            true_t = t[3] if 0 in arms else arms.get(1)
            if true_t is not None and dis and not any(p_.bb in fr.reachable(true_t, set(d.bb for d in dis)) for p_ in passes) and all(fr.dominates(c.bb, p_.bb) for p_ in passes):
                ok = True
    # the entry walk is in time order (C08 R8.2): that is what makes earlier blocks needed again
    rep.examined(R54, fr.path + "|keep-blocks", sample={"passes_over_the_file": [p_.d.split("::")[-1] for p_ in passes], "is_streamed_tests": len(stc), "disable_drop_data_calls": len(dis), "all_blocks_kept_when_streamed": ok})
    if not ok:
        rep.violation(R54, fr.path + "|keep-blocks", "FixedStructReader::new: records are visited in time order after a full forward scan, but for a streamed (compressed) file the blocks dropped during that scan cannot be read again; dropping is not disabled when is_streamed_file() (a multi-block .gz/.bz2/.lz4 accounting file then prints only the records of its last block)")

    # ------------------------------------------------------------ R5.6 (lifted from C11 R11.2): the time stored in the container
    R56 = rep.rule("R5.6", "container-stored modification time is used (lifted from C11 R11.2)")
    import contextlib as _cl, io as _io
    import c11 as _c11
    from common import Report as _Rep
    _sub = _Rep("C11", "quick", dict(rep.meta))
    _sub.finish = lambda *a, **k: 0
    with _cl.redirect_stdout(_io.StringIO()):
        _c11.run(prog, _sub, "quick")
    for (rid_, key_, what_, det_) in _sub.violations:
        if rid_ == "R11.2":
            rep.violation(R56, key_.split("|", 1)[1], what_)
    for s_ in _sub.rules.get("R11.2", {}).get("samples", []):
        rep.examined(R56, str(s_)[:70], sample=s_)
    R57 = rep.rule("R5.7", "a streamed year-less log keeps its blocks for the backward year walk on every accepting path (lifted from C11 R11.3)")
    for (rid_, key_, what_, det_) in _sub.violations:
        if rid_ == "R11.3":
            rep.violation(R57, key_.split("|", 1)[1], what_)
    for k_ in sorted(_sub.rules.get("R11.3", {}).get("keys", ())):
        rep.examined(R57, k_, sample={"rule": "R11.3", "instance": k_})

    # ------------------------------------------------------------ R5.3
    sites = [("s4lib::readers::evtxreader::EvtxReader::new", ("OpenOptions::open", "from_path")),
             ("s4lib::readers::journalreader::JournalReader::new", ("sd_journal_open_files", "sd_journal_open_file", "OpenOptions::open", "CString"))]
    for path, _ in sites:
        b = prog.body(path)
        dec = [c for c in b.live_calls() if c.d.endswith("::decompress_to_ntf")]
        ntfpath = [c for c in b.live_calls() if c.d.endswith("NamedTempFile::<F>::path") or c.d.endswith("NamedTempFile::path") or ("NamedTempFile" in c.d and c.d.endswith("::path"))]
        inst = path + "|open-path"
        if len(dec) != 1:
            raise CheckerError("%s: %d decompress_to_ntf calls" % (path, len(dec)))
        # the variable that is opened: a local with two definitions, one from ntf.path(), one from the original path
        cand = None
        for l, ds in b.defs.items():
            if len(ds) < 2:
                continue
            srcs = set()
            for d in ds:
                if d[1] == "call":
                    if "NamedTempFile" in d[2].d and d[2].d.endswith("::path"):
                        srcs.add("ntf")
                    continue
                rv = d[2]
                if rv[0] == "use":
                    src_op = rv[1]
                elif rv[0] in ("ref", "rawptr"):
                    src_op = ["cp", rv[2]]
                else:
                    continue
                if src_op[0] == "k":
                    continue
                for o in b.origins(src_op, through_calls=("::deref", "::as_ref", "::as_path", "::borrow")):
                    if o[0] == "call" and "NamedTempFile" in o[2] and o[2].endswith("::path"):
                        srcs.add("ntf")
                    elif o[0] == "arg":
                        srcs.add("orig")
                    elif o[0] == "call" and ("Path::new" in o[2] or o[2].endswith("Path::new")):
                        srcs.add("orig")
            if srcs == {"ntf", "orig"}:
                cand = (l, ds)
        rep.examined(R53, inst, sample={"site": path, "ntf_path_calls": len(ntfpath), "selected_path_local": b.local_name(cand[0]) if cand else None})
        if not ntfpath or cand is None:
            rep.violation(R53, inst, "%s: the file that is opened is not chosen between the temporary extraction (NamedTempFile::path) and the original path" % path)
            continue
        l, ds = cand
        # the ntf definition must be under the Some arm of the Option<NamedTempFile>
        for d in ds:
            blk = d[0]
            if d[1] == "call":
                is_ntf = True
            else:
                so = d[2][1] if d[2][0] == "use" else ["cp", d[2][2]]
                is_ntf = any(o[0] == "call" and "NamedTempFile" in o[2] for o in b.origins(so, through_calls=("::deref", "::as_ref")))
            # find dominating switch on an Option<NamedTempFile>
            arm = None
            for bb in sorted(b.live):
                t = b.term(bb)
                if t[0] != "switch":
                    continue
                sd = decide.switch_decisions(b, bb)
                if not sd:
                    continue
                for tgt, dec_ in sd:
                    if dec_[0] in ("variant", "variant_not") and b.dominates(tgt, blk) and tgt != bb:
                        root = dec_[1]
                        base = root[1] if root[0] in ("local",) else None
                        ty = b.local_ty(base) if isinstance(base, int) else ""
                        if "NamedTempFile" in ty and ty.startswith("std::option::Option<"):
                            arm = dec_
            if arm is None:
                rep.violation(R53, inst, "%s: the choice of the opened path is not guarded by the presence of the temporary extraction" % path)
                break
            some = (arm[0] == "variant" and arm[2] == 1) or (arm[0] == "variant_not" and 1 not in arm[2] and False)
            if is_ntf != some:
                rep.violation(R53, inst, "%s: the temporary extraction's path is used when there is none / the original path when there is one" % path)
                break
        # and the selected path reaches an open call (taint through calls inside this body)
        taint = {l}
        changed = True
        while changed:
            n0 = len(taint)
            taint = forward_taint(b, taint)
            for c in b.live_calls():
                if len(c.dest) >= 1 and c.dest[0] not in taint and any(a[0] in ("cp", "mv") and a[1][0] in taint for a in c.args):
                    taint.add(c.dest[0])
            changed = len(taint) != n0
        openers = [c for c in b.live_calls() if ("open" in c.d.split("::")[-1].lower() or c.d.endswith("::from_path"))
                   and any(a[0] in ("cp", "mv") and a[1][0] in taint for a in c.args)]
        rep.examined(R53, inst + "|used", sample={"selected_path_opened_by": [c.d.split("::")[-1] for c in openers][:6]})
        if not openers:
            rep.violation(R53, inst + "|used", "%s: the selected path does not reach any open call" % path)

    # ------------------------------------------------------------ R5.10 the tar member is chosen by its whole name
    R510 = rep.rule("R5.10", "the archive member to extract is selected by equality of the whole member path")
    dn = prog.body_or_impl("s4lib::readers::filedecompressor::decompress_to_ntf")
    loose = []
    eqs = 0
    for c in dn.live_calls():
        last = (c.o or c.d).split("::")[-1]
        if last in ("ends_with", "starts_with", "contains", "find", "rfind", "eq", "ne", "cmp", "partial_cmp", "strip_prefix", "strip_suffix"):
            argsrc = set()
            for a in c.args[:2]:
                if a[0] == "k":
                    continue
                for x in dn.origins(a, through_calls=("::deref", "::as_str", "::as_ref", "::to_string_lossy", "::to_string", "::borrow", "::as_os_str")):
                    if x[0] == "call":
                        argsrc.add(x[2].split("::")[-1])
                    elif x[0] in ("arg", "local") and dn.local_name(x[1]):
                        argsrc.add(dn.local_name(x[1]))
            if "path" in argsrc or "subfpath" in argsrc or "subpath" in argsrc:
                if last in ("eq", "ne", "cmp", "partial_cmp"):
                    eqs += 1
                else:
                    loose.append((last, c.line, sorted(argsrc)))
    rep.examined(R510, dn.path + "|member-selection", sample={"equality_tests_on_member_path": eqs, "partial_matches": loose})
    if loose:
        rep.violation(R510, dn.path + "|member-selection", "decompress_to_ntf selects the tar member with %s() (line %d) instead of equality of the whole path; an earlier member whose path merely ends with the wanted name "
                      "(archive/System.evtx before System.evtx) is extracted instead: its records print twice, the wanted member's never" % (loose[0][0], loose[0][1]))
    elif eqs == 0:
        raise CheckerError("decompress_to_ntf: member-path comparison not recognised")

    # ------------------------------------------------------------ R5.11 concatenated members / frames
    # gzip, bzip2, lz4 and xz files may consist of several members (streams, frames) written one after
    # another; every standard tool decodes all of them (`cat a.gz b.gz | gzip -dc`).  The decoders used
    # here stop after the first member, and the gzip length is taken from the last member's trailer, so
    # such a file is cut short without any message.  Reported per decoder type in use (known finding F36).
    R511 = rep.rule("R5.11", "compressed input is decoded with a decoder that continues over concatenated members")
    SINGLE = {"flate2::read::GzDecoder": "gz", "flate2::bufread::GzDecoder": "gz", "bzip2_rs::DecoderReader": "bz2", "bzip2_rs::decoder::DecoderReader": "bz2",
              "lz4_flex::frame::FrameDecoder": "lz4", "lz4_flex::frame::decompress::FrameDecoder": "lz4"}
    seen511 = {}
    for p_ in sorted(prog.facts.bodies):
        if not (p_.startswith("s4lib::readers::blockreader::") or p_.startswith("s4lib::readers::filedecompressor::")) or "_tests" in p_:
            continue
        bd_ = prog.body(p_)
        for c in bd_.live_calls():
            st_ = (c.callee.get("self") or "") + " " + c.f
            for ty_, kind_ in SINGLE.items():
                if ty_ + "<" in st_ or ty_ + "::" in st_:
                    if "MultiGzDecoder" in st_:
                        continue
                    seen511.setdefault(kind_, set()).add(p_.split("::")[-1])
            if c.d.endswith("lzma_rs::xz_decompress") or c.d.endswith("::xz_decompress"):
                seen511.setdefault("xz", set()).add(p_.split("::")[-1])
    for kind_, fns_ in sorted(seen511.items()):
        rep.examined(R511, "multi-member|" + kind_, sample={"container": kind_, "single_member_decoder_used_in": sorted(fns_)})
        rep.violation(R511, "multi-member|" + kind_, "%s input is decoded with a single-member decoder (in %s); a file made of concatenated members - which `%s -dc` decodes completely - is cut after the first member "
                      "(two 5-line members: 5 of 10 lines printed, exit 0; for xz an error and nothing printed)" % (kind_, sorted(fns_)[:3], {"gz": "gzip", "bz2": "bzip2", "lz4": "lz4", "xz": "xz"}[kind_]))
    if not seen511:
        raise CheckerError("R5.11: no decoder types recognised in blockreader/filedecompressor")

    # ------------------------------------------------------------ R5.12 lift of C15 R15.2 (members of a named archive are attempted like named files)
    import contextlib as _clP, io as _ioP
    import c15 as _c15P
    from common import Report as _RepP
    R512 = rep.rule("R5.12", "members of an archive named on the command line are classified like files named on the command line (from C15 R15.2)")
    _s15 = _RepP("C15", "quick", dict(rep.meta))
    _s15.finish = lambda *a, **k: 0
    with _clP.redirect_stdout(_ioP.StringIO()):
        _c15P.run(prog, _s15, "quick")
    for (rid_, key_, what_, det_) in _s15.violations:
        if rid_ == "R15.2":
            rep.violation(R512, key_.split("|", 1)[1], what_)
    for k_ in sorted(_s15.rules.get("R15.2", {}).get("keys", ())):
        rep.examined(R512, k_, sample={"rule": "R15.2", "instance": k_})
    rep.floor("R5.12", 1)

    # ------------------------------------------------------------ R5.9 lift of C03 R3.8
    import contextlib as _cl9, io as _io9
    import c03 as _c03l
    from common import Report as _Rep9
    R59 = rep.rule("R5.9", "the search used for compressed files agrees with the one used for plain files (from C03 R3.8)")
    _s3 = _Rep9("C03", "quick", dict(rep.meta))
    _s3.finish = lambda *a, **k: 0
    with _cl9.redirect_stdout(_io9.StringIO()):
        _c03l.run(prog, _s3, "quick")
    for (rid_, key_, what_, det_) in _s3.violations:
        if rid_ in ("R3.8", "R3.6"):
            rep.violation(R59, key_.split("|", 1)[1], what_)
    for k_ in sorted(_s3.rules.get("R3.8", {}).get("keys", ())):
        rep.examined(R59, k_, sample={"rule": "R3.8", "instance": k_})
    rep.floor("R5.9", 3)

    # ------------------------------------------------------------ R5.8 sibling decoders size the block being read by the read cursor
    # Each streaming decoder (gz, bz2, lz4, xz) reads forward from its cursor up to the requested
    # block; the length of the block it is filling is that of the block *at the cursor*.  Using the
    # requested block offset instead gives the same length while blocks are read one after another and
    # a wrong (short) one when a read jumps ahead to the last block - the year-less backward pass does.
    R58 = rep.rule("R5.8", "every decoder asks for the size of the block at its read cursor (sibling agreement)")
    import flow as _flow58
    kinds58 = {}
    for nm_ in ("Gz", "Bz2", "Lz4", "Xz"):
        db = prog.body("s4lib::readers::blockreader::BlockReader::read_block_File" + nm_, required=False)
        if db is None:
            continue
        for c in db.live_calls():
            if c.d.endswith("::blocksz_at_blockoffset") and len(c.args) >= 2:
                tl = _flow58.named_target(db, c.args[1])
                if tl is None:
                    kind = "?"
                elif 1 <= tl <= db.argc:
                    kind = "parameter"
                else:
                    ds_ = db.defs.get(tl, [])
                    stepping = any(d_[1] != "call" and d_[2][0] == "bin" and d_[2][1].startswith("Add") and op_local(d_[2][2]) == tl for d_ in ds_)
                    kind = "cursor" if stepping else "variable"
                kinds58.setdefault(nm_, []).append((kind, db.local_name(tl) if tl is not None else None, c.line))
    for nm_, ks in sorted(kinds58.items()):
        rep.examined(R58, "read_block_File%s|block-size" % nm_, sample={"decoder": nm_, "argument_of_blocksz_at_blockoffset": ks})
        for kind, vn, ln in ks:
            if kind != "cursor":
                rep.violation(R58, "read_block_File%s|block-size" % nm_, "read_block_File%s sizes the block it is filling with blocksz_at_blockoffset(%s) (line %d), which is the %s, not the read cursor that its sibling decoders use; "
                              "when a read jumps ahead to a short last block every skipped block is read with the short length and the file is abandoned (output depends on --blocksz)" % (nm_, vn, ln, kind))
    if len(kinds58) < 3:
        raise CheckerError("R5.8: blocksz_at_blockoffset call found in only %d decoders" % len(kinds58))

    # ------------------------------------------------------------ R5.13 the tar member index means the same thing where it is stored and where it is used
    # BlockReader::new finds the member by enumerating the archive and stores its position;
    # read_block_FileTar fetches the member with `nth(position)`.  Both have to count over the same
    # sequence: the iterator handed to `enumerate` and the one handed to `nth` must be the same type
    # (tar::Entries itself, or the same adapter stack).  A filter on one side only (skip link entries,
    # skip directories) shifts the position and another member's bytes are read.
    R513 = rep.rule("R5.13", "the stored tar member position and the position used for reading count over the same iterator")
    nb13 = prog.body(BR + "::new")
    rb13 = prog.body(BR + "::read_block_FileTar")

    def _tar_iter_types(b_, names):
        res = []
        for c in b_.live_calls():
            nm_ = (c.o or c.d).split("::")[-1]
            st_ = (c.callee.get("self") or "")
            if nm_ in names and "tar::Entries" in st_:
                import re as _re513
                res.append((nm_, c.line, _re513.sub(r"'[_a-z0-9]+", "'_", st_)))
        return res
    en13 = _tar_iter_types(nb13, ("enumerate",))
    nt13 = _tar_iter_types(rb13, ("nth", "skip", "enumerate"))
    rep.examined(R513, BR + "|tar-member-position", sample={"stored_by": en13, "used_by": nt13})
    if not en13 or not nt13:
        raise CheckerError("R5.13: enumerate/nth over tar entries not found (%s / %s)" % (en13, nt13))
    t_store = {t_ for _n, _l, t_ in en13}
    t_use = {t_ for _n, _l, t_ in nt13}
    if t_store != t_use:
        rep.violation(R513, BR + "|tar-member-position|different-sequences", "BlockReader::new stores the member's position counted over %s (line %d) but read_block_FileTar takes the nth element of %s (line %d); "
                      "when the archive holds entries that only one side counts (link entries, directories) the bytes of another member are read" % (
                          sorted(t_store)[0][:90], en13[0][1], sorted(t_use)[0][:90], nt13[0][1]))

    # ------------------------------------------------------------ R5.14 the gzip size limit is a limit on the file on disk
    # BlockReader refuses .gz files above GZ_MAX_SZ; that (documented, arbitrary) limit is applied to the
    # on-disk length.  Applied to the length the trailer declares it refuses every log whose *content*
    # exceeds the limit, although the same bytes in a plain file are printed.
    R514 = rep.rule("R5.14", "GZ_MAX_SZ is compared with the on-disk length (metadata), not with the uncompressed length")
    gzmax = prog.facts.const(BR + "::GZ_MAX_SZ")
    if not isinstance(gzmax, int):
        raise CheckerError("R5.14: GZ_MAX_SZ not found")
    n514 = 0
    for bb in sorted(nb13.live):
        for st in nb13.stmts(bb):
            if st[0] == "=" and st[2][0] == "bin" and st[2][1] in ("Gt", "Lt", "Ge", "Le") and any(o[0] == "k" and o[2] == gzmax for o in (st[2][2], st[2][3])):
                other = [o for o in (st[2][2], st[2][3]) if o[0] != "k"]
                srcs = sorted({(x[2].split("::")[-2] + "::" + x[2].split("::")[-1]) if x[0] == "call" else x[0] for o in other for x in nb13.origins(o, through_calls=("::into", "::try_into", "::unwrap", "::from"))})
                n514 += 1
                ondisk = bool(srcs) and all(s_ == "Metadata::len" for s_ in srcs)
                rep.examined(R514, BR + "::new|gz-limit", sample={"line": st[3], "compared_value_from": srcs, "on_disk_length": ondisk})
                if not ondisk:
                    rep.violation(R514, BR + "::new|gz-limit|not-on-disk-length", "BlockReader::new (line %d) compares GZ_MAX_SZ with a value from %s instead of the file's on-disk length; every .gz whose content exceeds %d bytes is refused "
                                  "while the same content in a plain file is printed" % (st[3], srcs, gzmax))
    if n514 == 0:
        raise CheckerError("R5.14: no comparison with GZ_MAX_SZ found in BlockReader::new")

    # ------------------------------------------------------------ R5.16 the composite "archive|member" name is taken apart at its last separator
    # process_path_tar names a member `<path of the archive> + SUBPATH_SEP + <member name>`.  The readers
    # recover the two parts by splitting that string.  The path of the archive is whatever the user has on
    # disk and may contain the separator itself (`/var/log|2023/app.tar`); the split must therefore take
    # the *last* separator (member names are assumed free of it - the program's own convention, see
    # TRIAGE row 88).  Splitting at the first one opens a file that does not exist and every member of
    # such an archive prints nothing.
    R516 = rep.rule("R5.16", "readers split the composite archive|member name at its last separator")
    sepv = prog.facts.consts.get("s4lib::readers::blockreader::SUBPATH_SEP", {}).get("value")
    n516 = 0
    for sb_ in prog.bodies():
        if not sb_.path.startswith("s4lib::readers::") or "_tests" in sb_.path:
            continue
        for c in sb_.live_calls():
            nm_ = c.d.split("::")[-1]
            if not (c.d.startswith("core::str::") or c.d.startswith("std::str::") or "str::<impl str>" in c.d or c.o.startswith("core::str::")) or nm_ not in ("split_once", "rsplit_once", "split", "rsplit", "splitn", "rsplitn", "find", "rfind", "split_terminator"):
                continue
            pat_ = [a for a in c.args[1:] if a[0] == "k" and a[2] == sepv]
            if not pat_:
                continue
            n516 += 1
            rep.examined(R516, "%s|%s" % (sb_.path, nm_), sample={"function": sb_.path, "line": c.line, "call": nm_, "separator": sepv})
            if not nm_.startswith("r"):
                rep.violation(R516, "%s|composite-name|%s" % (sb_.path, nm_), "%s (line %d) takes the composite 'archive%smember' name apart with %s(), i.e. at the FIRST separator; an archive whose own path contains '%s' "
                              "(a directory such as 'logs%s2023') is then looked up under a truncated path and none of its members is printed" % (sb_.path.split("::")[-1], c.line, sepv, nm_, sepv, sepv))
    if n516 == 0:
        # the readers no longer take a composite string apart (the natural repair of TRIAGE row 88 hands the two
        # parts over separately): nothing for this rule to judge
        rep.examined(R516, "readers|no-composite-split", sample={"note": "no split of a composite archive|member name found in the readers", "separator": sepv})
        rep.info("R5.16: the readers do not split a composite archive%smember name any more; rule vacuous" % sepv)
    elif sepv is None:
        raise CheckerError("R5.16: separator constant SUBPATH_SEP not found")

    # ------------------------------------------------------------ R5.17 the reported size of a compressed file is its decoded size, for text and records alike
    # BlockReader::filesz() is the size every reader plans with (number of blocks, end of file, the
    # divisibility test that selects a record layout).  Its match on (file type, container) must return,
    # for each container that is decoded while reading, a different field than for a plain file, and
    # the same field for Text and for FixedStruct files.
    R517 = rep.rule("R5.17", "BlockReader::filesz() returns the decoded size for every decoded container, alike for text and record files")
    fzb = prog.body(BR + "::filesz")
    ftn = [v_["name"] for v_ in prog.facts.adts["s4lib::common::FileType"]["variants"]]
    atn = [v_["name"] for v_ in prog.facts.adts["s4lib::common::FileTypeArchive"]["variants"]]
    tab517 = {}
    for fi_, fnm_ in enumerate(ftn):
        for ai_, anm_ in enumerate(atn):
            bb_ = 0
            seen_ = set()
            leaf_ = None
            while bb_ not in seen_:
                seen_.add(bb_)
                ret_ = [st for st in fzb.stmts(bb_) if st[0] == "=" and st[1] == [0]]
                if ret_:
                    rv_ = ret_[0][2]
                    if rv_[0] == "use" and rv_[1][0] in ("cp", "mv") and isinstance(rv_[1][1][-1], list) and rv_[1][1][-1][0] == ".":
                        leaf_ = rv_[1][1][-1][2]
                    else:
                        leaf_ = "?" + str(rv_)[:40]
                    break
                t_ = fzb.term(bb_)
                if t_[0] == "goto":
                    bb_ = t_[1]
                    continue
                if t_[0] != "switch":
                    break   # panic arm (Unparsable) or something else: no size for this pair
                dl_ = op_local(t_[1])
                src_ = [st for st in fzb.stmts(bb_) if st[0] == "=" and st[1] == [dl_] and st[2][0] == "discr"]
                if not src_:
                    raise CheckerError("R5.17: BlockReader::filesz switches on something that is not an enum discriminant (block %d)" % bb_)
                pl_ = src_[0][2][1]
                last_ = pl_[-1]
                if isinstance(last_, list) and last_[0] == "." and last_[2] == "filetype":
                    want_ = fi_
                elif isinstance(last_, list) and last_[0] == "." and last_[2] == "archival_type":
                    want_ = ai_
                else:
                    raise CheckerError("R5.17: BlockReader::filesz matches on %s" % str(pl_)[:80])
                nxt_ = [tb for v_, tb in t_[2] if v_ == want_]
                bb_ = nxt_[0] if nxt_ else t_[3]
            if leaf_ is not None:
                tab517[(fnm_, anm_)] = leaf_
    rep.examined(R517, BR + "::filesz|table", sample={"returned_field": {"%s/%s" % k_: v_ for k_, v_ in sorted(tab517.items())}})
    if len(tab517) < 12 or ("Text", "Normal") not in tab517:
        raise CheckerError("R5.17: only %d (file type, container) pairs tabulated from BlockReader::filesz" % len(tab517))
    plain_ = tab517[("Text", "Normal")]
    for anm_ in atn:
        if anm_ == "Normal":
            continue
        t1_, t2_ = tab517.get(("Text", anm_)), tab517.get(("FixedStruct", anm_))
        rep.examined(R517, BR + "::filesz|%s" % anm_, sample={"container": anm_, "Text": t1_, "FixedStruct": t2_, "plain": plain_})
        for fnm_, tf_ in (("Text", t1_), ("FixedStruct", t2_)):
            if tf_ is not None and tf_ == plain_:
                rep.violation(R517, BR + "::filesz|%s/%s|on-disk-size" % (fnm_, anm_), "BlockReader::filesz() returns `%s` - the size of the file on disk - for %s files in a %s container; the readers then plan with the compressed size: "
                              "a .%s accounting file fits no record layout ('no valid fixed struct', nothing printed), a text file is cut at the compressed length" % (tf_, fnm_, anm_, anm_.lower()))
        if t1_ is not None and t2_ is not None and t1_ != t2_:
            rep.violation(R517, BR + "::filesz|%s|siblings-differ" % anm_, "BlockReader::filesz() returns `%s` for Text but `%s` for FixedStruct files in a %s container" % (t1_, t2_, anm_))

    # ------------------------------------------------------------ R5.15 the unpacked temporary file is complete before it is handed on
    # decompress_to_ntf writes the decoded bytes through a BufWriter and returns the *path*; the journal
    # and evtx readers open it by path.  BufWriter's Drop discards write errors, so a writer that merely
    # goes out of scope can leave a truncated file behind a success result (defect F46).  Every Ok
    # return reachable from a BufWriter::<File>::new passes through a flush (or into_inner) of that
    # writer whose result is inspected.
    import flushed
    R515 = rep.rule("R5.15", "a buffered writer over the temporary file is flushed, and the result looked at, before success is reported")
    fl515 = flushed.check(prog)
    for n515_, r_ in enumerate(fl515):
        rep.examined(R515, "%s|BufWriter#%d" % (r_["fn"], n515_), sample=r_)
        if r_["ok_returns_without_checked_flush"]:
            rep.violation(R515, "%s|%s|unflushed-ok" % (r_["fn"], "BufWriter<File>"), "%s: the BufWriter created at line %s can reach the function's Ok result (line %s) without a flush whose result is checked (%d flush calls, %d checked); "
                          "the last buffered bytes are then written by Drop, which discards errors - with a full disk or a file size limit the reader is handed a truncated temporary file and records are lost without any message"
                          % (r_["fn"], r_["line"], r_["ok_returns_without_checked_flush"][0], r_["flush_calls"], r_["checked_flush_calls"]))
    if len(fl515) < 2:
        raise CheckerError("R5.15: %d buffered file writers found (decompress_to_ntf has one per container)" % len(fl515))

    return rep.finish(
        "Static necessary-condition check: every decoder read() call site of the library honours short reads (count bounds the consumed slice, "
        "or a fill loop, or the buffer is not consumed); BlockReader::read_block dispatches Text and FixedStruct to the same, distinct reader per "
        "archive kind and every reader that drops earlier blocks is marked streamed; evtx/journal readers open the temporary extraction when "
        "one exists.",
        ["equality of decoded bytes for every compressor parameter (decoder crates are trusted)", "tar member lookup by name",
         "window behaviour on streamed files (see C03)"])
