"""C05 — compression and archiving are transparent.

Decides:
  R5.1 short-read discipline at every io::Read::read call site of the library: the returned count
       bounds the slice that is consumed, or drives a fill loop, or the buffer is never consumed.
  R5.2 container dispatch agreement: BlockReader::read_block maps Text and FixedStruct to the same
       reader per archive kind, one distinct reader per archive kind; every reader that drops earlier
       blocks while decoding is marked streamed by is_streamed_file for every file type.
  R5.3 evtx/journal readers open the temporary extraction when there is one, the original otherwise.
Does not decide: equality of decoded bytes for every compressor parameter (decoder crates trusted),
tar member lookup, window behaviour on streamed files (C03).
"""
import decide
from decide import enumerate_paths
from mir import CheckerError, op_local

BR = "s4lib::readers::blockreader::BlockReader"
FT = "s4lib::common::FileType"
FTA = "s4lib::common::FileTypeArchive"


def forward_taint(body, seeds):
    """locals data-dependent on the seed locals through copies, casts, arithmetic and tuple/field moves"""
    t = set(seeds)
    changed = True
    while changed:
        changed = False
        for bb in body.live:
            for s in body.stmts(bb):
                if s[0] != "=":
                    continue
                dst = s[1][0]
                if dst in t:
                    continue
                rv = s[2]
                ops = []
                k = rv[0]
                if k == "use":
                    ops = [rv[1]]
                elif k == "cast":
                    ops = [rv[2]]
                elif k == "bin":
                    ops = [rv[2], rv[3]]
                elif k == "un":
                    ops = [rv[2]]
                elif k in ("ref", "rawptr"):
                    if rv[2][0] in t:
                        t.add(dst)
                        changed = True
                    continue
                for o in ops:
                    if o[0] in ("cp", "mv") and o[1][0] in t:
                        t.add(dst)
                        changed = True
                        break
    return t


def ok_payload_locals(body, call):
    """locals assigned from (dest as Ok).0 of a call returning io::Result<usize>"""
    d = call.dest[0]
    res = set()
    for bb in body.live:
        for s in body.stmts(bb):
            if s[0] == "=" and s[2][0] == "use" and s[2][1][0] in ("cp", "mv"):
                pl = s[2][1][1]
                if pl[0] == d and len(pl) >= 3 and isinstance(pl[1], list) and pl[1][0] == "as" and pl[1][1] == "Ok":
                    res.add(s[1][0])
    return res


def buffer_root(body, op):
    """base local (array/Vec variable) the &mut [u8] argument of read() borrows from"""
    roots = set()
    for o in body.origins(op, through_calls=("::index_mut", "::as_mut", "::as_mut_slice", "::deref_mut", "::index", "::borrow_mut")):
        if o[0] == "local":
            roots.add(o[1])
        elif o[0] == "arg":
            roots.add(o[1])
        elif o[0] == "call":
            # the variable initialised by this call (e.g. Vec::with_capacity)
            d = body.term(o[1])[3]
            roots.add(d[0])
        elif o[0] in ("repeat", "agg"):
            st = body.stmts(o[1])[o[2]]
            roots.add(st[1][0])
    return roots


def range_uses(body, taint):
    """(kind, bb) for Range/RangeTo/RangeFrom aggregates having a tainted operand"""
    res = []
    for bb in sorted(body.live):
        for s in body.stmts(bb):
            if s[0] == "=" and s[2][0] == "agg" and isinstance(s[2][1], dict) and "adt" in s[2][1]:
                adt = s[2][1]["adt"]
                if adt.startswith("std::ops::Range"):
                    names = s[2][1]["fields"]
                    for n, o in zip(names, s[2][2]):
                        if o[0] in ("cp", "mv") and o[1][0] in taint:
                            res.append((adt.split("::")[-1] + "." + n, bb))
    return res


def buffer_consumers(body, root, read_call):
    """calls (other than the read itself and buffer preparation) that receive the buffer"""
    prep = ("::resize", "::with_capacity", "::clear", "::as_mut_slice", "::index_mut", "::as_mut", "::deref_mut", "::len", "::capacity",
            "::index", "::deref", "::as_slice", "::reserve", "Argument", "::fmt", "::is_empty")
    # locals that alias the buffer
    alias = forward_taint(body, {root})
    res = []
    for c in body.live_calls():
        if c.bb == read_call.bb:
            continue
        uses = any(a[0] in ("cp", "mv") and a[1][0] in alias for a in c.args)
        if not uses:
            continue
        if any(c.d.endswith(p) or p in c.d for p in prep):
            # slicing helpers produce new aliases
            if len(c.dest) == 1:
                alias.add(c.dest[0])
            continue
        res.append(c)
    # second pass with enlarged alias set
    res = []
    for c in body.live_calls():
        if c.bb == read_call.bb:
            continue
        if any(a[0] in ("cp", "mv") and a[1][0] in alias for a in c.args):
            if any(c.d.endswith(p) or p in c.d for p in prep):
                continue
            res.append(c)
    return res


def in_loop_with_cond(body, call, taint):
    """is the call inside a loop one of whose conditions compares a tainted local?"""
    for (tail, head) in body.back_edges():
        loop = body.loop_blocks(head)
        if call.bb not in loop:
            continue
        for bb in loop:
            t = body.term(bb)
            if t[0] != "switch":
                continue
            # exits the loop on one arm?
            succs = body.succ[bb]
            if all(s in loop for s in succs):
                continue
            l = op_local(t[1])
            if l is None:
                continue
            ds = body.defs.get(l, [])
            for d in ds:
                if d[1] != "call" and d[2][0] == "bin" and d[2][1] in ("Lt", "Le", "Gt", "Ge"):
                    for o in (d[2][2], d[2][3]):
                        if o[0] in ("cp", "mv") and o[1][0] in taint:
                            return True
    return False


def match_table(body, start_field, end_label):
    """(outer variant, inner variant) -> set(labels) for a match on self.<start_field> with a nested
    archival_type, starting at the switch on the discriminant of that field"""
    sw = None
    for bb in sorted(body.live):
        t = body.term(bb)
        if t[0] != "switch":
            continue
        l = op_local(t[1])
        for s in body.stmts(bb):
            if s[0] == "=" and s[1] == [l] and s[2][0] == "discr":
                pl = s[2][1]
                keys = [e[2] for e in pl[1:] if isinstance(e, list) and e[0] == "."]
                if keys == [start_field] and len(t[2]) >= 3:
                    sw = bb
        if sw is not None:
            break
    if sw is None:
        raise CheckerError("%s: no match on self.%s" % (body.path, start_field))
    paths = enumerate_paths(body, sw, end_label, opaque_ok=lambda bb: True)
    table = {}
    for p in paths:
        outer = None
        inner = None
        for d in p.decisions:
            if d[0] == "variant":
                root = d[1]
                if root[-1] == start_field:
                    outer = d[2]
                elif root[-1] == "archival_type":
                    inner = d[2]
        table.setdefault((outer, inner), set()).add(p.end)
    return table


def run(prog, rep, tier):
    facts = prog.facts
    R51 = rep.rule("R5.1", "short-read discipline at every io::Read::read call site")
    R52 = rep.rule("R5.2", "container dispatch agreement (reader per archive kind; streamed marking)")
    R53 = rep.rule("R5.3", "evtx/journal readers open the extracted temporary file")

    # ------------------------------------------------------------ R5.1
    nsites = 0
    for b in prog.bodies():
        if not b.path.startswith("s4lib::"):
            continue
        idx = 0
        for c in b.live_calls():
            if c.o != "std::io::Read::read":
                continue
            nsites += 1
            selfty = c.callee.get("self") or "?"
            key = "%s|read#%d<%s>" % (b.path, idx, selfty.split("<")[0].split("::")[-1])
            idx += 1
            pay = ok_payload_locals(b, c)
            taint = forward_taint(b, pay)
            ru = range_uses(b, taint)
            roots = buffer_root(b, c.args[1])
            consumers = []
            for r in roots:
                if isinstance(r, int):
                    consumers += buffer_consumers(b, r, c)
            bounded_end = [u for u in ru if u[0].endswith(".end")]
            bounded_start = [u for u in ru if u[0].endswith(".start")]
            loopc = in_loop_with_cond(b, c, taint)
            verdict = None
            if not pay:
                verdict = "count-dropped"
            if bounded_end:
                verdict = "count bounds the consumed slice"
            elif bounded_start and loopc:
                verdict = "fill loop (offset accumulates the count and is compared with the requested length)"
            elif not consumers:
                verdict = "buffer never consumed (size pre-pass)"
            else:
                verdict = None
            rep.examined(R51, key, sample={"site": b.path, "reader": selfty, "line": c.line, "count_locals": sorted(pay), "range_uses": ru[:4],
                                           "loop_condition_on_count": loopc, "buffer_consumers": [x.d.split("::")[-1] for x in consumers][:5],
                                           "verdict": verdict or "VIOLATION"})
            if verdict is None:
                rep.violation(R51, key, "%s: the count returned by %s::read (line %d) is not used to bound the buffer, yet the buffer is consumed at full length by %s; a short read leaves zero/stale bytes in the data" % (
                    b.path, selfty, c.line, sorted(set(x.d.split("::")[-1] for x in consumers))))
    rep.floor(R51, 6, "(decoder read sites of blockreader and filedecompressor)")

    # ------------------------------------------------------------ R5.2
    rb = prog.body(BR + "::read_block")
    ftv = {v["idx"]: v["name"] for v in facts.adts[FT]["variants"]}
    fav = {v["idx"]: v["name"] for v in facts.adts[FTA]["variants"]}

    def end_read_block(bb):
        t = rb.term(bb)
        if t[0] == "call":
            d = t[1].get("d", "")
            if "::read_block_File" in d:
                return d.split("::")[-1]
            if "panic" in d:
                return "panic"
        if t[0] == "ret":
            return "ret"
        return None

    table = match_table(rb, "filetype", end_read_block)
    per_ft = {}
    for (o, i), labs in table.items():
        if o is None:
            continue
        per_ft.setdefault(ftv[o], {})[fav.get(i, "*")] = labs
    readers_by_archive = {}
    for ft in ("Text", "FixedStruct"):
        if ft not in per_ft:
            raise CheckerError("read_block has no arm for FileType::%s" % ft)
    for a in fav.values():
        lt = per_ft["Text"].get(a)
        lf = per_ft["FixedStruct"].get(a)
        inst = "%s|%s" % (rb.path, a)
        rep.examined(R52, inst, sample={"archive": a, "Text": sorted(lt or []), "FixedStruct": sorted(lf or [])})
        if not lt or not lf or lt != lf or len(lt) != 1 or next(iter(lt)) in ("panic", "ret"):
            rep.violation(R52, inst, "%s: archive kind %s is read by %s for Text but %s for FixedStruct (each kind needs one and the same reader)" % (
                rb.path, a, sorted(lt or []), sorted(lf or [])))
        else:
            readers_by_archive[a] = next(iter(lt))
    inv = {}
    for a, r in readers_by_archive.items():
        inv.setdefault(r, []).append(a)
    for r, as_ in inv.items():
        if len(as_) > 1:
            rep.violation(R52, "%s|distinct|%s" % (rb.path, r), "%s: archive kinds %s share the reader %s" % (rb.path, sorted(as_), r))
    # streamed implication
    sf = prog.body(BR + "::is_streamed_file")

    def end_const(bb):
        for s in sf.stmts(bb):
            if s[0] == "=" and s[1] == [0] and s[2][0] == "use" and s[2][1][0] == "k" and isinstance(s[2][1][2], bool):
                return "true" if s[2][1][2] else "false"
        if sf.term(bb)[0] == "ret":
            return "ret"
        return None

    st = match_table(sf, "filetype", end_const)
    streamed = {}
    for (o, i), labs in st.items():
        if o is None:
            continue
        streamed[(ftv[o], fav.get(i, "*"))] = labs
    for a, r in sorted(readers_by_archive.items()):
        body = prog.body(BR + "::" + r)
        drops = [c for c in body.live_calls() if c.d.endswith("::drop_block")]
        for ft in ("Text", "FixedStruct"):
            labs = streamed.get((ft, a))
            inst = "%s|%s|%s" % (sf.path, ft, a)
            rep.examined(R52, inst, sample={"filetype": ft, "archive": a, "reader": r, "reader_drops_blocks": bool(drops), "is_streamed": sorted(labs or [])})
            if drops and labs != {"true"}:
                rep.violation(R52, inst, "%s: %s drops earlier blocks while decoding but is_streamed_file() is %s for %s/%s; the backward-jumping binary search would then meet dropped blocks" % (
                    sf.path, r, sorted(labs or []), ft, a))
    rep.floor(R52, 12)

    # ------------------------------------------------------------ R5.3
    sites = [("s4lib::readers::evtxreader::EvtxReader::new", ("OpenOptions::open", "from_path")),
             ("s4lib::readers::journalreader::JournalReader::new", ("sd_journal_open_files", "sd_journal_open_file", "OpenOptions::open", "CString"))]
    for path, _ in sites:
        b = prog.body(path)
        dec = [c for c in b.live_calls() if c.d.endswith("::decompress_to_ntf")]
        ntfpath = [c for c in b.live_calls() if c.d.endswith("NamedTempFile::<F>::path") or c.d.endswith("NamedTempFile::path") or ("NamedTempFile" in c.d and c.d.endswith("::path"))]
        inst = path + "|open-path"
        if len(dec) != 1:
            raise CheckerError("%s: %d decompress_to_ntf calls" % (path, len(dec)))
        # the variable that is opened: a local with two definitions, one from ntf.path(), one from the original path
        cand = None
        for l, ds in b.defs.items():
            if len(ds) < 2:
                continue
            srcs = set()
            for d in ds:
                if d[1] == "call":
                    if "NamedTempFile" in d[2].d and d[2].d.endswith("::path"):
                        srcs.add("ntf")
                    continue
                rv = d[2]
                if rv[0] == "use":
                    src_op = rv[1]
                elif rv[0] in ("ref", "rawptr"):
                    src_op = ["cp", rv[2]]
                else:
                    continue
                if src_op[0] == "k":
                    continue
                for o in b.origins(src_op, through_calls=("::deref", "::as_ref", "::as_path", "::borrow")):
                    if o[0] == "call" and "NamedTempFile" in o[2] and o[2].endswith("::path"):
                        srcs.add("ntf")
                    elif o[0] == "arg":
                        srcs.add("orig")
                    elif o[0] == "call" and ("Path::new" in o[2] or o[2].endswith("Path::new")):
                        srcs.add("orig")
            if srcs == {"ntf", "orig"}:
                cand = (l, ds)
        rep.examined(R53, inst, sample={"site": path, "ntf_path_calls": len(ntfpath), "selected_path_local": b.local_name(cand[0]) if cand else None})
        if not ntfpath or cand is None:
            rep.violation(R53, inst, "%s: the file that is opened is not chosen between the temporary extraction (NamedTempFile::path) and the original path" % path)
            continue
        l, ds = cand
        # the ntf definition must be under the Some arm of the Option<NamedTempFile>
        for d in ds:
            blk = d[0]
            if d[1] == "call":
                is_ntf = True
            else:
                so = d[2][1] if d[2][0] == "use" else ["cp", d[2][2]]
                is_ntf = any(o[0] == "call" and "NamedTempFile" in o[2] for o in b.origins(so, through_calls=("::deref", "::as_ref")))
            # find dominating switch on an Option<NamedTempFile>
            arm = None
            for bb in sorted(b.live):
                t = b.term(bb)
                if t[0] != "switch":
                    continue
                sd = decide.switch_decisions(b, bb)
                if not sd:
                    continue
                for tgt, dec_ in sd:
                    if dec_[0] in ("variant", "variant_not") and b.dominates(tgt, blk) and tgt != bb:
                        root = dec_[1]
                        base = root[1] if root[0] in ("local",) else None
                        ty = b.local_ty(base) if isinstance(base, int) else ""
                        if "NamedTempFile" in ty and ty.startswith("std::option::Option<"):
                            arm = dec_
            if arm is None:
                rep.violation(R53, inst, "%s: the choice of the opened path is not guarded by the presence of the temporary extraction" % path)
                break
            some = (arm[0] == "variant" and arm[2] == 1) or (arm[0] == "variant_not" and 1 not in arm[2] and False)
            if is_ntf != some:
                rep.violation(R53, inst, "%s: the temporary extraction's path is used when there is none / the original path when there is one" % path)
                break
        # and the selected path reaches an open call (taint through calls inside this body)
        taint = {l}
        changed = True
        while changed:
            n0 = len(taint)
            taint = forward_taint(b, taint)
            for c in b.live_calls():
                if len(c.dest) >= 1 and c.dest[0] not in taint and any(a[0] in ("cp", "mv") and a[1][0] in taint for a in c.args):
                    taint.add(c.dest[0])
            changed = len(taint) != n0
        openers = [c for c in b.live_calls() if ("open" in c.d.split("::")[-1].lower() or c.d.endswith("::from_path"))
                   and any(a[0] in ("cp", "mv") and a[1][0] in taint for a in c.args)]
        rep.examined(R53, inst + "|used", sample={"selected_path_opened_by": [c.d.split("::")[-1] for c in openers][:6]})
        if not openers:
            rep.violation(R53, inst + "|used", "%s: the selected path does not reach any open call" % path)

    return rep.finish(
        "Static necessary-condition check: every decoder read() call site of the library honours short reads (count bounds the consumed slice, "
        "or a fill loop, or the buffer is not consumed); BlockReader::read_block dispatches Text and FixedStruct to the same, distinct reader per "
        "archive kind and every reader that drops earlier blocks is marked streamed; evtx/journal readers open the temporary extraction when "
        "one exists.",
        ["equality of decoded bytes for every compressor parameter (decoder crates are trusted)", "tar member lookup by name",
         "window behaviour on streamed files (see C03)"])
