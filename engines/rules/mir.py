"""MIR view over the s4facts JSON: CFG with constant-edge pruning, dominators,
must-pass-through, call-site queries, value-origin tracing, and a compact printer."""
from collections import deque


class CheckerError(Exception):
    """An anchor is missing or an idiom is not recognised: the check is broken, not the code."""


# ------------------------------------------------------------------ places / operands

def place_local(p):
    return p[0]


def place_proj(p):
    return p[1:]


def is_bare(p):
    return len(p) == 1


def op_place(op):
    return op[1] if op[0] in ("cp", "mv") else None


def op_local(op):
    """local of an operand when it is a bare local copy/move"""
    if op[0] in ("cp", "mv") and len(op[1]) == 1:
        return op[1][0]
    return None


def op_const(op):
    return op[2] if op[0] == "k" else None


def is_const(op):
    return op[0] == "k"


def fmt_place(p, body=None):
    s = "_%d" % p[0]
    if body is not None:
        n = body.local_name(p[0])
        if n:
            s = "_%d'%s" % (p[0], n)
    for e in p[1:]:
        if e == "*":
            s = "(*%s)" % s
        elif isinstance(e, list):
            if e[0] == ".":
                s += ".%s" % e[2]
            elif e[0] == "as":
                s += " as %s" % e[1]
            elif e[0] == "[]":
                s += "[_%d]" % e[1]
            elif e[0] == "[c]":
                s += "[%s%d]" % ("-" if e[3] else "", e[1])
            elif e[0] == "[..]":
                s += "[%d..%s%d]" % (e[1], "-" if e[3] else "", e[2])
        else:
            s += "<%s>" % e
    return s


def fmt_op(op, body=None):
    if op[0] == "cp":
        return fmt_place(op[1], body)
    if op[0] == "mv":
        return "move " + fmt_place(op[1], body)
    if op[0] == "k":
        v = op[2]
        if isinstance(v, dict):
            if "fn" in v:
                return "fn:" + v.get("f", v["fn"])
            if "closure" in v:
                return "closure:" + v["closure"]
            if "adt" in v:
                return "%s::%s%s" % (v["adt"].split("::")[-1], v.get("variant", ""), "{..}" if v.get("fields") else "")
            return str(v)[:80]
        r = repr(v)
        if len(r) > 70:
            r = r[:70] + "…"
        return "const %s" % r
    return str(op)


def fmt_rv(rv, body=None):
    k = rv[0]
    if k == "use":
        return fmt_op(rv[1], body)
    if k == "ref":
        return "&%s%s" % ("mut " if rv[1] == "mut" else "", fmt_place(rv[2], body))
    if k == "rawptr":
        return "&raw %s" % fmt_place(rv[2], body)
    if k == "bin":
        return "%s(%s, %s)" % (rv[1], fmt_op(rv[2], body), fmt_op(rv[3], body))
    if k == "un":
        return "%s(%s)" % (rv[1], fmt_op(rv[2], body))
    if k == "cast":
        return "%s as %s [%s]" % (fmt_op(rv[2], body), rv[3], rv[1][:30])
    if k == "discr":
        return "discriminant(%s)" % fmt_place(rv[1], body)
    if k == "agg":
        kind = rv[1]
        if isinstance(kind, dict):
            if "adt" in kind:
                name = "%s::%s" % (kind["adt"].split("::")[-1], kind["variant"])
                fs = ", ".join("%s: %s" % (n, fmt_op(o, body)) for n, o in zip(kind["fields"], rv[2]))
                return "%s{%s}" % (name, fs)
            if "closure" in kind:
                return "closure %s [%s]" % (kind["closure"].split("::", 1)[-1], ", ".join(fmt_op(o, body) for o in rv[2]))
            return "%s[%s]" % (list(kind.keys())[0], ", ".join(fmt_op(o, body) for o in rv[2]))
        return "(%s)" % ", ".join(fmt_op(o, body) for o in rv[2])
    if k == "repeat":
        return "[%s; %s]" % (fmt_op(rv[1], body), rv[2])
    return str(rv)[:120]


# ------------------------------------------------------------------ body view

class Call:
    __slots__ = ("bb", "callee", "args", "dest", "target", "body")

    def __init__(self, body, bb, term):
        self.body = body
        self.bb = bb
        self.callee = term[1]
        self.args = term[2]
        self.dest = term[3]
        self.target = term[4]

    @property
    def d(self):
        return self.callee.get("d", "")

    @property
    def f(self):
        return self.callee.get("f", "")

    @property
    def o(self):
        return self.callee.get("o", "")

    @property
    def line(self):
        return self.callee.get("line", 0)

    def __repr__(self):
        return "<call bb%d %s>" % (self.bb, self.f or self.callee)


class Body:
    def __init__(self, j):
        self.j = j
        self.path = j["path"]
        self.blocks = j["blocks"]
        self.locals = j["locals"]
        self.argc = j["argc"]
        self.n = len(self.blocks)
        self._succ = None
        self._pred = None
        self._calls = None
        self._defs = None
        self._reach = None

    # -- basic info
    def local_name(self, l):
        return self.locals[l].get("name")

    def local_ty(self, l):
        return self.locals[l]["ty"]

    def locals_named(self, name):
        return [i for i, l in enumerate(self.locals) if l.get("name") == name]

    def term(self, bb):
        return self.blocks[bb]["t"]

    def stmts(self, bb):
        return self.blocks[bb]["s"]

    # -- CFG (constant switch edges pruned; cleanup blocks are kept but are unreachable
    #    in release because panic=abort removes unwind edges from the extractor output)
    def raw_succ(self, bb):
        t = self.blocks[bb]["t"]
        k = t[0]
        if k == "goto":
            return [t[1]]
        if k == "switch":
            discr = self._const_discr(bb, t[1])
            arms = t[2]
            if discr[0] == "k" and isinstance(discr[2], (bool, int)):
                v = int(discr[2])
                for val, b in arms:
                    if int(val) == v:
                        return [b]
                return [t[3]]
            res = []
            for _, b in arms:
                if b not in res:
                    res.append(b)
            if t[3] not in res:
                res.append(t[3])
            return res
        if k == "call":
            return [t[4]] if t[4] is not None else []
        if k == "drop":
            return [t[2]]
        if k == "assert":
            return [t[3]]
        return []

    def _const_discr(self, bb, discr):
        """`_n = const b; switch move _n`: cfg!(debug_assertions) and friends in release MIR"""
        l = op_local(discr)
        if l is None:
            return discr
        # `_d = discriminant(<place rooted at a local holding a constant enum value>)`
        for s in self.blocks[bb]["s"]:
            if s[0] == "=" and s[1] == [l] and s[2][0] == "discr":
                v = self._const_of_place(s[2][1])
                if isinstance(v, dict) and "vidx" in v:
                    return ["k", "isize", v["vidx"]]
        found = None
        for s in self.blocks[bb]["s"]:
            if s[0] == "=" and s[1][0] == l:
                if len(s[1]) == 1 and s[2][0] == "use" and s[2][1][0] == "k" and isinstance(s[2][1][2], (bool, int)):
                    found = s[2][1]
                else:
                    found = None
        return found if found is not None else discr

    def _const_of_place(self, pl, depth=0):
        v = self._const_of_local(pl[0], depth)
        for e in pl[1:]:
            if v is None:
                return None
            if e == "*":
                continue
            if isinstance(e, list) and e[0] == "as":
                if not (isinstance(v, dict) and v.get("variant") == e[1]):
                    return None
            elif isinstance(e, list) and e[0] == ".":
                if not (isinstance(v, dict) and e[2] in v.get("fields", {})):
                    return None
                v = v["fields"][e[2]]
            else:
                return None
        return v

    def _const_of_local(self, l, depth=0):
        """constant value of a local that is assigned exactly once, from a constant (possibly a
        projection of another such local)"""
        n = 0
        val = None
        for b in self.blocks:
            for s in b["s"]:
                if s[0] == "=" and s[1][0] == l and len(s[1]) == 1:
                    n += 1
                    if s[2][0] == "use" and s[2][1][0] == "k":
                        val = s[2][1][2]
                    elif s[2][0] == "use" and s[2][1][0] in ("cp", "mv") and depth < 4 and s[2][1][1][0] != l:
                        val = self._const_of_place(s[2][1][1], depth + 1)
                    else:
                        val = None
            t = b["t"]
            if t[0] == "call" and t[3][0] == l:
                n += 1
                val = None
        return val if n == 1 else None

    @property
    def succ(self):
        if self._succ is None:
            self._succ = [self.raw_succ(b) for b in range(self.n)]
            # unreachable-terminated successors stay; `switch` otherwise→unreachable block is harmless
        return self._succ

    @property
    def pred(self):
        if self._pred is None:
            self._pred = [[] for _ in range(self.n)]
            for b in range(self.n):
                for s in self.succ[b]:
                    self._pred[s].append(b)
        return self._pred

    def reachable(self, start=0, removed=()):
        removed = set(removed)
        if start in removed:
            return set()
        seen = {start}
        dq = deque([start])
        while dq:
            b = dq.popleft()
            for s in self.succ[b]:
                if s not in seen and s not in removed:
                    seen.add(s)
                    dq.append(s)
        return seen

    @property
    def live(self):
        if self._reach is None:
            self._reach = self.reachable(0)
        return self._reach

    def reaches(self, a, b, removed=()):
        """is b reachable from a (a itself counts only via a path of length >= 0)"""
        return b in self.reachable(a, removed)

    def reachable_after(self, bb, removed=()):
        """blocks reachable from the successors of bb (strictly after bb's terminator)"""
        res = set()
        for s in self.succ[bb]:
            if s not in removed:
                res |= self.reachable(s, removed)
        return res

    def must_pass(self, src, dst, through):
        """every path src -> dst passes through a block of `through` (dst/src not counted)"""
        through = set(through) - {src, dst}
        return dst not in self.reachable(src, through)

    def dominates(self, a, b):
        """a dominates b (w.r.t. entry 0)"""
        if a == b:
            return True
        dc = self.__dict__.setdefault("_domcache", {})
        r = dc.get(a)
        if r is None:
            r = dc[a] = self.reachable(0, {a})
        return b not in r

    def exits(self):
        """live blocks ending in return"""
        return [b for b in sorted(self.live) if self.blocks[b]["t"][0] == "ret"]

    def dead_ends(self):
        """live blocks with no successor that are not returns (diverging calls, unreachable)"""
        return [b for b in sorted(self.live) if not self.succ[b] and self.blocks[b]["t"][0] != "ret"]

    def back_edges(self):
        res = []
        for b in sorted(self.live):
            for s in self.succ[b]:
                if self.dominates(s, b):
                    res.append((b, s))
        return res

    def loop_blocks(self, header):
        """natural loop of header: union over back edges (t -> header)"""
        body = {header}
        stack = [t for (t, h) in self.back_edges() if h == header]
        while stack:
            b = stack.pop()
            if b not in body:
                body.add(b)
                stack.extend(self.pred[b])
        return body

    # -- calls
    @property
    def calls(self):
        if self._calls is None:
            self._calls = []
            for b in range(self.n):
                t = self.blocks[b]["t"]
                if t[0] == "call":
                    self._calls.append(Call(self, b, t))
        return self._calls

    def live_calls(self):
        return [c for c in self.calls if c.bb in self.live]

    def calls_to(self, pred, live=True):
        """pred: str (substring of resolved def path `d`) or callable(Call)->bool"""
        res = []
        for c in self.calls:
            if live and c.bb not in self.live:
                continue
            if callable(pred):
                if pred(c):
                    res.append(c)
            elif pred in c.d or pred in c.o:
                res.append(c)
        return res

    def fn_value_refs(self):
        """(bb, path) for every fn item or closure used as a *value* (argument or assignment),
        i.e. handed to someone else to call"""
        res = []
        for b in sorted(self.live):
            for st in self.blocks[b]["s"]:
                if st[0] != "=":
                    continue
                rv = st[2]
                ops = []
                if rv[0] == "use":
                    ops = [rv[1]]
                elif rv[0] == "cast":
                    ops = [rv[2]]
                elif rv[0] == "agg":
                    ops = list(rv[2])
                    if isinstance(rv[1], dict) and "closure" in rv[1]:
                        res.append((b, rv[1]["closure"]))
                for o in ops:
                    if o[0] == "k" and isinstance(o[2], dict):
                        if "fn" in o[2]:
                            res.append((b, o[2]["fn"]))
                        if "closure" in o[2]:
                            res.append((b, o[2]["closure"]))
            t = self.blocks[b]["t"]
            if t[0] == "call":
                for o in t[2]:
                    if o[0] == "k" and isinstance(o[2], dict):
                        if "fn" in o[2]:
                            res.append((b, o[2]["fn"]))
                        if "closure" in o[2]:
                            res.append((b, o[2]["closure"]))
        return res

    # -- definitions of locals (flow-insensitive)
    @property
    def defs(self):
        """local -> list of (bb, idx|'call', rvalue|Call) for assignments to the *bare* local"""
        if self._defs is None:
            d = {}
            pd = {}
            live = self.live
            for b in range(self.n):
                if b not in live:
                    continue  # definitions in pruned (constant-dead) blocks do not flow anywhere
                for i, s in enumerate(self.blocks[b]["s"]):
                    if s[0] == "=":
                        p = s[1]
                        if len(p) == 1:
                            d.setdefault(p[0], []).append((b, i, s[2]))
                        else:
                            pd.setdefault(p[0], []).append((b, i, p, s[2]))
                t = self.blocks[b]["t"]
                if t[0] == "call":
                    p = t[3]
                    c = Call(self, b, t)
                    if len(p) == 1:
                        d.setdefault(p[0], []).append((b, "call", c))
                    else:
                        pd.setdefault(p[0], []).append((b, "call", p, c))
            self._defs = d
            self._pdefs = pd
        return self._defs

    @property
    def pdefs(self):
        self.defs
        return self._pdefs

    def origins(self, op, depth=0, seen=None, through_calls=()):
        """Trace an operand/place back to its roots, flow-insensitively.

        Returns a set of tuples:
          ('arg', n, projpath)       argument local n (1-based like MIR), with remaining projection
          ('call', bb, d, projpath)  result of the call at bb whose resolved def path is d
          ('const', repr)            a constant
          ('agg', bb, idx)           an aggregate built at bb/idx
          ('local', l, projpath)     a local with no (or partial) definition
          ('bin', bb, idx)/('other', ...)
        projpath is a tuple of field names / '*' accumulated from use-site towards the root.
        `through_calls`: def-path substrings of calls treated as identity on their first argument
        (e.g. Deref::deref, Clone::clone, as_ref ...).
        """
        if seen is None:
            seen = set()
        res = set()
        if op[0] == "k":
            v = op[2]
            res.add(("const", _freeze(v)))
            return res
        place = op[1] if op[0] in ("cp", "mv") else op
        self._origins_place(place, (), res, seen, through_calls, 0)
        return res

    def _origins_place(self, place, suffix, res, seen, through_calls, depth):
        l = place[0]
        proj = tuple(_proj_key(e) for e in place[1:]) + tuple(suffix)
        key = (l, proj)
        if key in seen or depth > 60:
            return
        seen.add(key)
        if 1 <= l <= self.argc:
            res.add(("arg", l, proj))
            # arguments can also be reassigned; continue to look at defs
        ds = self.defs.get(l, [])
        if not ds:
            if not (1 <= l <= self.argc):
                res.add(("local", l, proj))
            return
        for (bb, idx, rv) in ds:
            if idx == "call":
                c = rv
                if any(t in c.d or t in c.o for t in through_calls) and c.args:
                    a = c.args[0]
                    if a[0] == "k":
                        res.add(("const", _freeze(a[2])))
                    else:
                        self._origins_place(a[1], proj, res, seen, through_calls, depth + 1)
                else:
                    res.add(("call", bb, c.d, proj))
                continue
            k = rv[0]
            if k == "use":
                o = rv[1]
                if o[0] == "k":
                    res.add(("const", _freeze(o[2])))
                else:
                    self._origins_place(o[1], proj, res, seen, through_calls, depth + 1)
            elif k in ("ref", "rawptr"):
                # &place : a following deref cancels
                p2 = rv[2]
                if proj and proj[0] == "*":
                    self._origins_place(p2, proj[1:], res, seen, through_calls, depth + 1)
                else:
                    self._origins_place(p2, ("&",) + proj, res, seen, through_calls, depth + 1)
            elif k == "cast" or (k == "un" and rv[1] == "Not"):
                o = rv[2]
                if o[0] == "k":
                    res.add(("const", _freeze(o[2])))
                else:
                    self._origins_place(o[1], proj, res, seen, through_calls, depth + 1)
            elif k == "agg":
                kind = rv[1]
                # `(x as Variant).f` of an enum aggregate: only the matching variant can flow here
                if proj and isinstance(kind, dict) and "adt" in kind and proj[0].startswith("as "):
                    if proj[0][3:] != kind["variant"]:
                        continue
                    proj = proj[1:]
                # projection into a field of the aggregate: follow that operand
                if proj and isinstance(kind, dict) and "adt" in kind and proj[0] in kind["fields"]:
                    o = rv[2][kind["fields"].index(proj[0])]
                    if o[0] == "k":
                        res.add(("const", _freeze(o[2])))
                    else:
                        self._origins_place(o[1], proj[1:], res, seen, through_calls, depth + 1)
                elif proj and kind == "tuple" and proj[0].isdigit() and int(proj[0]) < len(rv[2]):
                    o = rv[2][int(proj[0])]
                    if o[0] == "k":
                        res.add(("const", _freeze(o[2])))
                    else:
                        self._origins_place(o[1], proj[1:], res, seen, through_calls, depth + 1)
                else:
                    res.add(("agg", bb, idx, proj))
            else:
                res.add((k, bb, idx, proj))

    def eval_int(self, op, depth=0):
        """constant-fold an integer operand (constants, single-definition temporaries, Mul/Add/Sub, casts)"""
        if op[0] == "k":
            return op[2] if isinstance(op[2], int) and not isinstance(op[2], bool) else None
        l = op_local(op)
        ds = self.defs.get(l, []) if l is not None else []
        if len(ds) != 1 or ds[0][1] == "call" or depth > 12:
            return None
        rv = ds[0][2]
        if rv[0] == "use":
            return self.eval_int(rv[1], depth + 1)
        if rv[0] == "cast":
            return self.eval_int(rv[2], depth + 1)
        if rv[0] == "bin":
            a, c = self.eval_int(rv[2], depth + 1), self.eval_int(rv[3], depth + 1)
            if a is None or c is None:
                return None
            opn = rv[1].replace("WithOverflow", "").replace("Unchecked", "")
            return {"Mul": a * c, "Add": a + c, "Sub": a - c}.get(opn)
        return None

    def shape(self, op, depth=0):
        """structural shape of a value: constants, operators, and the *names* of the calls it is computed
        from (single-definition locals are expanded; identities of variables are not part of the shape)"""
        if op[0] == "k":
            return ("k", op[2] if isinstance(op[2], (int, str, bool)) else "?")
        l = op_local(op)
        if l is None or depth > 10:
            return ("place",)
        if 1 <= l <= self.argc and len(op[1]) == 1:
            return ("arg",)
        ds = self.defs.get(l, [])
        if len(ds) != 1:
            return ("var",)
        d = ds[0]
        if d[1] == "call":
            c = d[2]
            return ("call", (c.o or c.d).split("::")[-1])
        rv = d[2]
        if rv[0] == "use":
            return self.shape(rv[1], depth + 1)
        if rv[0] == "cast":
            return self.shape(rv[2], depth + 1)
        if rv[0] == "bin":
            return (rv[1].replace("WithOverflow", "").replace("Unchecked", ""), self.shape(rv[2], depth + 1), self.shape(rv[3], depth + 1))
        return (rv[0],)

    # -- printing
    def dump(self, only_live=True, blocks=None):
        out = []
        out.append("fn %s  [%s] argc=%d" % (self.path, self.j.get("span"), self.argc))
        for i, l in enumerate(self.locals):
            if i <= self.argc or l.get("name"):
                out.append("  let _%d%s: %s" % (i, ("'" + l["name"]) if l.get("name") else "", l["ty"]))
        for uv in self.j.get("upvars", []):
            out.append("  upvar %s = %s" % (uv[0], fmt_place(uv[1])))
        for b in range(self.n):
            if only_live and b not in self.live:
                continue
            if blocks is not None and b not in blocks:
                continue
            out.append(" bb%d:  (line %s)" % (b, self.blocks[b].get("l")))
            for s in self.blocks[b]["s"]:
                if s[0] == "=":
                    out.append("    %s = %s" % (fmt_place(s[1], self), fmt_rv(s[2], self)))
                else:
                    out.append("    %s" % (s,))
            t = self.blocks[b]["t"]
            out.append("    " + self.fmt_term(t))
        return "\n".join(out)

    def fmt_term(self, t):
        k = t[0]
        if k == "call":
            c = t[1]
            name = c.get("f") or ("indirect " + fmt_op(c["indirect"], self) if "indirect" in c else "?")
            return "%s = %s(%s) -> %s" % (fmt_place(t[3], self), name, ", ".join(fmt_op(a, self) for a in t[2]),
                                          ("bb%d" % t[4]) if t[4] is not None else "!")
        if k == "switch":
            return "switch %s [%s, else bb%d]" % (fmt_op(t[1], self), ", ".join("%s→bb%d" % (v, b) for v, b in t[2]), t[3])
        if k == "goto":
            return "goto bb%d" % t[1]
        if k == "drop":
            return "drop(%s) -> bb%d" % (fmt_place(t[1], self), t[2])
        if k == "assert":
            return "assert(%s == %s) -> bb%d" % (fmt_op(t[1], self), t[2], t[3])
        return k


def _proj_key(e):
    if e == "*":
        return "*"
    if isinstance(e, list):
        if e[0] == ".":
            return e[2]
        if e[0] == "as":
            return "as " + e[1]
        return e[0]
    return str(e)


def _freeze(v):
    if isinstance(v, (dict, list)):
        import json
        return json.dumps(v, sort_keys=True)[:400]
    return repr(v)


# ------------------------------------------------------------------ program-level helpers

class Program:
    def __init__(self, facts):
        self.facts = facts
        self._bodies = {}

    def body(self, path, required=True):
        if path in self._bodies:
            return self._bodies[path]
        j = self.facts.body(path)
        if j is None:
            if required:
                raise CheckerError("anchor missing: body %s" % path)
            return None
        b = Body(j)
        self._bodies[path] = b
        return b

    def body_or_impl(self, path, required=True):
        """the body at `path`, or - when that body has become a thin wrapper (a handful of blocks that hand all
        of its parameters, in order, to one function of the same module) - the function that now does the work;
        splitting `f` into `f` + `f_impl` must not make an anchor disappear"""
        b = self.body(path, required=required)
        for _ in range(3):
            if b is None or len(b.live) > 24:
                return b
            mod = b.path.rsplit("::", 1)[0]
            cands = []
            for c in b.live_calls():
                if not c.d.startswith(mod + "::") or c.d == b.path or len(c.args) != b.argc or b.argc == 0:
                    continue
                if all(any(x[0] == "arg" and x[1] == i + 1 for x in b.origins(a)) for i, a in enumerate(c.args)):
                    cands.append(c.d)
            if len(set(cands)) != 1:
                return b
            nb = self.body(cands[0], required=False)
            if nb is None:
                return b
            b = nb
        return b

    def bodies(self):
        for p in self.facts.bodies:
            yield self.body(p)

    def closures_in(self, root_path):
        return [self.body(b["path"]) for b in self.facts.closures_of(root_path)]

    def find(self, suffix):
        return [self.body(b["path"]) for b in self.facts.find_bodies(suffix)]

    def one(self, suffix):
        r = self.find(suffix)
        if len(r) != 1:
            raise CheckerError("anchor %r matches %d bodies" % (suffix, len(r)))
        return r[0]

    def callgraph(self):
        """path -> set of resolved callee def paths (closures created in a body count as called)"""
        if hasattr(self, "_cg"):
            return self._cg
        cg = {}
        for b in self.bodies():
            s = set()
            for c in b.calls:
                if c.d:
                    s.add(c.d)
            # closures and fn items referenced as values
            for bb in b.blocks:
                for st in bb["s"]:
                    if st[0] == "=":
                        _collect_fn_refs(st[2], s)
                t = bb["t"]
                if t[0] == "call":
                    for a in t[2]:
                        _collect_fn_refs_op(a, s)
            cg[b.path] = s
        self._cg = cg
        return cg

    def reachable_fns(self, roots):
        cg = self.callgraph()
        seen = set()
        dq = deque(roots)
        while dq:
            p = dq.popleft()
            if p in seen:
                continue
            seen.add(p)
            for q in cg.get(p, ()):
                if q not in seen:
                    dq.append(q)
        return seen


def _collect_fn_refs_op(op, s):
    if op[0] == "k" and isinstance(op[2], dict):
        if "fn" in op[2]:
            s.add(op[2]["fn"])
        if "closure" in op[2]:
            s.add(op[2]["closure"])


def _collect_fn_refs(rv, s):
    k = rv[0]
    if k in ("use", "cast"):
        _collect_fn_refs_op(rv[1] if k == "use" else rv[2], s)
    elif k == "agg":
        kind = rv[1]
        if isinstance(kind, dict) and "closure" in kind:
            s.add(kind["closure"])
        for o in rv[2]:
            _collect_fn_refs_op(o, s)
