"""Running-extremum accumulator rule: a function keeps `field: Option<T>` as the minimum
(or maximum) of every value it has been called with.  Decided by enumerating the decision
paths of the body against the finite abstract domain
    shape(field) in {None, Some}  x  order(value, field.0) in {<, =, >}
and requiring on every consistent path:   field is overwritten with Some(value)  iff
the field was None or the value is strictly beyond it (either is fine at equality)."""
import decide
from mir import CheckerError, _proj_key


def _field_writes(body, blocks, field):
    """[(bb, value_origins)] for statements `(*self).field = X` on the blocks"""
    res = []
    for bb in blocks:
        for s in body.stmts(bb):
            if s[0] == "=" and len(s[1]) > 1:
                proj = [_proj_key(e) for e in s[1][1:]]
                if proj and proj[-1] == field:
                    res.append((bb, s[2]))
    return res


def _is_some_of(body, rv, value_arg):
    """rvalue is Some(<the value parameter>) (directly or through one temporary)"""
    if rv[0] == "agg":
        aggs = [rv]
    elif rv[0] == "use" and rv[1][0] != "k":
        aggs = []
        for o in body.origins(rv[1]):
            if o[0] == "agg":
                aggs.append(body.stmts(o[1])[o[2]][2])
            else:
                return None
    else:
        return None
    for a in aggs:
        kind = a[1]
        if not (isinstance(kind, dict) and kind.get("variant") == "Some" and len(a[2]) == 1):
            return None
        oo = body.origins(a[2][0], through_calls=("Clone>::clone", "::clone", "::deref"))
        if not oo or not all(x[0] == "arg" and x[1] == value_arg for x in oo):
            return False
    return True


def check(body, field, direction, self_arg=1, value_arg=2):
    """Returns (n_abstract_inputs, n_paths, problems[])"""
    assert direction in ("min", "max")
    froot = ("arg", self_arg, field)
    paths = decide.enumerate_paths(body, 0, lambda bb: "ret" if body.term(bb)[0] == "ret" else None)
    paths = [p for p in paths if p.end == "ret"]
    if not paths:
        raise CheckerError("%s: no path to return" % body.path)
    # operands of the comparisons that mention the field payload
    problems = []
    n_inputs = 0
    for shape in (0, 1):
        for rel in ("<", "=", ">"):
            if shape == 0 and rel != "=":
                continue  # no payload to compare with
            n_inputs += 1
            cons = []
            for p in paths:
                ok = True
                touched = False
                for d in p.decisions:
                    k = d[0]
                    if k in ("variant", "variant_not", "is") and d[1] == froot:
                        touched = True
                        if not decide.consistent((d,), {}, {froot: shape}):
                            ok = False
                    elif k == "cmp":
                        a, b_ = d[2], d[3]
                        fa = a[:3] == froot
                        fb = b_[:3] == froot
                        va = a[:2] == ("arg", value_arg)
                        vb = b_[:2] == ("arg", value_arg) and not fb
                        if fa and vb:
                            r = decide.FLIP_REL[rel]
                        elif fb and va and not fa:
                            r = rel
                        else:
                            continue  # a decision about something else
                        touched = True
                        if (r in decide.TRUTH[d[1]]) != d[4]:
                            ok = False
                if ok:
                    cons.append((p, touched))
            for p, touched in cons:
                ws = _field_writes(body, p.blocks, field)
                good = [w for w in ws if _is_some_of(body, w[1], value_arg)]
                odd = [w for w in ws if _is_some_of(body, w[1], value_arg) is not True]
                if odd:
                    raise CheckerError("%s: %s is assigned something other than Some(value) (accumulator idiom not recognised)" % (body.path, field))
                beyond = (rel == "<") if direction == "min" else (rel == ">")
                must = shape == 0 or beyond
                may = must or rel == "="
                what = "%s is %s%s" % (field, "None" if shape == 0 else "Some", "" if shape == 0 else " and value %s %s" % (rel, field))
                if must and not good:
                    problems.append(("missing", what, touched, p.blocks[-1]))
                elif good and not may:
                    problems.append(("spurious", what, touched, p.blocks[-1]))
    return n_inputs, len(paths), problems
