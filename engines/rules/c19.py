"""C19 — the summary agrees with what was printed.

Decides:
  R19.1 sibling updaters: each summaryprint_update_<kind> adds its `printed` argument to bytes,
        `flushed` to flushed, something to lines, one to its own kind counter, and forwards the
        message's dt() to the first/last datetime updater.
  R19.2 in each message arm of processing_loop the values given to the per-file and the total
        updater are exactly the Ok((printed, flushed)) of that arm's own print call.
  R19.3 separator and supplied-newline bytes are added to the total exactly where they are written,
        and to no per-file record.
  R19.4 stderr only: nothing reachable from print_summary writes to stdout.
  R19.5 the filter bounds printed in the summary are the ones given to the workers.
  R19.6 byte accounting inside the printers: every write_all to stdout is followed on success by
        printed += len(the same bytes).
Does not decide: formatting of the summary text, per-reader statistics.
"""
from mir import CheckerError, op_local
import c13
from c08 import var_of

PL = "s4::processing_loop"
SP = "s4lib::printer::summary::SummaryPrinted::"
KINDS = {"sysline": "syslines", "fixedstruct": "fixedstructentries", "evtx": "evtxentries", "journalentry": "journalentries"}
STDOUT_SINKS = ("std::io::stdout", "std::io::_print", "termcolor::StandardStream::stdout", "termcolor::BufferedStandardStream::stdout",
                "s4lib::printer::printers::write_stdout", "termcolor::BufferWriter::stdout")


def field_adds(b):
    """field name -> list of origin descriptions of what is added: (*self).F = Add((*self).F, X)"""
    res = {}
    for bb in sorted(b.live):
        for s in b.stmts(bb):
            if s[0] == "=" and len(s[1]) >= 3 and s[1][0] == 1 and s[1][1] == "*" and isinstance(s[1][2], list) and s[1][2][0] == "." and s[2][0] == "bin" and s[2][1].startswith("Add"):
                f = s[1][2][2]
                x = s[2][3]
                if x[0] == "k":
                    res.setdefault(f, []).append(("const", x[2]))
                else:
                    o = b.origins(x)
                    res.setdefault(f, []).append(tuple(sorted((y[0], y[1]) if y[0] == "arg" else (y[0], y[2] if y[0] == "call" else "") for y in o)))
    return res


def run(prog, rep, tier):
    R191 = rep.rule("R19.1", "sibling summary updaters write the same counters")
    R192 = rep.rule("R19.2", "updaters receive exactly the print call's (printed, flushed)")
    R193 = rep.rule("R19.3", "separator/newline bytes counted in the total where written, never per file")
    R194 = rep.rule("R19.4", "summary output never reaches stdout")
    R195 = rep.rule("R19.5", "summary shows the filter bounds given to the workers")
    R196 = rep.rule("R19.6", "printers add len(written bytes) to printed after every stdout write")

    # ------------------------------------------------------------ R19.1
    for kind, counter in sorted(KINDS.items()):
        b = prog.body(SP + "summaryprint_update_" + kind)
        fa = field_adds(b)
        dtc = [c for c in b.live_calls() if c.d == SP + "summaryprint_update_dt"]
        problems = []
        if (("arg", 3),) not in fa.get("bytes", []):
            problems.append("bytes += printed missing (adds: %s)" % fa.get("bytes"))
        if (("arg", 4),) not in fa.get("flushed", []):
            problems.append("flushed += flushed missing (adds: %s)" % fa.get("flushed"))
        if not fa.get("lines"):
            problems.append("lines is never increased")
        elif kind != "fixedstruct" and all(x == ("const", 1) for x in fa.get("lines")):
            # text, event-log and journal messages can span many lines (continuation lines, XML, the verbose and
            # export renderings): the line count has to come from the printed data, not be a constant
            problems.append("lines grows by the constant 1 per message although a %s message can be several lines" % kind)
        if ("const", 1) not in fa.get(counter, []):
            problems.append("%s += 1 missing" % counter)
        others = [k for k in KINDS.values() if k != counter and fa.get(k)]
        if others:
            problems.append("also increases %s" % others)
        if len(dtc) != 1:
            problems.append("first/last datetime updater called %d times" % len(dtc))
        else:
            src = b.origins(dtc[0].args[1], through_calls=("::deref",))
            if not all(x[0] == "call" and x[2].endswith("::dt") for x in src):
                problems.append("datetime updater is not given the message's dt()")
        rep.examined(R191, b.path, sample={"updater": b.path.split("::")[-1], "field_adds": {k: [str(x) for x in v] for k, v in fa.items()}, "problems": problems})
        if problems:
            rep.violation(R191, b.path, "%s: %s" % (b.path.split("::")[-1], "; ".join(problems)))

    # ------------------------------------------------------------ R19.2 / R19.3
    b = prog.body(PL)
    prints = {c.d.split("::")[-1].replace("print_", ""): c for c in b.live_calls() if c.d.startswith(c13.PR + "print_")}
    if set(prints) != set(KINDS):
        raise CheckerError("processing_loop: print calls %s" % sorted(prints))
    hdrs = set(h for _, h in b.back_edges())
    regions = {n: b.reachable_after(x.bb, hdrs) for n, x in prints.items()}
    for kind, pc in sorted(prints.items()):
        region = set(regions[kind])
        for n2, r2 in regions.items():
            if n2 != kind:
                region -= r2
        ups = [c for c in b.live_calls() if c.bb in region and (c.d == SP + "summaryprint_update_" + kind or c.d == SP + "summaryprint_map_update_" + kind)]
        inst = "%s|%s" % (PL, kind)
        if len(ups) != 2:
            rep.violation(R192, inst + "|updaters", "processing_loop: after print_%s the per-file and the total updater are not both called once (found %s)" % (kind, [c.d.split("::")[-1] for c in ups]))
            continue
        for u in ups:
            pa, fa_ = u.args[-2], u.args[-1]
            for nm, a, fld in (("printed", pa, "0"), ("flushed", fa_, "1")):
                o = b.origins(a)
                ok = True
                desc = []
                for x in o:
                    if x[0] == "call" and x[1] == pc.bb and x[3][:1] == ("as Ok",) and fld in x[3]:
                        desc.append("print-result.%s" % fld)
                    elif x[0] == "const" and x[1] in ("0",):
                        desc.append("init 0")
                    else:
                        ok = False
                        desc.append("%s@%s" % (x[0], x[1] if len(x) > 1 else ""))
                rep.examined(R192, "%s|%s|%s" % (inst, u.d.split("::")[-1], nm), sample={"arm": kind, "updater": u.d.split("::")[-1], "arg": nm, "derives_from": sorted(set(desc))})
                if not ok or not any(d.startswith("print-result") for d in desc):
                    rep.violation(R192, "%s|%s|%s" % (inst, u.d.split("::")[-1], nm), "processing_loop: %s passed to %s after print_%s is not exactly the print call's returned %s (derives from %s); bytes that belong to no file (separators) or to another write would be credited to this file" % (
                        nm, u.d.split("::")[-1], kind, nm, sorted(set(desc))))
    # R19.3: every write_stdout(x) is followed under cli_opt_summary by summaryprinted.bytes += len(x)
    ws = [c for c in b.live_calls() if c.d.endswith("printers::write_stdout")]
    if len(ws) < 5:
        raise CheckerError("processing_loop: %d write_stdout calls" % len(ws))
    total_local = [i for i, l in enumerate(b.locals) if l["ty"] == "s4lib::printer::summary::SummaryPrinted" and l.get("name")]
    if len(total_local) != 1:
        raise CheckerError("processing_loop: total SummaryPrinted local not identified")
    tl = total_local[0]
    for i, w in enumerate(ws):
        xroot = set((x[0], x[1]) for x in b.origins(w.args[0], through_calls=c13.TH))
        # Add to total.bytes dominated by w.target, with len() of same root, guarded by a bool flag
        found = None
        for bb in sorted(b.live):
            if not b.dominates(w.target, bb):
                continue
            for s in b.stmts(bb):
                if s[0] == "=" and s[1][0] == tl and len(s[1]) == 2 and s[1][1][2] == "bytes" and s[2][0] == "bin" and s[2][1].startswith("Add"):
                    o = b.origins(s[2][3])
                    lens = [x for x in o if x[0] == "call" and x[2].endswith("::len")]
                    if lens:
                        lc = [z for z in b.calls if z.bb == lens[0][1]][0]
                        lroot = set((x[0], x[1]) for x in b.origins(lc.args[0], through_calls=c13.TH))
                        # must not be separated by another write
                        between_ok = not any(o2.bb in b.reachable_after(w.bb, {bb}) and bb in b.reachable_after(o2.bb) and o2 is not w for o2 in ws)
                        if found is None:
                            found = (bb, lroot == xroot, between_ok)
        inst = "%s|write_stdout#%d" % (PL, i)
        rep.examined(R193, inst, sample={"line": w.line, "written": sorted(map(str, xroot)), "total_bytes_add_found": bool(found), "same_bytes": found[1] if found else None})
        if not found:
            rep.violation(R193, "%s|write@%s" % (PL, sorted(map(str, xroot))), "processing_loop: bytes written by write_stdout (line %d) are never added to the total printed bytes" % w.line)
        elif not found[1]:
            rep.violation(R193, "%s|write@%s" % (PL, sorted(map(str, xroot))), "processing_loop: after write_stdout (line %d) the total is increased by the length of different bytes than were written" % w.line)
    # and total.bytes has no other additions than those and the updaters
    adds_total = 0
    for bb in sorted(b.live):
        for s in b.stmts(bb):
            if s[0] == "=" and s[1][0] == tl and len(s[1]) == 2 and isinstance(s[1][1], list) and s[1][1][2] == "bytes":
                adds_total += 1
    rep.examined(R193, PL + "|total-add-sites", sample={"direct_adds_to_total_bytes": adds_total, "write_stdout_sites": len(ws)})
    if adds_total != len(ws):
        rep.violation(R193, PL + "|total-add-sites", "processing_loop: %d direct additions to the total printed bytes for %d direct writes" % (adds_total, len(ws)))

    # ------------------------------------------------------------ R19.10 lines written outside the printers are counted too
    # The message separator comes from the command line and may contain newlines (`--separator '\n'`).
    # Wherever its bytes are added to the total, the lines it adds to stdout have to be added to the
    # total line count, or "Printed lines" is short by one per message.
    R1910 = rep.rule("R19.10", "a direct write of non-constant bytes (the separator) is counted in the total lines as well as in the total bytes")
    n1910 = 0
    for i, w in enumerate(ws):
        os_ = b.origins(w.args[0], through_calls=c13.TH)
        if os_ and all(x[0] == "const" for x in os_):
            continue
        n1910 += 1
        line_add = None
        for bb in sorted(b.live):
            if not b.dominates(w.target, bb):
                continue
            for s in b.stmts(bb):
                if s[0] == "=" and s[1][0] == tl and len(s[1]) == 2 and s[1][1][2] == "lines" and s[2][0] == "bin" and s[2][1].startswith("Add"):
                    line_add = bb
        rep.examined(R1910, "%s|write_stdout#%d" % (PL, i), sample={"line": w.line, "written": sorted(str(x[:2]) for x in os_)[:3], "total_lines_add_found": line_add is not None})
        if line_add is None:
            rep.violation(R1910, "%s|write@%s|lines" % (PL, sorted(str((x[0], x[1])) for x in os_)), "processing_loop: the bytes written by write_stdout (line %d) come from the command line (--separator) and may contain newlines, "
                          "but nothing is added to the total printed lines: `--separator '\\n'` writes twice as many lines as 'Printed lines' reports" % w.line)
    if n1910 == 0:
        raise CheckerError("R19.10: no direct write of non-constant bytes found (the separator writes)")

    # ------------------------------------------------------------ R19.7 sibling agreement of the four message arms
    R197 = rep.rule("R19.7", "the four message arms of the coordinator perform the same bookkeeping steps")
    shapes = {}
    for kind, pc in sorted(prints.items()):
        region = set(regions[kind])
        for n2, r2 in regions.items():
            if n2 != kind:
                region -= r2
        names_ = []
        for c in b.live_calls():
            if c.bb not in region:
                continue
            d = c.d
            n = d.split("::")[-1]
            if d.startswith(SP) or d.endswith("printers::write_stdout") or (n in ("insert", "push", "remove") and ("HashSet" in d or "Vec::<" in d or "BTreeMap" in d)) or d.endswith("::is_ok") or d.endswith("::is_err"):
                norm = n.replace(kind, "KIND")
                recv = ""
                if n in ("insert", "push", "remove"):
                    st_ = c.callee.get("self") or ""
                    recv = "@" + st_.split("<")[0].split("::")[-1] + "<" + (st_.split("<", 1)[1][:12] if "<" in st_ else "")
                names_.append(norm + recv)
        shapes[kind] = sorted(names_)
        rep.examined(R197, "%s|%s" % (PL, kind), sample={"arm": kind, "steps": shapes[kind]})
    base = None
    for kind in ("evtx", "fixedstruct", "journalentry"):
        if base is None:
            base = shapes[kind]
        elif shapes[kind] != base:
            diff = sorted(set(shapes[kind]) ^ set(base)) or "different multiplicities"
            rep.violation(R197, "%s|arms|%s" % (PL, kind), "processing_loop: the %s arm performs different bookkeeping steps than the evtx arm (%s); what is counted or remembered would depend on the kind of message" % (kind, diff))
    # the text arm does everything the others do (plus the supplied newline)
    from collections import Counter
    miss = Counter(base) - Counter(shapes["sysline"])
    if miss:
        rep.violation(R197, "%s|arms|sysline" % PL, "processing_loop: the text arm lacks bookkeeping steps the other arms perform: %s" % sorted(miss))

    # ------------------------------------------------------------ R19.4
    roots = ["s4lib::printer::summary::print_summary"]
    reach = prog.reachable_fns(roots)
    offenders = []
    for p in sorted(reach):
        bd = prog.body(p, required=False)
        if bd is None:
            continue
        for c in bd.live_calls():
            selfty = c.callee.get("self") or ""
            writes_stdout = (c.o.startswith("std::io::Write::") and c.o.split("::")[-1] in ("write", "write_all", "write_fmt", "write_vectored")
                             and ("Stdout" in selfty))
            if c.d in STDOUT_SINKS and c.d != "std::io::stdout" or writes_stdout or (c.d.endswith("::stdout") and "termcolor" in c.d) \
                    or c.d.endswith("printers::print_colored_stdout"):
                offenders.append((p, c.d, c.line))
    rep.examined(R194, "print_summary|reach", sample={"functions_reachable_from_print_summary": len(reach), "stdout_sinks": offenders[:3]})
    if len(reach) < 20:
        raise CheckerError("print_summary reaches only %d functions" % len(reach))
    if offenders:
        rep.violation(R194, "print_summary|%s" % offenders[0][0], "%s (reachable from print_summary) writes to standard output via %s (line %d); --summary must leave stdout unchanged" % offenders[0])
    # summary bookkeeping must not be on a path that skips a print: the updaters are dominated by their print call
    for kind, pc in sorted(prints.items()):
        ups = [c for c in b.live_calls() if c.d == SP + "summaryprint_update_" + kind]
        for u in ups:
            if not b.dominates(pc.bb, u.bb):
                rep.violation(R194, "%s|%s|update-without-print" % (PL, kind), "processing_loop: the total is updated for a %s that was not printed" % kind)

    # ------------------------------------------------------------ R19.5
    ps = [c for c in b.live_calls() if c.d == roots[0]]
    if not ps:
        raise CheckerError("processing_loop: print_summary not called")
    psb = prog.body(roots[0])
    names = [psb.local_name(i) for i in range(1, psb.argc + 1)]
    idx_a = [i for i, n in enumerate(names) if n and "after" in n]
    idx_b = [i for i, n in enumerate(names) if n and "before" in n]
    if len(idx_a) != 1 or len(idx_b) != 1:
        raise CheckerError("print_summary: filter parameters not identified")
    # thread data tuple fields 5,6
    td = None
    for bb in sorted(b.live):
        for s in b.stmts(bb):
            if s[0] == "=" and s[2][0] == "agg" and s[2][1] == "tuple" and len(s[2][2]) == 8:
                td = s[2][2]
    if td is None:
        raise CheckerError("processing_loop: thread data tuple not found")
    wa = set((x[0], x[1]) for x in b.origins(td[5]))
    wb = set((x[0], x[1]) for x in b.origins(td[6]))
    for c in ps:
        sa = set((x[0], x[1]) for x in b.origins(c.args[idx_a[0]]))
        sb_ = set((x[0], x[1]) for x in b.origins(c.args[idx_b[0]]))
        rep.examined(R195, "%s|print_summary@%d" % (PL, c.line), sample={"summary_after": sorted(map(str, sa)), "workers_after": sorted(map(str, wa)), "summary_before": sorted(map(str, sb_)), "workers_before": sorted(map(str, wb))})
        if sa != wa or sb_ != wb:
            rep.violation(R195, "%s|print_summary-bounds" % PL, "processing_loop: the filter bounds handed to print_summary are not the ones handed to the workers")

    # ------------------------------------------------------------ R19.6
    n = 0
    for p in sorted(prog.facts.bodies):
        if not (p.startswith(c13.PR + "print_") or p.endswith("printers::write_stdout")) or "{closure" in p:
            continue
        pbody = prog.body(p)
        # printed variable: component 0 of the tuple in the Ok result
        # (`_printed` is the throw-away counter of the error-in-progress flush, whose function returns Err)
        pv = set(i for i, l in enumerate(pbody.locals) if (l.get("name") or "").lstrip("_") == "printed")
        # by role: first component of the tuple returned in PrinterLogMessageResult::Ok
        for bb_ in sorted(pbody.live):
            for st in pbody.stmts(bb_):
                if st[0] == "=" and st[1] == [0] and st[2][0] == "agg" and isinstance(st[2][1], dict) and st[2][1].get("variant") == "Ok":
                    for o in pbody.origins(st[2][2][0]):
                        if o[0] == "agg":
                            t2 = pbody.stmts(o[1])[o[2]]
                            if t2[2][1] == "tuple" and t2[2][2]:
                                v_ = var_of(pbody, t2[2][2][0])
                                if v_ is not None:
                                    pv.add(v_)
        for c in pbody.live_calls():
            if not c.o.endswith("io::Write::write_all") or c.target is None:
                continue
            selfty = c.callee.get("self") or ""
            if not ("Stdout" in selfty or "StandardStream" in selfty):
                continue
            n += 1
            xr = c13.classify(pbody, c.args[1])
            t = pbody.term(c.target)
            ok_t = None
            if t[0] == "switch":
                ok_t = {int(v): tb for v, tb in t[2]}.get(0)
            if ok_t is None:
                rep.examined(R196, "%s|write_all@%s" % (p, sorted(xr)), nontrivial=False)
                continue
            adds = []
            for bb in sorted(pbody.live):
                if not pbody.dominates(ok_t, bb):
                    continue
                for s in pbody.stmts(bb):
                    if s[0] == "=" and len(s[1]) == 1 and s[1][0] in pv and s[2][0] == "bin" and s[2][1].startswith("Add"):
                        o = pbody.origins(s[2][3])
                        roots_ = set()
                        for x in o:
                            if x[0] == "call" and x[2].endswith("::len"):
                                lc = [z for z in pbody.calls if z.bb == x[1]][0]
                                roots_ |= c13.classify(pbody, lc.args[0])
                            else:
                                roots_.add("?" + x[0])
                        adds.append(roots_)
            inst = "%s|write_all@%s" % (p, ",".join(sorted(xr)))
            rep.examined(R196, inst, sample={"fn": p.split("::")[-1], "written": sorted(xr), "printed_adds": [sorted(a) for a in adds][:3]})
            if not pv:
                continue
            if not adds:
                rep.violation(R196, inst, "%s: bytes written to stdout (%s) are never added to the printed count" % (p.split("::")[-1], sorted(xr)))
            elif not all(a == xr for a in adds[:1]):
                rep.violation(R196, inst, "%s: after writing %s to stdout the printed count grows by the length of %s" % (p.split("::")[-1], sorted(xr), sorted(adds[0])))
    rep.floor(R196, 20)

    # ------------------------------------------------------------ R19.9 every byte that reaches stdout is counted - also the colour escapes
    # In the colour variants the printers call termcolor's set_color()/reset() on the stdout stream;
    # those calls write escape sequences to stdout whose length nothing adds to `printed`.  With
    # --color=always "Printed bytes" is therefore smaller than what stdout received.
    R199 = rep.rule("R19.9", "escape sequences written by set_color/reset on stdout are part of the printed byte count")
    esc_fns = {}
    for pb in prog.bodies():
        if "printer::printers::PrinterLogMessage::print_" not in pb.path or "{closure" in pb.path:
            continue
        k_ = [c for c in pb.live_calls() if (c.o.endswith("WriteColor::set_color") or c.o.endswith("WriteColor::reset")) and "StandardStream" in (c.callee.get("self") or "")]
        if k_:
            esc_fns[pb.path.split("::")[-1]] = len(k_)
    rep.examined(R199, "PrinterLogMessage|colour-escapes", sample={"colour_printers": len(esc_fns), "set_color_or_reset_calls_on_stdout": sum(esc_fns.values())})
    if esc_fns:
        rep.violation(R199, "PrinterLogMessage|colour-escape-bytes-unaccounted", "the %d colour printers write escape sequences to stdout through set_color()/reset() (%d call sites) and none of those bytes is added to the printed count; "
                      "`s4 --color=always --summary a.log`: 110 bytes on stdout, 'Printed bytes: 28'" % (len(esc_fns), sum(esc_fns.values())))

    # ------------------------------------------------------------ R19.8
    R198 = rep.rule("R19.8", "first/last printed datetime are the running minimum/maximum on every path")
    import accum
    ub = prog.body(SP + "summaryprint_update_dt")
    for field, direction in (("dt_first", "min"), ("dt_last", "max")):
        n_in, n_paths, problems = accum.check(ub, field, direction)
        inst = "%s|%s" % (ub.path, field)
        rep.examined(R198, inst, sample={"field": field, "keeps": direction, "abstract_inputs": n_in, "paths": n_paths})
        for kind, what, touched, endbb in problems[:1]:
            if kind == "missing":
                rep.violation(R198, inst, "summaryprint_update_dt: when %s there is a path to return that %s and leaves %s unchanged; the reported %s printed datetime is then wrong (e.g. blank after a single message)" % (
                    what, "tests it" if touched else "never looks at it", field, "first" if direction == "min" else "last"))
            else:
                rep.violation(R198, inst, "summaryprint_update_dt: when %s the field is overwritten although the value is not %s" % (what, "earlier" if direction == "min" else "later"))
    rep.floor("R19.8", 2)

    # ------------------------------------------------------------ R19.11 per-file first/last of an event log are running extrema
    # Event-log records are read in stored order and printed in time order, so the per-file
    # "first/last" datetimes must be kept as running minimum/maximum: each overwrite of a ts_* field
    # is controlled either by "the field is still None" or by a comparison of the field with the new
    # value in the right direction.  "The first sets first, every record overwrites last" is only right
    # for sources that are read in time order.
    R1911 = rep.rule("R19.11", "EvtxReader keeps ts_first_*/ts_last_* as running minimum/maximum (every overwrite is controlled by None or by the right comparison)")
    import accum as _acc
    ab_ = prog.body("s4lib::readers::evtxreader::EvtxReader::analyze")
    n1911 = 0
    for fld, want in (("ts_first_processed", "min"), ("ts_last_processed", "max"), ("ts_first_accepted", "min"), ("ts_last_accepted", "max")):
        ws_ = _acc._field_writes(ab_, sorted(ab_.live), fld)
        if not ws_:
            raise CheckerError("EvtxReader::analyze: no write to %s" % fld)
        # blocks that test the field: None/Some tests and comparisons with its payload
        tests_f = {}
        for sbb in sorted(ab_.live):
            t = ab_.term(sbb)
            if t[0] != "switch":
                continue
            for o_ in ab_.origins(t[1], through_calls=("ops::Not>::not",)):
                if o_[0] == "discr":
                    st_ = ab_.stmts(o_[1])[o_[2]]
                    roots = ab_.origins(["cp", st_[2][1]], through_calls=("::as_ref", "::as_mut", "::deref", "Clone>::clone"))
                    if any(r_[0] == "arg" and r_[1] == 1 and fld in str(r_[2]) for r_ in roots):
                        tests_f[sbb] = ("shape", None)
                elif o_[0] == "call":
                    nm_ = o_[2].split("::")[-1]
                    cc_ = [z for z in ab_.calls if z.bb == o_[1]][0]
                    ar_ = [ab_.origins(a_, through_calls=("::as_ref", "::deref", "Clone>::clone", "::unwrap", "::as_mut")) for a_ in cc_.args if a_[0] != "k"]
                    fa_ = [any(r_[0] == "arg" and r_[1] == 1 and fld in str(r_[2]) for r_ in x_) for x_ in ar_]
                    if nm_ in ("is_none", "is_some") and any(fa_):
                        tests_f[sbb] = ("shape", None)
                    elif nm_ in ("gt", "lt", "ge", "le", "partial_cmp", "cmp", "max", "min") and any(fa_):
                        tests_f[sbb] = ("cmp", (nm_, fa_))
        for wbb, _rv in ws_:
            n1911 += 1
            controlled = wbb not in ab_.reachable(0, set(tests_f) - {wbb}) or wbb in tests_f
            # direction, where a comparison directly selects the overwrite
            wrong = False
            for sbb, (kind_, info_) in tests_f.items():
                if kind_ != "cmp" or info_[0] not in ("gt", "lt", "ge", "le") or len(info_[1]) != 2 or info_[1][0] == info_[1][1]:
                    continue
                t = ab_.term(sbb)
                tgts = [(int(v_), tb_) for v_, tb_ in t[2]] + [(None, t[3])]
                for v_, tb_ in tgts:
                    if ab_.pred[tb_] == [sbb] and ab_.dominates(tb_, wbb):
                        true_arm = (v_ != 0)
                        rel = info_[0] if info_[1][0] else {"gt": "lt", "lt": "gt", "ge": "le", "le": "ge"}[info_[0]]
                        if not true_arm:
                            rel = {"gt": "le", "lt": "ge", "ge": "lt", "le": "gt"}[rel]
                        good = ("gt", "ge") if want == "min" else ("lt", "le")
                        if rel not in good:
                            wrong = True
            verdict = "compared-wrong-direction" if wrong else ("controlled" if controlled else "uncontrolled")
            rep.examined(R1911, "%s|%s|bb%d" % (ab_.path, fld, wbb), sample={"field": fld, "keeps": want, "tests_of_the_field": len(tests_f), "overwrite": verdict})
            if verdict != "controlled":
                rep.violation(R1911, "%s|%s|%s" % (ab_.path, fld, verdict), "EvtxReader::analyze overwrites %s %s; records are stored out of time order, so the per-file %s datetime of the summary is then not the %s printed one "
                              "(it can even be later than the last)" % (fld, "on paths that never test it (e.g. on every record)" if verdict == "uncontrolled" else "under a comparison in the wrong direction",
                                                                      "first" if want == "min" else "last", "earliest" if want == "min" else "latest"))
    if n1911 < 4:
        raise CheckerError("R19.11: only %d overwrites of ts_* fields found in EvtxReader::analyze (expected at least one per field)" % n1911)

    # ------------------------------------------------------------ R19.12 what the summary counts for a message is what the printers write for it (lifts)
    # The line and message counts are taken from the message's data, so the printers have to write all
    # of it: no piece of a multi-line message goes unwritten (C13 R13.13/R13.15) and the rendering of an
    # accounting record is not cut short by its buffer (C08 R8.13) - otherwise "Printed lines" and the
    # per-file blocks no longer describe what reached stdout.
    import contextlib as _c19, io as _i19
    from common import Report as _R19
    R1912 = rep.rule("R19.12", "the printers write everything the summary counts (from C13 R13.13/R13.15, C08 R8.13)")
    n1912 = 0
    for modname, pid_, rids in (("c13", "C13", ("R13.13", "R13.15")), ("c08", "C08", ("R8.13",))):
        mod_ = __import__(modname)
        sub_ = _R19(pid_, "quick", dict(rep.meta))
        sub_.finish = lambda *a, **k: 0
        try:
            with _c19.redirect_stdout(_i19.StringIO()):
                mod_.run(prog, sub_, "quick")
        except CheckerError:
            pass
        for (rid_, key_, what_, det_) in sub_.violations:
            if rid_ in rids:
                rep.violation(R1912, key_.split("|", 1)[1] + "|" + rid_, what_)
        for rid_ in rids:
            for k_ in sorted(sub_.rules.get(rid_, {}).get("keys", ())):
                n1912 += 1
                rep.examined(R1912, "%s|%s" % (rid_, k_), sample={"rule": rid_, "instance": k_})
    if n1912 < 6:
        raise CheckerError("R19.12: only %d lifted instances" % n1912)

    # ------------------------------------------------------------ R19.13 every counter is printed under its own label
    # The summary's text says which counter a number is ("lines", "syslines", "Printed bytes").  Where a
    # label is literally the name of a counter field of SummaryPrinted, the statements that follow it (up
    # to the next labelled print) read that field and no other counter.  Format templates are decoded
    # from the const-evaluated byte strings of format_args! (fmtlabel.py).
    import fmtlabel
    R1913 = rep.rule("R19.13", "a summary label that names a counter is followed by the value of that counter")
    n1913 = 0
    for p_ in ("s4lib::printer::summary::SummaryPrinted::print_colored_stderr", "s4lib::printer::summary::print_summary"):
        for r_ in fmtlabel.check(prog, p_, "s4lib::printer::summary::SummaryPrinted"):
            n1913 += 1
            rep.examined(R1913, "%s|%s#%d" % (p_, r_["label"], n1913), sample=r_)
            if not r_["ok"]:
                rep.violation(R1913, "%s|label-%s|shows-%s" % (p_, r_["label"], "+".join(r_["counters_read_next"]) or "nothing"), "%s (line %s): the label '%s' is followed by the value of %s; the summary then reports one counter under the name of another "
                              "(per-file 'syslines' showing the line count differs from the messages actually printed as soon as a message has continuation lines)" % (p_.split("::")[-1], r_["line"], r_["template"], r_["counters_read_next"] or "no counter"))
    if n1913 < 5:
        raise CheckerError("R19.13: only %d counter labels decoded from the summary printers (format template encoding changed?)" % n1913)

    return rep.finish(
        "Static necessary-condition check of the summary bookkeeping: the four per-kind updaters write bytes/flushed/lines/own counter/datetimes "
        "alike; in every message arm the per-file and total updaters receive exactly the print call's returned (printed, flushed); every direct "
        "write to stdout in the coordinator is matched by an addition of the same bytes' length to the total only; nothing reachable from "
        "print_summary touches stdout; the summary shows the bounds the workers got; inside the printers every stdout write_all is followed by "
        "printed += len of the same bytes.",
        ["formatting of the summary text", "per-reader statistics", "that lines counted equal newline bytes written for every rendering"])
