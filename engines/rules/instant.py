"""Instant-preservation discipline for chrono conversions (shared by several properties).

A `DateTime<Tz>` denotes an instant plus a zone.  chrono offers two views of it:
  * the instant      -- naive_utc(), timestamp*(), with_timezone(), fixed_offset(), to_utc()
  * the wall clock   -- naive_local(), date_naive(), time(), year()/month()/.../hour()/...
and two families of constructors:
  * reading a naive value as UTC    -- from_naive_utc_and_offset, from_utc_datetime, from_utc,
                                        NaiveDateTime::and_utc, from_timestamp*, and every
                                        TimeZone constructor whose receiver type is chrono::Utc
  * reading it as local wall clock  -- from_local_datetime, and_local_timezone, with_ymd_and_hms...
Feeding a wall-clock view of a zoned datetime to a UTC-reading constructor (or the UTC view to
a local-reading constructor of a zone that is not chrono::Utc) moves the instant by the
zone's offset.  The rule reports every such flow inside one function; every other conversion
site is recorded as examined."""

WALL = ("::naive_local", "::date_naive", "DateTime::<Tz>::time", "Datelike>::year", "Datelike>::month", "Datelike>::day", "Datelike>::ordinal",
        "Datelike>::month0", "Datelike>::day0", "Timelike>::hour", "Timelike>::minute", "Timelike>::second", "Timelike>::nanosecond",
        "Datelike::year", "Datelike::month", "Datelike::day", "Timelike::hour", "Timelike::minute", "Timelike::second", "Timelike::nanosecond")
INSTANT = ("::naive_utc", "DateTime::<Tz>::timestamp", "::with_timezone", "::fixed_offset", "::to_utc")
UTC_CTOR = ("::from_naive_utc_and_offset", "::from_utc_datetime", "DateTime::<Tz>::from_utc", "NaiveDateTime::and_utc", "::from_timestamp", "::from_timestamp_millis",
            "::from_timestamp_micros", "::from_timestamp_nanos", "::timestamp_opt", "::timestamp_millis_opt", "::timestamp_nanos", "::timestamp_micros")
LOCAL_CTOR = ("::from_local_datetime", "::and_local_timezone", "::with_ymd_and_hms", "::ymd_opt", "::ymd", "::from_local_date", "::and_hms_opt")
THROUGH = ("::deref", "Clone>::clone", "::clone", "::as_ref", "::borrow", "::unwrap", "::expect", "::single", "::earliest", "::latest", "::and_hms_opt", "::and_time",
           "::and_hms_milli_opt", "::and_hms_micro_opt", "::and_hms_nano_opt", "NaiveDate::from_ymd_opt", "NaiveDateTime::date", "NaiveDateTime::time")


def _name(c):
    return c.d or c.o or ""


def _kind(c):
    n = _name(c)
    if "chrono" not in n and "chrono" not in (c.callee.get("trait") or "") and "chrono" not in (c.callee.get("self") or ""):
        return None
    # DateTime::timestamp* accessors are INSTANT views, TimeZone::timestamp_opt & co are constructors
    if any(n.endswith(x) or (x + "::") in n for x in WALL):
        return "wall"
    if "TimeZone" in n or "TimeZone" in (c.callee.get("trait") or ""):
        for x in UTC_CTOR:
            if n.endswith(x):
                return "utc_ctor"
        for x in LOCAL_CTOR:
            if n.endswith(x):
                return "utc_ctor" if (c.callee.get("self") or "") == "chrono::Utc" else "local_ctor"
    for x in ("::from_naive_utc_and_offset", "DateTime::<Tz>::from_utc", "NaiveDateTime::and_utc", "::from_timestamp", "::from_timestamp_millis", "::from_timestamp_micros", "::from_timestamp_nanos"):
        if n.endswith(x):
            return "utc_ctor"
    for x in ("::and_local_timezone",):
        if n.endswith(x):
            return "local_ctor"
    if any(n.endswith(x) or x + "_" in n for x in INSTANT):
        return "instant"
    return None


def _wall_self_is_zoned(body, c):
    """the wall-clock view is zone dependent unless the receiver is a DateTime<Utc> or a naive value"""
    st = c.callee.get("self") or ""
    if c.args:
        l = c.args[0]
        from mir import op_local
        li = op_local(l)
        if li is not None:
            st = st + " " + str(body.local_ty(li))
    if "DateTime<chrono::Utc>" in st:
        return False
    if "NaiveDateTime" in st or "NaiveDate" in st or "NaiveTime" in st:
        return "DateTime<" in st
    return True


def sites(prog, scope):
    """[(body, call, kind, sources)] for chrono conversion sites in bodies selected by scope(path)"""
    out = []
    for b in prog.bodies():
        if not scope(b.path):
            continue
        calls = {c.bb: c for c in b.live_calls()}
        for c in calls.values():
            k = _kind(c)
            if k is None:
                continue
            srcs = set()
            if k in ("utc_ctor", "local_ctor"):
                for a in c.args:
                    if a[0] == "k":
                        continue
                    for o in b.origins(a, through_calls=THROUGH):
                        if o[0] == "call" and o[1] in calls:
                            k2 = _kind(calls[o[1]])
                            if k2 == "wall" and _wall_self_is_zoned(b, calls[o[1]]):
                                srcs.add(("wall", _name(calls[o[1]]).split("::")[-1]))
                            elif k2 == "instant" and _name(calls[o[1]]).endswith("::naive_utc"):
                                srcs.add(("utc_view", "naive_utc"))
            out.append((b, c, k, srcs))
    return out


def check(prog, rep, rule, scope, what):
    """Returns the number of sites examined"""
    n = 0
    for b, c, k, srcs in sites(prog, scope):
        n += 1
        nm = _name(c).split("::")[-1]
        inst = "%s|%s" % (b.path, nm)
        rep.examined(rule, inst, sample={"site": b.path, "call": _name(c), "receiver": c.callee.get("self"), "class": k, "sources": sorted(srcs)})
        if k == "utc_ctor" and any(s[0] == "wall" for s in srcs):
            w = sorted(s[1] for s in srcs if s[0] == "wall")
            rep.violation(rule, inst + "|wall-as-utc", "%s: the wall-clock view %s() of a zoned datetime is read back as UTC by %s(); the instant moves by the zone's offset, so %s" % (
                b.path, w[0], nm, what))
        if k == "local_ctor" and any(s[0] == "utc_view" for s in srcs):
            rep.violation(rule, inst + "|utc-as-wall", "%s: naive_utc() is read back as local wall clock by %s(); the instant moves by the zone's offset, so %s" % (b.path, nm, what))
    return n
