"""Labels printed by the summary name the counter they show.

`eprint!("{}syslines      : ", indent)` followed by the value of `self.lines` is a stated belief
contradicted by the code: the text says which counter the reader is looking at.  Format templates are
const-evaluated byte strings in today's `format_args!` lowering (length-prefixed literal pieces,
two-byte placeholder markers); they are decoded and the *last word before the colon* is compared with
the name of the struct field whose value is printed next.
Only labels that are literally a field name of the counter struct are judged."""
import json
import re

from mir import op_place


def decode_template(v):
    if isinstance(v, str):
        try:
            j = json.loads(v) if v.startswith("{") else None
        except Exception:
            j = None
        if j is None:
            return v.strip("'").encode().decode("unicode_escape") if v.startswith("'") else v
        v = j
    if isinstance(v, dict) and "bytes" in v:
        bs = v["bytes"]
        out = []
        i = 0
        while i < len(bs):
            n = bs[i]
            if n == 0:
                break
            if n >= 128:
                # placeholder marker (one byte in the encodings seen: 0xC0 = next argument, default format)
                out.append("{}")
                i += 1
                continue
            out.append(bytes(bs[i + 1:i + 1 + n]).decode("utf8", "replace"))
            i += 1 + n
        return "".join(out)
    return None


def _fields_read(body, blocks, names):
    got = set()
    for bb in blocks:
        for s in body.stmts(bb):
            if s[0] != "=":
                continue
            txt = json.dumps(s[2])
            for m in re.finditer(r'\[".", \d+, "(\w+)"\]', txt):
                if m.group(1) in names:
                    got.add(m.group(1))
    return got


def labelled(body, names):
    """[(call, label_word, has_placeholder)] for every fmt::Arguments construction whose template ends a label `word :`"""
    res = []
    for c in body.live_calls():
        if "fmt::Arguments" not in c.d or not c.args:
            continue
        tpl = None
        for o in body.origins(c.args[0]):
            if o[0] == "const":
                tpl = decode_template(o[1])
        if c.args[0][0] == "k":
            tpl = c.args[0][2] if isinstance(c.args[0][2], str) else decode_template(c.args[0][2])
        if not tpl:
            continue
        m = re.search(r"(\w+)\s*:\s*(\{\})?\s*\n?$", tpl)
        if not m:
            continue
        res.append((c, m.group(1), bool(m.group(2)), tpl))
    return res


def check(prog, path, struct_path):
    """violations/instances for one printing function: each label that is a field name is followed by that field"""
    body = prog.body(path)
    # the counters: the integer fields of the struct (first/last datetimes and the like are not counters)
    names = set(f["name"] for f in prog.facts.adts[struct_path]["variants"][0]["fields"] if f["ty"] in ("u64", "usize", "u32"))
    labs = labelled(body, names)
    label_blocks = set(c.bb for c, _w, _p, _t in labs)
    out = []
    label_lines = sorted(set(c.line for c, _w, _p, _t in labs))
    for (c, word, ph, tpl) in labs:
        if word not in names:
            continue
        # the statements that belong to this label: from the label's own source line up to (not including)
        # the line of the next labelled print (arguments of a print are evaluated in blocks *before* its
        # fmt::Arguments call, so CFG position alone does not delimit them; relative line order does)
        later = [l for l in label_lines if l > c.line]
        hi = later[0] if later else 10 ** 9
        got = set()
        for bb in sorted(body.live):
            for s_ in body.stmts(bb):
                if s_[0] != "=" or len(s_) < 4 or not isinstance(s_[3], int) or not (c.line <= s_[3] < hi):
                    continue
                for m in re.finditer(r'\[".", \d+, "(\w+)"\]', json.dumps(s_[2])):
                    if m.group(1) in names:
                        got.add(m.group(1))
        out.append({"fn": path, "line": c.line, "label": word, "template": tpl.strip(), "counters_read_next": sorted(got),
                    # judged only when a counter is read in the label's region: a value that reaches the print through
                    # a local variable assigned earlier is not followed (undecided, not an alarm)
                    "ok": (not got) or (word in got and not (got - {word}))})
    return out
