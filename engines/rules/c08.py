"""C08 — accounting-record files: every record once, in time order.

Decides:
  R8.1 the ordering index cannot lose a record: its key contains a per-record unique component
       (the record's file offset, the same variable stored as the value) or the displaced value of
       insert is inspected.
  R8.2 walk order: the index is a BTreeMap walked in key order; fileoffset_first takes the minimum;
       process_entry_at removes the key it served and returns the successor in map order.
  R8.3 window and skip set of the prefilter loop (shared with C03 R3.2).
  R8.4 layout tables size()/offset_tv()/size_tv() agree with the layout of the struct each variant is
       cast to.
  R8.5 the printed record ends at its line end (nothing written after the final newline is counted).
Does not decide: field rendering, score-based layout detection on real files.
"""
import re
import json as _json8

import c03
import decide
from mir import CheckerError, op_local, op_const

FSR = "s4lib::readers::fixedstructreader::FixedStructReader"
FST = "s4lib::data::fixedstruct::FixedStructType"

PRIM_SIZES = {"i8": 1, "u8": 1, "i16": 2, "u16": 2, "i32": 4, "u32": 4, "i64": 8, "u64": 8, "isize": 8, "usize": 8, "f32": 4, "f64": 8}


def local_roots(body, op):
    """set of base locals an operand is copied from (through temporaries only)"""
    res = set()
    for o in body.origins(op):
        if o[0] == "local":
            res.add(o[1])
        elif o[0] == "arg":
            res.add(o[1])
        elif o[0] in ("bin", "call", "agg"):
            res.add(("expr", o[1]))
    return res


def var_of(body, op, depth=0):
    """the user variable (named local) an operand is a copy of, or None"""
    l = op_local(op)
    seen = set()
    while l is not None and l not in seen:
        seen.add(l)
        if body.local_name(l):
            return l
        ds = body.defs.get(l, [])
        if len(ds) != 1 or ds[0][1] == "call":
            return None
        rv = ds[0][2]
        if rv[0] == "use":
            l = op_local(rv[1])
        else:
            return None
    return None


def key_components(body, key_op):
    """if key operand is a tuple aggregate: list of component operands else None"""
    l = op_local(key_op)
    if l is None:
        return None
    ds = body.defs.get(l, [])
    if len(ds) != 1 or ds[0][1] == "call":
        return None
    rv = ds[0][2]
    if rv[0] == "agg" and rv[1] == "tuple":
        return rv[2]
    if rv[0] == "use":
        return key_components(body, rv[1])
    return None


def insert_result_inspected(body, call):
    """is the Option returned by insert looked at (not just dropped)?"""
    d = call.dest
    if len(d) != 1:
        return True
    l = d[0]
    for bb in body.live:
        for s in body.stmts(bb):
            if s[0] == "=" and _mentions(s[2], l):
                return True
        t = body.term(bb)
        if t[0] == "switch" and op_local(t[1]) == l:
            return True
        if t[0] == "call":
            for a in t[2]:
                if op_local(a) == l:
                    return True
    return False


def _mentions(rv, l):
    def opm(o):
        return isinstance(o, list) and o and o[0] in ("cp", "mv") and o[1][0] == l
    k = rv[0]
    if k in ("use",):
        return opm(rv[1])
    if k in ("discr",):
        return rv[1][0] == l
    if k in ("ref", "rawptr"):
        return rv[2][0] == l
    if k == "cast":
        return opm(rv[2])
    if k == "bin":
        return opm(rv[2]) or opm(rv[3])
    if k == "agg":
        return any(opm(o) for o in rv[2])
    return False


def arm_regions(body, swbb):
    """variant idx -> set(blocks) exclusive to that arm of the switch at swbb"""
    t = body.term(swbb)
    arms = {}
    for v, b in t[2]:
        arms.setdefault(b, []).append(int(v))
    reach = {b: body.reachable(b) for b in arms}
    res = {}
    for b, vs in arms.items():
        others = set()
        for b2, r in reach.items():
            if b2 != b:
                others |= r
        region = reach[b] - others
        for v in vs:
            res[v] = region
    return res


def find_variant_switch(body, on_local_pred):
    for bb in sorted(body.live):
        t = body.term(bb)
        if t[0] != "switch":
            continue
        l = op_local(t[1])
        for s in body.stmts(bb):
            if s[0] == "=" and s[1] == [l] and s[2][0] == "discr" and on_local_pred(s[2][1]):
                if len(t[2]) >= 4:
                    return bb
    return None


def const_table(body):
    """fn(&self) -> usize given as a match over the enum: variant idx -> int"""
    sw = find_variant_switch(body, lambda pl: pl[0] == 1)
    if sw is None:
        raise CheckerError("%s: no match over the enum variants" % body.path)
    t = body.term(sw)
    res = {}
    for v, b in t[2]:
        val = None
        cur = b
        for _ in range(4):
            for s in body.stmts(cur):
                if s[0] == "=" and s[1] == [0] and s[2][0] == "use" and s[2][1][0] == "k" and isinstance(s[2][1][2], int):
                    val = s[2][1][2]
            if val is not None:
                break
            tt = body.term(cur)
            if tt[0] == "goto":
                cur = tt[1]
            else:
                break
        if val is None:
            raise CheckerError("%s: arm for variant %s is not a constant" % (body.path, v))
        res[int(v)] = val
    return res


def cast_types_per_arm(body, on_arg):
    """variant idx -> set of generic type args T of `ptr.cast::<T>()` calls exclusive to that arm"""
    sw = find_variant_switch(body, lambda pl: pl[0] == on_arg)
    if sw is None:
        raise CheckerError("%s: no match over the layout enum" % body.path)
    regions = arm_regions(body, sw)
    res = {}
    for v, region in regions.items():
        ts = set()
        for c in body.calls:
            if c.bb in region and c.d.endswith("::cast") and "ptr" in c.d:
                ga = c.callee.get("ga") or []
                if ga:
                    ts.add(ga[-1])
        # `buf.as_ptr() as *const T`
        for bb in region:
            for st in body.stmts(bb):
                if st[0] == "=" and st[2][0] == "cast" and st[2][1].startswith("PtrToPtr") and st[2][3].startswith("*const "):
                    t = st[2][3][len("*const "):]
                    if t != "u8":
                        ts.add(t)
        res[v] = ts
    return res


def size_of(prog, ty):
    if ty in PRIM_SIZES:
        return PRIM_SIZES[ty]
    a = prog.facts.adts.get(ty)
    if a and "size" in a:
        return a["size"]
    m = re.match(r"^\[(\w+); (\d+)\]$", ty)
    if m and m.group(1) in PRIM_SIZES:
        return PRIM_SIZES[m.group(1)] * int(m.group(2))
    return None


def run(prog, rep, tier):
    facts = prog.facts
    R81 = rep.rule("R8.1", "ordering-index key injectivity at every insert")
    R82 = rep.rule("R8.2", "index walk order (minimum first, remove served key, successor in map order)")
    R83 = rep.rule("R8.3", "prefilter window and skip set")
    R84 = rep.rule("R8.4", "layout tables agree with the cast struct layouts")
    R85 = rep.rule("R8.5", "printed record ends at its line end")

    # ------------------------------------------------------------ R8.3 (and anchors)
    pb, ins, tvc, paths = c03.fixedstruct_window(prog, rep, R83)

    # ------------------------------------------------------------ R8.1
    key = "%s|insert#index" % pb.path
    self_ty = ins.callee.get("self") or ins.f
    comps = key_components(pb, ins.args[1])
    val_var = var_of(pb, ins.args[2])
    ok = False
    how = ""
    if comps:
        comp_vars = [var_of(pb, c) for c in comps]
        if val_var is not None and val_var in comp_vars:
            ok = True
            how = "key component %r is the record offset variable also stored as the value" % pb.local_name(val_var)
    if not ok and insert_result_inspected(pb, ins):
        ok = True
        how = "displaced value of insert is inspected"
    rep.examined(R81, key, sample={"site": pb.path, "index": self_ty, "key_components": [pb.local_name(var_of(pb, c)) if var_of(pb, c) else "?" for c in (comps or [])],
                                   "value": pb.local_name(val_var) if val_var else "?", "verdict": how or "key is data-derived only"})
    if not ok:
        rep.violation(R81, key, "%s: the ordering index is keyed by a data-derived value only (%s); two records with equal time values overwrite each other and one is never printed" % (
            pb.path, [pb.local_name(var_of(pb, c)) if comps and var_of(pb, c) else "?" for c in (comps or [ins.args[1]])]))
    # the offset variable must advance on every way round the loop (so it is unique per record)
    if val_var is not None:
        hdrs = set(h for (_, h) in pb.back_edges())
        adv_blocks = set()
        for bb in pb.live:
            for s in pb.stmts(bb):
                if s[0] == "=" and s[1] == [val_var] and s[2][0] == "bin" and s[2][1] in ("Add", "AddUnchecked", "AddWithOverflow"):
                    adv_blocks.add(bb)
        h = next(iter(hdrs))
        body_start = tvc.bb
        rep.examined(R81, "%s|offset-advance" % pb.path, sample={"variable": pb.local_name(val_var), "advance_blocks": sorted(adv_blocks)})
        if h in pb.reachable(tvc.target, adv_blocks):
            rep.violation(R81, "%s|offset-advance" % pb.path, "%s: the record offset %r does not advance on every path round the scan loop" % (pb.path, pb.local_name(val_var)))
    if "BTreeMap" not in (self_ty or ""):
        rep.violation(R81, key + "|type", "%s: the ordering index is not a BTreeMap (%s)" % (pb.path, self_ty))

    # ------------------------------------------------------------ R8.2
    adt = facts.adts.get(FSR)
    if not adt:
        raise CheckerError("anchor missing: %s" % FSR)
    idx_fields = [f for f in adt["variants"][0]["fields"] if f["ty"].startswith("std::collections::BTreeMap<") and "tv_pair_type" in f["ty"]]
    idx_fields_any = [f for f in adt["variants"][0]["fields"] if "tv_pair_type" in f["ty"] and ("Map<" in f["ty"])]
    rep.examined(R82, FSR + "|index-type", sample={"fields": idx_fields_any})
    if not idx_fields_any:
        raise CheckerError("FixedStructReader has no time-value index field")
    if not idx_fields:
        rep.violation(R82, FSR + "|index-type", "FixedStructReader's time-value index %s is not an ordered map (BTreeMap) keyed by the time value" % idx_fields_any)
    fname = idx_fields_any[0]["name"]

    def on_index(body, op):
        for o in body.origins(op, through_calls=("::iter", "::into_iter", "::iter_mut", "::deref")):
            if fname in o[-1]:
                return True
        return False

    ff = prog.body(FSR + "::fileoffset_first")
    sels = [c for c in ff.live_calls() if c.args and on_index(ff, c.args[0]) and "Iterator" in (c.callee.get("trait") or "") or
            (c.args and on_index(ff, c.args[0]) and c.d.startswith("std::collections::BTreeMap") and not c.d.endswith("::iter"))]
    sel_ok = False
    desc = [c.d for c in sels]
    for c in sels:
        selfty = c.callee.get("self") or ""
        name = c.o.split("::")[-1]
        if c.d.endswith("BTreeMap::<K, V, A>::first_key_value") or name == "first_key_value":
            sel_ok = True
        elif selfty.startswith("std::collections::btree_map::Iter<") and name in ("min_by_key", "next", "min"):
            if name == "min_by_key":
                clos = [a for a in c.args[1:] if True]
                cb = prog.closures_in(ff.path)
                good = False
                for b in cb:
                    # closure returns a tuple whose first component is the key (item.0)
                    for bb in b.live:
                        for s in b.stmts(bb):
                            if s[0] == "=" and s[1] == [0] and s[2][0] == "agg" and s[2][1] == "tuple" and s[2][2]:
                                o = b.origins(s[2][2][0])
                                if any(x[0] == "arg" and x[1] == 2 and x[2][:1] == ("0",) or (x[0] == "arg" and "0" in x[2][:2]) for x in o):
                                    good = True
                            if s[0] == "=" and s[1] == [0] and s[2][0] == "use":
                                o = b.origins(s[2][1])
                                if any(x[0] == "arg" and "0" in x[2][:2] for x in o):
                                    good = True
                sel_ok = good
            else:
                sel_ok = True
    rep.examined(R82, ff.path + "|select", sample={"site": ff.path, "selection": desc})
    if not sel_ok:
        rep.violation(R82, ff.path + "|select", "%s: the first record is not selected as the minimum key of the ordered index (calls: %s)" % (ff.path, desc))

    pe = prog.body(FSR + "::process_entry_at")
    iters = [c for c in pe.live_calls() if c.d.endswith("BTreeMap::<K, V, A>::iter") and on_index(pe, c.args[0])]
    nexts = [c for c in pe.live_calls() if c.o.endswith("Iterator::next") and "btree_map::Iter<" in (c.callee.get("self") or "") and "tv_pair_type" in (c.callee.get("self") or "")]
    removes = [c for c in pe.live_calls() if c.d.endswith("::remove") and "BTreeMap" in c.d and on_index(pe, c.args[0])]
    rep.examined(R82, pe.path + "|walk", sample={"iter_calls": len(iters), "next_calls": [c.callee.get("self") for c in nexts], "remove_calls": len(removes)})
    if len(iters) != 1 or len(nexts) != 1 or len(removes) != 1:
        # adapters such as rev() change the Self type of next(): report as violation of walk order
        adapters = [c for c in pe.live_calls() if c.o.endswith("Iterator::next") and "tv_pair_type" in (c.callee.get("self") or "")]
        rep.violation(R82, pe.path + "|walk", "%s: the index is not walked by a plain in-order BTreeMap iteration with one removal (iter=%d, next on %s, remove=%d)" % (
            pe.path, len(iters), [c.callee.get("self") for c in adapters], len(removes)))
    else:
        nx, rm = nexts[0], removes[0]
        # removed key comes from the iteration item's key
        o = pe.origins(rm.args[1])
        from_item_key = any(x[0] == "call" and x[1] == nx.bb and "0" in x[3] and x[3][-1] == "0" or (x[0] == "call" and x[1] == nx.bb and x[3][-2:] == ("0", "0")) for x in o)
        item_key = any(x[0] == "call" and x[1] == nx.bb and ("as Some", "0", "0") == tuple(x[3][:3]) for x in o)
        rep.examined(R82, pe.path + "|remove-key", sample={"remove_key_origins": [str(x) for x in o]})
        if not item_key:
            rep.violation(R82, pe.path + "|remove-key", "%s: the key removed from the index is not the key of the entry found by the walk" % pe.path)
        # successor: the returned next offset is assigned from an iteration item's value under a flag
        # that is set where the served offset matched
        fo_next_vars = [i for i in range(len(pe.locals)) if pe.local_name(i) and pe.local_ty(i) == "u64" and any(
            d[1] != "call" and d[2][0] == "use" and any(x[0] == "call" and x[1] == nx.bb and tuple(x[3][:3]) == ("as Some", "0", "1") for x in pe.origins(d[2][1]))
            for d in pe.defs.get(i, []))]
        rep.examined(R82, pe.path + "|successor", sample={"successor_vars": [pe.local_name(i) for i in fo_next_vars]})
        if not fo_next_vars:
            rep.violation(R82, pe.path + "|successor", "%s: the offset returned for the next record is not taken from the walk's following entry" % pe.path)
        else:
            succ_blocks = []
            for v in fo_next_vars:
                succ_blocks += [d[0] for d in pe.defs[v] if d[1] != "call" and d[2][0] == "use" and d[2][1][0] != "k" and any(
                    x[0] == "call" and x[1] == nx.bb for x in pe.origins(d[2][1]))]
            # flag variable guarding succ block
            ok_flag = False
            for sb in succ_blocks:
                for p in pe.pred[sb]:
                    t = pe.term(p)
                    if t[0] == "switch":
                        fl = var_of(pe, t[1])
                        if fl is None:
                            continue
                        tdefs = [d for d in pe.defs.get(fl, []) if d[1] != "call" and d[2][0] == "use" and d[2][1][0] == "k" and d[2][1][2] is True]
                        for d in tdefs:
                            # the block setting the flag must be guarded by eq(served offset, item value)
                            for q in pe.pred[d[0]]:
                                tq = pe.term(q)
                                if tq[0] == "switch":
                                    at = decide.bool_atom(pe, tq[1])
                                    if at and at[0] == "cmp" and at[1] == "eq":
                                        roots = (at[2], at[3])
                                        if any(r[0] == "call" and r[2] == nx.bb and r[-1] == "1" for r in roots):
                                            # and the true edge leads to the flag block
                                            tm = {int(vv): b for vv, b in tq[2]}
                                            if tm.get(0) != d[0]:
                                                ok_flag = True
            if not ok_flag:
                rep.violation(R82, pe.path + "|successor", "%s: the successor offset is not taken from the entry that follows the served offset in map order" % pe.path)
    rep.floor(R82, 5)

    # ------------------------------------------------------------ R8.4
    size_t = const_table(prog.body(FST + "::size"))
    sizetv_t = const_table(prog.body(FST + "::size_tv"))
    offtv_t = const_table(prog.body(FST + "::offset_tv"))
    bf = prog.body("s4lib::data::fixedstruct::buffer_to_fixedstructptr")
    casts = cast_types_per_arm(bf, 2)
    tvb = prog.body(FST + "::tv_pair_from_buffer")
    tvcasts = cast_types_per_arm(tvb, 1)
    enum = facts.adts.get(FST)
    vnames = {v["idx"]: v["name"] for v in enum["variants"]}
    if not (set(size_t) == set(sizetv_t) == set(offtv_t) == set(vnames)):
        rep.violation(R84, FST + "|coverage", "layout tables do not cover the same variants: size %d, size_tv %d, offset_tv %d, enum %d" % (
            len(size_t), len(sizetv_t), len(offtv_t), len(vnames)))
    for v, name in sorted(vnames.items()):
        ts = casts.get(v, set())
        inst = "%s::%s" % (FST, name)
        if len(ts) != 1:
            raise CheckerError("buffer_to_fixedstructptr: variant %s is cast to %s" % (name, sorted(ts)))
        T = next(iter(ts))
        a = facts.adts.get(T)
        if not a or "size" not in a:
            raise CheckerError("no layout for %s" % T)
        problems = []
        if size_t.get(v) != a["size"]:
            problems.append("size() says %s, size_of::<%s>() is %s" % (size_t.get(v), T, a["size"]))
        fields = a["variants"][0]["fields"]
        cands = [(f["name"], off, sz) for f, off, sz in zip(fields, a.get("offsets", []), a.get("field_sizes", [])) if off == offtv_t.get(v)]
        if not any(sz == sizetv_t.get(v) for (_, _, sz) in cands):
            problems.append("no field of %s has offset offset_tv()=%s and size size_tv()=%s (fields at that offset: %s)" % (T, offtv_t.get(v), sizetv_t.get(v), cands))
        tts = tvcasts.get(v, set())
        tsz = set(size_of(prog, x) for x in tts)
        if not tts or tsz != {sizetv_t.get(v)}:
            problems.append("tv_pair_from_buffer reads %s (sizes %s) but size_tv() is %s" % (sorted(tts), sorted(map(str, tsz)), sizetv_t.get(v)))
        rep.examined(R84, inst, sample={"variant": name, "struct": T, "size": a["size"], "size()": size_t.get(v), "offset_tv()": offtv_t.get(v),
                                        "size_tv()": sizetv_t.get(v), "time_field": [c[0] for c in cands], "time_type": sorted(tts)})
        if problems:
            rep.violation(R84, inst, "%s: %s" % (inst, "; ".join(problems)))
    rep.floor(R84, 10)
    rep.exhaustive.append("R8.4: every FixedStructType variant")

    # ------------------------------------------------------------ R8.5
    ab = prog.body("s4lib::data::fixedstruct::FixedStruct::as_bytes")
    okblocks = []
    for bb in sorted(ab.live):
        for s in ab.stmts(bb):
            if s[0] == "=" and s[1] == [0] and s[2][0] == "agg" and isinstance(s[2][1], dict) and s[2][1].get("variant") == "Ok":
                okblocks.append(bb)
    if len(okblocks) != 1:
        raise CheckerError("FixedStruct::as_bytes: %d Ok returns" % len(okblocks))
    stores = []
    bb = okblocks[0]
    steps = 0
    while steps < 200 and len(stores) < 2:
        steps += 1
        for s in reversed(ab.stmts(bb)):
            if s[0] == "=" and len(s[1]) >= 3 and s[1][0] == 2 and s[1][1] == "*" and isinstance(s[1][2], list) and s[1][2][0] == "[]" \
                    and s[2][0] == "use" and s[2][1][0] == "k" and isinstance(s[2][1][2], int):
                stores.append((s[2][1][2], ab.blocks[bb].get("l")))
                if len(stores) >= 2:
                    break
        ps = [p for p in ab.pred[bb] if p in ab.live]
        if len(ps) != 1:
            break
        bb = ps[0]
    rep.examined(R85, ab.path + "|return-length", sample={"last_constant_bytes_before_Ok(reverse)": stores})
    if not stores:
        raise CheckerError("FixedStruct::as_bytes: no constant byte store precedes the Ok return")
    if stores[0][0] != 10:
        rep.violation(R85, ab.path + "|return-length",
                      "%s: byte 0x%02x is written after the final newline and counted in the returned length; the printers emit buffer[..at], so it is printed after every record" % (ab.path, stores[0][0]),
                      {"stores": stores})

    # ------------------------------------------------------------ R8.7 (lifted from C05 R5.4)
    R87 = rep.rule("R8.7", "compressed accounting files keep their blocks for the time-ordered walk (lifted from C05 R5.4)")
    import contextlib as _cl, io as _io
    import c05 as _c05
    from common import Report as _Rep
    _sub = _Rep("C05", "quick", dict(rep.meta))
    _sub.finish = lambda *a, **k: 0
    with _cl.redirect_stdout(_io.StringIO()):
        _c05.run(prog, _sub, "quick")
    for (rid_, key_, what_, det_) in _sub.violations:
        if rid_ == "R5.4":
            rep.violation(R87, key_.split("|", 1)[1], what_)
        elif rid_ == "R5.17" and "FixedStruct" in key_ or rid_ == "R5.17" and "siblings" in key_:
            rep.violation(R87, key_.split("|", 1)[1] + "|R5.17", what_)
    for s_ in _sub.rules.get("R5.4", {}).get("samples", []):
        rep.examined(R87, str(s_)[:70], sample=s_)
    for k_ in sorted(_sub.rules.get("R5.17", {}).get("keys", ())):
        rep.examined(R87, "R5.17|" + k_, sample={"rule": "R5.17 (record files are sized by their decoded length in every container)", "instance": k_})

    # ------------------------------------------------------------ R8.19 a printed record has left the printer's private buffer (lift of C01 R1.7)
    # "Each non-null record is printed exactly once": the print_fixedstruct* variants batch bytes in
    # PrinterLogMessage's buffer; a variant that returns Ok with the record still in the buffer prints it
    # late (after other sources' prefixes) and never prints the file's last record.
    import printflush as _pf8
    R819 = rep.rule("R8.19", "every print_fixedstruct variant returns Ok only with its buffer written out (from C01 R1.7)")
    _sub17 = _Rep("C01", "quick", dict(rep.meta))
    _r17 = _sub17.rule("R1.7", "lift")
    _pf8.check(prog, _sub17, _r17, floor=24)
    n819 = 0
    for k_ in sorted(_sub17.rules["R1.7"]["keys"]):
        if "print_fixedstruct" in k_:
            n819 += 1
            rep.examined(R819, k_, sample={"printer": k_})
    for (rid_, key_, what_, det_) in _sub17.violations:
        if "print_fixedstruct" in key_:
            rep.violation(R819, key_.split("|", 1)[1], what_)
    if n819 < 4:
        raise CheckerError("R8.19: only %d print_fixedstruct bodies among the printers" % n819)

    # ------------------------------------------------------------ R8.6 the worker sends records until the reader is done
    R86 = rep.rule("R8.6", "the accounting worker's loop ends only when the reader reports Done or an error")
    wb = prog.body("s4::exec_fixedstructprocessor")
    pe_calls = [c for c in wb.live_calls() if c.d.endswith("FixedStructReader::process_entry_at")]
    if len(pe_calls) != 1:
        raise CheckerError("exec_fixedstructprocessor: %d process_entry_at calls" % len(pe_calls))
    hs = [h_ for t_, h_ in wb.back_edges() if pe_calls[0].bb in wb.loop_blocks(h_)]
    if not hs:
        raise CheckerError("exec_fixedstructprocessor: record loop not found")
    WL = wb.loop_blocks(min(hs, key=lambda x: len(wb.loop_blocks(x))))
    bad = []
    nex = 0
    for x in sorted(WL):
        for s_ in wb.succ[x]:
            if s_ in WL or wb.term(s_)[0] == "unreachable":
                continue
            nex += 1
            okx = False
            if wb.term(x)[0] == "switch":
                sd = decide.switch_decisions(wb, x)
                if sd:
                    for tgt, d in sd:
                        if tgt == s_ and d[0] in ("variant", "variant_not") and d[1][0] == "call" and d[1][1] == "process_entry_at":
                            okx = True
            if not okx:
                bad.append((x, wb.blocks[x].get("l")))
    rep.examined(R86, wb.path + "|loop-exits", sample={"loop_exits": nex, "not_controlled_by_the_reader_result": bad})
    if bad:
        rep.violation(R86, wb.path + "|loop-exits", "exec_fixedstructprocessor: the record loop can end (line %s) on a condition other than the reader's Done/Err; records are served in time order, so stopping at the physically last record (or any other early stop) drops the later-timed ones" % bad[0][1])

    # ------------------------------------------------------------ R8.8 a file of exactly one smallest record is not "too small"
    nb_ = prog.body(FSR + "::new")
    R88 = rep.rule("R8.8", "the too-small rejection is strict: a file of exactly ENTRY_SZ_MIN bytes holds one record")
    emin = None
    for k_, v_ in prog.facts.consts.items():
        if k_.endswith("fixedstruct::ENTRY_SZ_MIN"):
            emin = v_["value"]
    if not isinstance(emin, int):
        raise CheckerError("ENTRY_SZ_MIN constant not found")
    cmps_ = []
    for bb in sorted(nb_.live):
        for s_ in nb_.stmts(bb):
            if s_[0] == "=" and s_[2][0] == "bin" and s_[2][1] in ("Lt", "Le", "Gt", "Ge"):
                a_, c_ = s_[2][2], s_[2][3]
                va, vc = nb_.eval_int(a_), nb_.eval_int(c_)
                fa = any(x[0] == "call" and x[2].endswith("::filesz") for x in nb_.origins(a_)) if a_[0] != "k" else False
                fc = any(x[0] == "call" and x[2].endswith("::filesz") for x in nb_.origins(c_)) if c_[0] != "k" else False
                if fa and vc == emin:
                    cmps_.append((s_[2][1], "filesz", emin, s_[-1] if isinstance(s_[-1], int) else 0))
                elif fc and va == emin:
                    cmps_.append(({"Lt": "Gt", "Le": "Ge", "Gt": "Lt", "Ge": "Le"}[s_[2][1]], "filesz", emin, s_[-1] if isinstance(s_[-1], int) else 0))
    rep.examined(R88, nb_.path + "|min-size", sample={"ENTRY_SZ_MIN": emin, "comparisons_of_filesz_with_it": [c_[:3] for c_ in cmps_]})
    if not cmps_:
        raise CheckerError("FixedStructReader::new: no comparison of filesz() with ENTRY_SZ_MIN")
    for op_, _, _, ln_ in cmps_:
        if op_ in ("Le", "Gt"):
            rep.violation(R88, nb_.path + "|min-size", "FixedStructReader::new: filesz() is tested with %s against ENTRY_SZ_MIN=%d; a file of exactly one smallest record (%d bytes, a NetBSD lastlog entry) is rejected as too small and its record is never printed" % (
                "<=" if op_ == "Le" else ">", emin, emin))

    # ------------------------------------------------------------ R8.9 sibling arms of the renderer agree on sub-ranges of one field
    R89 = rep.rule("R8.9", "renderer arms that test the same array field use the same index range, and it reaches the array's end")
    ab_ = prog.body("s4lib::data::fixedstruct::FixedStruct::as_bytes")
    by_field = {}
    for c in ab_.live_calls():
        if c.d.split("::")[-1] in ("index", "index_mut") and len(c.args) >= 2:
            fld = None
            for x in ab_.origins(c.args[0], through_calls=("::deref",)):
                pr = [p_ for p_ in x[-1] if isinstance(p_, str) and p_ not in ("*", "&") and not p_.startswith("as ")]
                if pr:
                    fld = pr[-1] if x[0] != "call" else pr[-1]
            rng = None
            for x in ab_.origins(c.args[1]):
                if x[0] == "agg":
                    st_ = ab_.stmts(x[1])[x[2]]
                    k_ = st_[2][1]
                    if isinstance(k_, dict) and k_.get("adt", "").startswith("std::ops::Range"):
                        rng = (k_["adt"].split("::")[-1], tuple(ab_.eval_int(o_) for o_ in st_[2][2]))
            if fld and rng:
                by_field.setdefault(fld, []).append((rng, c.line))
    n89 = 0
    for fld, uses in sorted(by_field.items()):
        if len(uses) < 2:
            continue
        n89 += 1
        kinds = sorted(set(u[0] for u in uses))
        rep.examined(R89, "as_bytes|%s" % fld, sample={"field": fld, "ranges": [str(k_) for k_ in kinds], "sites": [u[1] for u in uses]})
        if len(kinds) > 1:
            rep.violation(R89, "as_bytes|%s" % fld, "FixedStruct::as_bytes: sibling arms test `%s` over different index ranges %s (lines %s); the arm with the shorter range decides IPv4-vs-IPv6 (or similar) on fewer words and prints a wrong value for records the other arm prints correctly" % (
                fld, [str(k_) for k_ in kinds], [u[1] for u in uses]))
    if n89 == 0:
        raise CheckerError("R8.9: no array field is range-indexed by two renderer arms (idiom not recognised)")

    # ------------------------------------------------------------ R8.11 seconds come from the seconds field, microseconds from the microseconds field
    # from_fixedstructptr has one arm per record layout; each reads the record's time into variables
    # named tv_sec / tv_usec.  A variable whose name says microseconds must be fed by a field whose name
    # says microseconds (or by the constant 0 for layouts without one), and likewise for seconds
    # (cross-check of the arms' stated beliefs; a copy/paste slip otherwise truncates that layout's
    # records to whole seconds or dates them by their microseconds).
    R811 = rep.rule("R8.11", "time variables of every layout arm are fed by the field their name denotes")
    fp = prog.body("s4lib::data::fixedstruct::FixedStruct::from_fixedstructptr")
    n811 = 0

    def _fields_of(b_, op_, depth=0):
        res = set()
        if op_[0] == "k":
            return {"const"}
        for x in b_.origins(op_, through_calls=("::into", "::try_into", "::unwrap", "i64>::from", "From<", "::from")):
            if x[0] == "const":
                res.add("const")
            elif x[0] in ("arg", "local", "call"):
                fl_ = [q for q in x[-1] if isinstance(q, str) and q not in ("*", "&") and not q.startswith("as ")]
                res.add(fl_[-1] if fl_ else x[0])
            else:
                res.add(x[0])
        return res
    for l_, ds_ in sorted(fp.defs.items()):
        nm_ = fp.local_name(l_) or ""
        if "usec" in nm_:
            want = "usec"
        elif "sec" in nm_ and "nsec" not in nm_:
            want = "sec"
        else:
            continue
        for d_ in ds_:
            if d_[1] == "call":
                continue
            rv_ = d_[2]
            if rv_[0] != "use":
                continue
            srcs = _fields_of(fp, rv_[1])
            named = sorted(x for x in srcs if x not in ("const", "arg", "local", "call"))
            n811 += 1
            bad_ = []
            for f_ in named:
                is_usec = "usec" in f_
                is_sec = ("sec" in f_ and not is_usec) or "time" in f_
                if want == "usec" and not is_usec and (is_sec or "tv" in f_):
                    bad_.append(f_)
                if want == "sec" and is_usec:
                    bad_.append(f_)
            rep.examined(R811, "%s|%s@%s" % (fp.path, nm_, ",".join(named) or "const"), sample={"variable": nm_, "fed_by": sorted(srcs), "line": fp.blocks[d_[0]].get("l")})
            if bad_:
                rep.violation(R811, "%s|%s<-%s" % (fp.path, nm_, bad_[0]), "from_fixedstructptr (line %s): `%s` is assigned from the field `%s`; that layout's records get their %s from the wrong field, "
                              "so they are merged with other sources at the wrong instant (e.g. truncated to whole seconds)" % (fp.blocks[d_[0]].get("l"), nm_, bad_[0], "microseconds" if want == "usec" else "seconds"))
    if n811 < 10:
        raise CheckerError("R8.11: only %d assignments to tv_sec/tv_usec variables found" % n811)

    # ------------------------------------------------------------ R8.12 a bad sub-second field never costs the record
    # tv_usec "merely supplements the more coarse tv_sec": chrono rejects nanoseconds >= 2e9, which a stored
    # tv_usec of 2000000..4294967 produces after the *1000.  The conversion may give up (Err: the record is
    # skipped) only after it has tried the seconds alone: every Err return lies behind the None arm of a
    # timestamp_opt call whose nanosecond argument is the constant 0 (or is reduced below 1e9 by % / min).
    R812 = rep.rule("R8.12", "convert_tvpair_to_datetime gives up only after trying the seconds with zero nanoseconds")
    cvb = prog.body("s4lib::data::fixedstruct::convert_tvpair_to_datetime")
    tso = [c for c in cvb.live_calls() if c.d.endswith("TimeZone::timestamp_opt")]
    if not tso:
        raise CheckerError("convert_tvpair_to_datetime: no timestamp_opt call")
    safe_none = set()
    for c in tso:
        ns = c.args[-1]
        bounded = (cvb.eval_int(ns) == 0)
        if not bounded and ns[0] != "k":
            for x in cvb.origins(ns):
                if x[0] == "bin":
                    st_ = cvb.stmts(x[1])[x[2]]
                    if st_[2][1].startswith("Rem"):
                        bounded = True
                elif x[0] == "call" and x[2].split("::")[-1] in ("min", "clamp", "rem_euclid"):
                    bounded = True
        if bounded and c.target is not None:
            # the None arm of the match on its result
            t_ = cvb.term(c.target)
            if t_[0] == "switch":
                # the None arm is the one that does not bind a datetime: the arm(s) from which an Err is built
                for tgt_ in set(cvb.succ[c.target]):
                    safe_none.add(tgt_)
    errs = []
    for bb in sorted(cvb.live):
        for s_ in cvb.stmts(bb):
            if s_[0] == "=" and s_[1] == [0] and s_[2][0] == "agg" and isinstance(s_[2][1], dict) and s_[2][1].get("variant") == "Err":
                errs.append(bb)
    early = [bb for bb in errs if not any(cvb.dominates(sn, bb) for sn in safe_none)]
    rep.examined(R812, cvb.path, sample={"timestamp_opt_calls": len(tso), "calls_with_safe_nanoseconds": len(safe_none), "Err_returns": len(errs), "Err_returns_before_the_zero_nanosecond_attempt": len(early)})
    if not errs:
        raise CheckerError("convert_tvpair_to_datetime: no Err return recognised")
    if early:
        rep.violation(R812, cvb.path + "|retry", "convert_tvpair_to_datetime returns Err (line %s) without having tried timestamp_opt(tv_sec, 0); a record whose tv_usec is 2000000..4294967 (nanoseconds >= 2e9, which chrono rejects) "
                      "is skipped although its seconds are fine" % cvb.blocks[early[0]].get("l"))

    # ------------------------------------------------------------ R8.10 string bytes of a record are copied, not reinterpreted
    # Fixed-size string fields are arrays of c_char (i8 on most layouts).  A byte above 0x7F is a
    # negative i8; converting with a *checked* i8 -> u8 conversion and substituting a constant on
    # failure replaces every such byte (UTF-8 user names, Latin-1 host names) by that constant.
    R810 = rep.rule("R8.10", "record string bytes are rendered bit for bit (no checked i8->u8 conversion with a substitute)")
    ab2 = prog.body("s4lib::data::fixedstruct::FixedStruct::as_bytes")
    chk = [c for c in ab2.live_calls() if ("TryInto<u8>" in c.f or "TryFrom<i8>" in c.f) and "i8" in c.f]
    casts = 0
    for bb in sorted(ab2.live):
        for s_ in ab2.stmts(bb):
            if s_[0] == "=" and s_[2][0] == "cast" and len(s_[1]) == 1 and s_[2][2][0] != "k":
                l_ = op_local(s_[2][2])
                if l_ is not None and str(ab2.local_ty(l_)) == "i8" and str(ab2.local_ty(s_[1][0])) == "u8":
                    casts += 1
    rep.examined(R810, ab2.path + "|c_char", sample={"checked_i8_to_u8_conversions": len(chk), "bit_preserving_casts": casts})
    if chk:
        rep.violation(R810, ab2.path + "|c_char", "FixedStruct::as_bytes converts string bytes with a checked i8 -> u8 conversion (%d sites, e.g. line %d) and substitutes a constant when it fails; every byte above 0x7F of a record's "
                      "own field value is printed as that constant ('j\\0\\0rgen' for 'jürgen')" % (len(chk), chk[0].line))
    elif casts == 0:
        raise CheckerError("R8.10: neither checked conversions nor plain casts of c_char bytes found in as_bytes")

    # ------------------------------------------------------------ R8.13 the rendering buffer holds every layout's longest line
    # FixedStruct::as_bytes renders a record as text into a caller-supplied buffer and gives up
    # (InfoAsBytes::Fail) when it is full: the line is then cut short or the file's printing stops.
    # Per layout arm the rendered text is at least its constant labels plus every character-array
    # field at full length (a lower bound; numbers come on top).  The buffer the coordinator hands
    # to print_fixedstruct must hold that for every layout.
    import re as _re8
    R813 = rep.rule("R8.13", "the coordinator's rendering buffer is at least as long as the longest rendering of any record layout (labels + character fields)")
    ab_ = prog.body("s4lib::data::fixedstruct::FixedStruct::as_bytes")
    ft_ = [c for c in ab_.live_calls() if c.d.endswith("::fixedstruct_type")]
    if len(ft_) != 1 or len(ab_.succ[ft_[0].bb]) != 1 or ab_.term(ab_.succ[ft_[0].bb][0])[0] != "switch":
        raise CheckerError("as_bytes: dispatch on fixedstruct_type() not found")
    sw_ = ab_.term(ab_.succ[ft_[0].bb][0])
    heads_ = [(str(v_), tb_) for v_, tb_ in sw_[2] if tb_ in ab_.live]
    reach_ = {tb_: ab_.reachable(tb_) for _v, tb_ in heads_}

    def _arrlen(op_, depth=0):
        l_ = op_local(op_)
        while l_ is not None and depth < 8:
            depth += 1
            m_ = _re8.search(r"\[(?:i8|u8); (\d+)\]", ab_.local_ty(l_) or "")
            if m_:
                return int(m_.group(1))
            ds_ = ab_.defs.get(l_, [])
            if len(ds_) != 1 or ds_[0][1] == "call":
                return None
            rv_ = ds_[0][2]
            if rv_[0] == "cast":
                l_ = op_local(rv_[2])
            elif rv_[0] == "use":
                l_ = op_local(rv_[1])
            elif rv_[0] == "ref":
                l_ = rv_[2][0] if len(rv_[2]) == 1 else None
                if l_ is None:
                    # &(*s).field : the type of the reference temp itself was checked above
                    return None
            else:
                return None
        return None
    longest = (0, None)
    for v_, tb_ in heads_:
        own_ = set(reach_[tb_])
        for tb2, r2 in reach_.items():
            if tb2 != tb_:
                own_ -= r2
        labels_ = 0
        for bb in own_:
            for st in ab_.stmts(bb):
                if st[0] == "=" and st[2][0] == "use" and st[2][1][0] == "k" and isinstance(st[2][1][2], str) and "str" in str(st[2][1][1]):
                    labels_ += len(st[2][1][2].encode())
        chars_ = [x_ for x_ in (_arrlen(c.args[0]) for c in ab_.live_calls() if c.bb in own_ and c.d.endswith("::iter") and "slice" in c.d and c.args) if x_]
        lb_ = labels_ + sum(chars_)
        rep.examined(R813, "as_bytes|layout %s" % v_, sample={"layout_discriminant": v_, "label_bytes": labels_, "character_fields": chars_, "lower_bound_of_longest_line": lb_})
        if lb_ > longest[0]:
            longest = (lb_, v_)
    if longest[0] < 200 or len(heads_) < 12:
        raise CheckerError("R8.13: implausible layout inventory (%d arms, longest %d)" % (len(heads_), longest[0]))
    nbuf = 0
    for sb_ in prog.bodies():
        if not (sb_.path.startswith("s4::") or sb_.path.startswith("s4lib::")) or "_tests" in sb_.path or sb_.path.startswith("s4lib::printer::printers::PrinterLogMessage::"):
            continue
        for c in sb_.live_calls():
            if not (c.d.endswith("PrinterLogMessage::print_fixedstruct") or c.d.endswith("FixedStruct::as_bytes")) or not c.args:
                continue
            for o_ in sb_.origins(c.args[-1]):
                nbuf += 1
                size_ = None
                if o_[0] == "repeat":
                    st = sb_.stmts(o_[1])[o_[2]]
                    try:
                        size_ = int(st[2][2])
                    except Exception:
                        size_ = None
                elif o_[0] in ("local", "arg"):
                    m_ = _re8.search(r"\[u8; (\d+)\]", sb_.local_ty(o_[1]) or "")
                    size_ = int(m_.group(1)) if m_ else None
                rep.examined(R813, "%s|buffer" % sb_.path, sample={"site": sb_.path, "line": c.line, "buffer_bytes": size_, "needed_at_least": longest[0], "by_layout": longest[1]})
                if size_ is not None and size_ < longest[0]:
                    rep.violation(R813, "%s|buffer|too-short" % sb_.path, "%s (line %d) renders records into a %d-byte buffer, but a record of layout #%s can render to at least %d bytes (labels + full character fields); "
                                  "as_bytes then stops at the end of the buffer: the line loses its last fields and its newline, or (with colour) the rest of the file is not printed" % (sb_.path.split("::")[-1], c.line, size_, longest[1], longest[0]))
    if nbuf == 0:
        raise CheckerError("R8.13: no caller-side rendering buffer found")

    # ------------------------------------------------------------ R8.14 only a null entry is dismissed by the time-value scan
    # "Each non-null record is printed exactly once": null means every byte 0x00 (or 0xFF).  The scan in
    # preprocess_timevalues may hold an entry back from the index because of a window bound or because
    # the bytes cannot be read as a time; a comparison of the time value with a constant (`== (0, 0)`)
    # may dismiss the entry only after the whole entry was looked at (`all(|b| b == 0)` over the
    # entry's bytes).  Otherwise records with a zero time (acct `ac_btime` 0) are silently lost.
    R814 = rep.rule("R8.14", "a time value equal to a constant dismisses an entry only after a whole-entry null test")
    tvb = prog.body("s4lib::readers::fixedstructreader::FixedStructReader::preprocess_timevalues")
    ins_ = [c for c in tvb.live_calls() if c.d.endswith("BTreeMap::<K, V, A>::insert")]
    if len(ins_) != 1:
        raise CheckerError("preprocess_timevalues: %d index inserts" % len(ins_))
    hdrs8 = [h for (_t, h) in tvb.back_edges() if ins_[0].bb in tvb.loop_blocks(h)]
    if not hdrs8:
        raise CheckerError("preprocess_timevalues: index insert not in a loop")
    h8 = min(hdrs8, key=lambda h: len(tvb.loop_blocks(h)))
    n814 = 0
    consts_cmp = 0
    for c in tvb.live_calls():
        if c.d.split("::")[-1] not in ("eq", "ne") or "tv_pair_type" not in c.d:
            continue
        # one side a constant aggregate?
        const_side = False
        for a_ in c.args:
            os_ = tvb.origins(a_)
            if os_ and all(o_[0] == "const" for o_ in os_):
                const_side = True
            elif os_ and all(o_[0] == "agg" for o_ in os_):
                agg_ok = True
                for o_ in os_:
                    st_ = tvb.stmts(o_[1])[o_[2]]
                    if not all(x[0] == "k" for x in st_[2][2]):
                        agg_ok = False
                const_side = const_side or agg_ok
        if not const_side or c.target is None:
            continue
        consts_cmp += 1
        t = tvb.term(c.target)
        if t[0] != "switch":
            continue
        arms = {int(v_): tb_ for v_, tb_ in t[2]}
        eq_true = (t[3] if 0 in arms else arms.get(1)) if c.d.split("::")[-1] == "eq" else arms.get(0, t[3])
        if eq_true is None:
            continue
        n814 += 1
        nulltests = {x.bb for x in tvb.live_calls() if x.o.endswith("Iterator::all") or x.d.split("::")[-1] in ("is_null", "iter_all_zero")}
        # the read of the whole entry that precedes the test counts as looking at it (its failure arm ends the scan of that entry)
        nulltests |= {x.bb for x in tvb.live_calls() if x.d.endswith("::read_data_to_buffer") and tvb.dominates(eq_true, x.bb)} if any(
            tvb.dominates(eq_true, nb_) for nb_ in nulltests) else set()
        skips = h8 in tvb.reachable(eq_true, nulltests | {ins_[0].bb})
        rep.examined(R814, tvb.path + "|const-time-compare", sample={"line": c.line, "whole_entry_tests_in_loop": len(nulltests), "dismissed_without_whole_entry_test": skips})
        if skips:
            rep.violation(R814, tvb.path + "|const-time-compare|dismissed-by-time-alone", "preprocess_timevalues (line %d): an entry whose time value equals a constant goes round the loop without being indexed and without a test of the whole entry; "
                          "a record with a zero time and other fields set (acct records with ac_btime 0: 35 of the 111 in logs/CentOS9/x86_64/pacct) is never printed" % c.line)
    rep.examined(R814, tvb.path + "|inventory", nontrivial=False, sample={"comparisons_of_the_time_value_with_a_constant": consts_cmp, "judged": n814})

    # ------------------------------------------------------------ R8.15 a record that cannot be decoded does not end the file
    # process_entry_at answers Err((next_offset, error)).  `None` as next offset tells the worker to stop
    # reading the file; that is right when the file itself cannot be read, but an entry that merely fails
    # to decode (an all-0xFF "wiped" record sorts first by its raw time) has to carry Some(next) so the
    # worker goes on - otherwise no record of the file is printed.
    R815 = rep.rule("R8.15", "the Err answer for an undecodable entry carries the next offset (only read errors end the file)")
    pe_ = prog.body("s4lib::readers::fixedstructreader::FixedStructReader::process_entry_at")
    n815 = 0
    for bb in sorted(pe_.live):
        for st in pe_.stmts(bb):
            if not (st[0] == "=" and st[1] == [0] and st[2][0] == "agg" and isinstance(st[2][1], dict) and st[2][1].get("variant") == "Err"):
                continue
            # the tuple (Option<FileOffset>, Error)
            nxt = None
            for o_ in pe_.origins(st[2][2][0]):
                if o_[0] == "agg":
                    tup = pe_.stmts(o_[1])[o_[2]][2]
                    for o2 in pe_.origins(tup[2][0]):
                        if o2[0] == "agg":
                            k2 = pe_.stmts(o2[1])[o2[2]][2][1]
                            nxt = k2.get("variant") if isinstance(k2, dict) else None
            # which call's failure is this?
            ctl = None
            for sbb in sorted(pe_.live):
                t = pe_.term(sbb)
                if t[0] == "switch" and sbb != bb and pe_.dominates(sbb, bb):
                    for o_ in pe_.origins(t[1]):
                        if o_[0] == "discr":
                            s2 = pe_.stmts(o_[1])[o_[2]]
                            for o3 in pe_.origins(["cp", s2[2][1]]):
                                if o3[0] == "call" and (ctl is None or pe_.dominates(ctl[0], sbb)):
                                    ctl = (sbb, o3[2].split("::")[-2] + "::" + o3[2].split("::")[-1])
            n815 += 1
            rep.examined(R815, "%s|Err@%s" % (pe_.path, ctl[1] if ctl else "?"), sample={"after_failure_of": ctl[1] if ctl else None, "next_offset": nxt})
            if ctl and ctl[1].endswith("FixedStruct::new") and nxt != "Some":
                rep.violation(R815, "%s|Err@FixedStruct::new|no-next-offset" % pe_.path, "process_entry_at: when FixedStruct::new fails for one entry the answer carries no next offset, which makes the worker stop the whole file; "
                              "one undecodable record (an all-0xFF record interleaved with valid ones sorts first) then suppresses every record of the file")
    if n815 < 3:
        raise CheckerError("R8.15: %d Err answers in process_entry_at" % n815)

    # ------------------------------------------------------------ R8.16 the layout candidates never depend on the file name alone
    # filesz_to_types first adds the layouts the file *name* suggests (with a bonus) and then every
    # layout whose record size divides the file size - "try all types anyway; the file naming varies
    # widely".  The name table is incomplete by design (wtmp/btmp/utmp hint only the BSD layouts), so a
    # return of the candidate set that can skip the by-size part decodes Linux files whose record count
    # happens to fit a hinted layout with the wrong layout.  Every `Some(set)` return is dominated by
    # every by-size test.
    R816 = rep.rule("R8.16", "filesz_to_types returns its candidate set only after every by-size test ran")
    fb_ = prog.body("s4lib::data::fixedstruct::filesz_to_types")
    hint_sw = None
    for bb in sorted(fb_.live):
        t = fb_.term(bb)
        if t[0] == "switch":
            for o_ in fb_.origins(t[1]):
                if o_[0] == "discr":
                    s2 = fb_.stmts(o_[1])[o_[2]]
                    if s2[2][1][0] == 2 and hint_sw is None:
                        hint_sw = bb
    if hint_sw is None:
        raise CheckerError("filesz_to_types: switch over the file-name kind not found")
    t = fb_.term(hint_sw)
    arm_heads = [tb_ for _v, tb_ in t[2] if fb_.pred[tb_] == [hint_sw]]
    by_size = []
    for bb in sorted(fb_.live):
        for st in fb_.stmts(bb):
            if st[0] == "=" and st[2][0] == "bin" and st[2][1].startswith("Rem") and not any(fb_.dominates(a_, bb) for a_ in arm_heads):
                by_size.append(bb)
    somes = []
    for bb in sorted(fb_.live):
        for st in fb_.stmts(bb):
            if st[0] == "=" and st[1] == [0] and st[2][0] == "agg" and isinstance(st[2][1], dict) and st[2][1].get("variant") == "Some":
                somes.append(bb)
    early = [bb for bb in somes if not all(fb_.dominates(x, bb) for x in by_size)]
    rep.examined(R816, fb_.path + "|candidate-set", sample={"by_name_arms": len(arm_heads), "by_size_tests": len(by_size), "returns_of_the_set": len(somes), "returns_that_can_skip_a_by_size_test": len(early)})
    # table form: one by-size test inside a loop over a constant table of layouts.  "Every test ran" then
    # means: the set is returned only after the loop has been left (no return from inside the loop).
    looped = []
    for bb in by_size:
        for (_s, h_) in fb_.back_edges():
            if bb in fb_.loop_blocks(h_) or bb == h_:
                looped.append((bb, h_))
    if looped:
        for (tb_, h_) in looped:
            lb_ = set(fb_.loop_blocks(h_)) | {h_}
            inside = [bb for bb in somes if bb in lb_]
            after = [bb for bb in somes if bb not in lb_ and fb_.dominates(h_, bb)]
            rep.examined(R816, fb_.path + "|candidate-set|table-loop", sample={"by_size_test_in_loop_at_line": fb_.blocks[tb_].get("l"), "returns_inside_the_loop": len(inside), "returns_after_the_loop": len(after)})
            if inside or len(after) != len(somes):
                rep.violation(R816, fb_.path + "|candidate-set|early-return", "filesz_to_types can return the candidate layouts before the loop over all by-size tests has finished; a file that also fits a later layout of the table is then decoded with the wrong one")
        if not somes:
            raise CheckerError("R8.16: no return of the candidate set")
        early = []
    elif len(by_size) < 10 or not somes:
        raise CheckerError("R8.16: %d by-size tests, %d returns of the candidate set" % (len(by_size), len(somes)))
    if early:
        rep.violation(R816, fb_.path + "|candidate-set|early-return", "filesz_to_types can return the candidate layouts before all by-size tests ran (when the file name already suggested a fitting layout); "
                      "a Linux wtmp whose record count is divisible by 5 or 19 also fits the hinted 40- or 304-byte BSD layouts and is then decoded with those - garbage lines or 'no valid fixed struct'")

    # ------------------------------------------------------------ R8.18 a record's type code is named in its own platform's numbering
    # as_bytes prints ut_type as a name looked up in a constant table.  The platforms number the types
    # differently (FreeBSD: 4 = USER_PROCESS, 7 = DEAD_PROCESS; Linux: 7 = USER_PROCESS; NetBSD swaps
    # OLD_TIME/NEW_TIME relative to Linux), so two arms that belong to different OS families (the module
    # of the struct the arm casts to) cannot both be right when they index a table of the same content.
    # Compared by content, not by name (defect F47: every arm used the Linux table; a FreeBSD login
    # record was printed as 'ut_type OLD_TIME').
    R818 = rep.rule("R8.18", "layout arms of different OS families name the ut_type through different tables")
    fam_tab = {}
    for v_, tb_ in heads_:
        own_ = set(reach_[tb_])
        for tb2, r2 in reach_.items():
            if tb2 != tb_:
                own_ -= r2
        fams_ = set()
        for c in ab_.live_calls():
            if c.bb in own_ and "::as_" in c.d:
                m_ = _re8.search(r"fixedstruct::(\w+?)_\w+::\w+$", (ab_.local_ty(c.dest[0]) or "").lstrip("&"))
                if m_:
                    fams_.add(m_.group(1))
        tabs_ = set()
        for bb in own_:
            for st in ab_.stmts(bb):
                if st[0] == "=" and st[2][0] == "use" and st[2][1][0] == "k" and str(st[2][1][1]).replace(" ", "") in ("&[&str]", "&'static[&'staticstr]") and isinstance(st[2][1][2], list):
                    tabs_.add(tuple(st[2][1][2]))
        if not tabs_:
            continue
        if len(fams_) != 1:
            raise CheckerError("R8.18: arm %s of as_bytes casts to structs of %s" % (v_, sorted(fams_)))
        fam_ = fams_.pop()
        rep.examined(R818, "as_bytes|layout %s" % v_, sample={"layout_discriminant": v_, "os_family": fam_, "label_tables": [list(t_)[:5] for t_ in tabs_]})
        for t_ in tabs_:
            fam_tab.setdefault(t_, set()).add(fam_)
    if len(fam_tab) < 1 or sum(len(x_) for x_ in fam_tab.values()) < 3:
        raise CheckerError("R8.18: ut_type label tables found for %d families" % sum(len(x_) for x_ in fam_tab.values()))
    for t_, fs_ in sorted(fam_tab.items()):
        if len(fs_) > 1:
            rep.violation(R818, "as_bytes|ut_type-labels|shared:%s" % "+".join(sorted(fs_)), "FixedStruct::as_bytes names the ut_type of %s records through one table (%s ...); these platforms number the types differently, "
                          "so records of at least one of them are printed with the wrong type name (a FreeBSD login, type 4, as 'OLD_TIME')" % (" and ".join(sorted(fs_)), ", ".join(t_[:5])))

    # ------------------------------------------------------------ R8.20 every label of a rendered record is followed by the field it names
    # as_bytes writes `label value label value ...`; the labels are the C field names (`ut_pid`, `e_exit`,
    # `ac_uid`).  Where a label's last word is a field name of the record structs, the statements up to the
    # next label (relative source-line order, as in C19 R19.13) read a field of that name; a label followed
    # by its neighbour's value (`e_exit` showing e_termination) prints a record with another field's value.
    R820 = rep.rule("R8.20", "in FixedStruct::as_bytes every label that is a field name is followed by a read of that field")
    fld_names = set()
    for ap_, ad_ in prog.facts.adts.items():
        if ap_.startswith("s4lib::data::fixedstruct::") and ad_.get("kind") == "struct":
            for f_ in ad_["variants"][0]["fields"]:
                fld_names.add(f_["name"])
    labs820, reads820 = [], []
    for bb in sorted(ab_.live):
        for st in ab_.stmts(bb):
            if st[0] != "=" or len(st) < 4 or not isinstance(st[3], int):
                continue
            rv_ = st[2]
            if rv_[0] == "use" and rv_[1][0] == "k" and isinstance(rv_[1][2], str) and "str" in str(rv_[1][1]):
                labs820.append((st[3], rv_[1][2]))
            for m_ in _re8.finditer(r'\[".", \d+, "(\w+)"\]', _json8.dumps(rv_)):
                reads820.append((st[3], m_.group(1)))
    labs820.sort()
    n820 = 0
    for i_, (ln_, txt_) in enumerate(labs820):
        w_ = _re8.findall(r"[A-Za-z_][A-Za-z_0-9]*", txt_)
        if not w_ or w_[-1] not in fld_names:
            continue
        hi_ = labs820[i_ + 1][0] if i_ + 1 < len(labs820) else 10 ** 9
        got_ = set(nm_ for (l2_, nm_) in reads820 if ln_ <= l2_ < hi_ and nm_ in fld_names)
        n820 += 1
        rep.examined(R820, "as_bytes|%s@%d" % (w_[-1], n820), sample={"line": ln_, "label": txt_.strip(), "fields_read_before_the_next_label": sorted(got_)[:5]} if n820 <= 3 or w_[-1] not in got_ else None)
        if got_ and w_[-1] not in got_:
            rep.violation(R820, "as_bytes|label-%s|shows-%s" % (w_[-1], "+".join(sorted(got_))), "FixedStruct::as_bytes (line %d): the label '%s' is followed by the value of %s; the record is printed with another field's value under this name"
                          % (ln_, txt_.strip(), sorted(got_)))
    if n820 < 60:
        raise CheckerError("R8.20: only %d labels that are field names found in as_bytes" % n820)

    # ------------------------------------------------------------ R8.17 the layout is a function of the file (lift of C06 R6.12 at the reader)
    # score_file walks the candidate layouts and keeps the first that reaches the highest score.  The
    # walk order must not come from a randomly seeded hash container (defect F45: a lastlog on which the
    # 292- and the 296-byte layout tie printed different records from run to run).
    import hashorder
    R817 = rep.rule("R8.17", "the candidate layouts are walked in an order that does not change from run to run")
    sfb_ = prog.body("s4lib::readers::fixedstructreader::FixedStructReader::score_file")
    cand_ty = [t_ for t_ in (sfb_.local_ty(i_) for i_ in range(1, sfb_.j.get("argc", 0) + 1)) if t_ and "FixedStructType" in t_]
    if not cand_ty:
        raise CheckerError("R8.17: score_file takes no collection of FixedStructType")
    sites817 = hashorder.analyse(prog, only=lambda p_: p_.startswith("s4lib::readers::fixedstructreader::") or p_.startswith("s4lib::data::fixedstruct::"))
    rep.examined(R817, sfb_.path + "|candidates", sample={"candidate_collection": cand_ty[0], "hash_iterations_in_the_reader": [(x_["fn"].split("::")[-1], x_["line"], x_["verdict"]) for x_ in sites817]})
    for s_ in sites817:
        rep.examined(R817, "%s|%s" % (s_["fn"], s_["container"]), sample={"function": s_["fn"], "line": s_["line"], "verdict": s_["verdict"], "why": s_["why"][:2]})
        if s_["verdict"] == "sensitive":
            rep.violation(R817, "%s|%s|hash-order" % (s_["fn"], s_["container"]), "%s (line %s) walks a %s (randomly seeded: the order differs from run to run) and %s; "
                          "which record layout a file is read with then depends on the run" % (s_["fn"], s_["line"], s_["container"], "; ".join(s_["why"][:2])))

    return rep.finish(
        "Static necessary-condition check of the accounting-record reader: the ordering index cannot lose records with equal times (key "
        "contains the record offset), the index is walked minimum-first in map order removing the served key, the prefilter loop accepts "
        "exactly the window and skips only null/undecodable records, the per-layout size/offset tables agree with the compiler's layout "
        "of the struct each layout is cast to, and the rendered record ends at its newline.",
        ["field rendering in FixedStruct::as_bytes", "score-based layout detection on real files", "block-level reads of the records"])
