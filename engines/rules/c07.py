"""C07 — malformed input cannot crash, hang, or disturb other sources.

General panic-freedom is not statically decidable here; decided clauses:
  R7.1 the date converter cannot panic on any line (C04 R4.2 over all strings of all table regexes).
  R7.2 no unbounded C-string read of a fixed-size record field on a worker-reachable release path.
  R7.3 unsafe record reads are length-guarded (read_unaligned dominated by the length check; the
       time-value read is bounded by its caller with the layout's own size).
  R7.4 errors travel on the channel: the worker protocol holds on every path (C06 R6.1), so an
       input error never silences the other sources.
  R7.5 (information) environment failures that are unwrapped.
  R7.6 decoder read loops cannot spin on a zero-byte read (C05 R5.1c).
Does not decide: decoder crates' robustness, arithmetic overflow in offset code, OOM, timing.
"""
import contextlib
import io

import c04
import c05
import c06
from common import Report
from mir import place_local as place_local_
from mir import CheckerError, op_local

WORKER = "s4::exec_fileprocessor_thread"


def _sub(prog, rep, mod, pid):
    sub = Report(pid, "quick", dict(rep.meta))
    sub.finish = lambda *a, **k: 0
    with contextlib.redirect_stdout(io.StringIO()):
        mod.run(prog, sub, "quick")
    return sub


def run(prog, rep, tier):
    R71 = rep.rule("R7.1", "date converter cannot panic on any matched line (from C04 R4.2)")
    R72 = rep.rule("R7.2", "no unbounded CStr::from_ptr on a fixed-size record field (worker-reachable)")
    R73 = rep.rule("R7.3", "unsafe record reads are dominated by the length check")
    R74 = rep.rule("R7.4", "input errors are reported through the worker protocol; dismissed sources are not awaited (from C06 R6.1, R6.8)")
    R76 = rep.rule("R7.6", "decoder read loops make progress or stop (from C05 R5.1b/c)")

    # ------------------------------------------------------------ R7.1 / R7.4 / R7.6 : lifted verdicts
    s4 = _sub(prog, rep, c04, "C04")
    for (rid, key, what, detail) in s4.violations:
        if rid == "R4.2":
            rep.violation(R71, key.split("|", 1)[1], what + " [the converter panics; with panic=abort the whole run dies]")
    n = s4.rules.get("R4.2", {}).get("examined", 0)
    for s in s4.rules.get("R4.2", {}).get("samples", [])[:3]:
        rep.examined(R71, "sample|" + str(s)[:50], sample=s)
    rep.rules[R71]["examined"] += max(0, n - 3)
    rep.rules[R71]["nontrivial"] += max(0, n - 3)
    s6 = _sub(prog, rep, c06, "C06")
    for (rid, key, what, detail) in s6.violations:
        if rid in ("R6.1", "R6.8"):
            rep.violation(R74, key.split("|", 1)[1], what)
    for s in s6.rules.get("R6.1", {}).get("samples", []) + s6.rules.get("R6.8", {}).get("samples", []):
        rep.examined(R74, "sample|" + str(s)[:60], sample=s)
    import c08 as _c08w
    s8 = _sub(prog, rep, _c08w, "C08")
    R712 = rep.rule("R7.12", "worker loops advance past damaged input instead of repeating the same step (from C08 R8.6, C06 R6.7, C11 R11.10/R11.8)")
    for (rid, key, what, detail) in s8.violations:
        if rid == "R8.6":
            rep.violation(R712, key.split("|", 1)[1], what + " [a damaged record makes the worker spin: nothing more is printed from any source]")
    for (rid, key, what, detail) in s6.violations:
        if rid == "R6.7":
            rep.violation(R712, key.split("|", 1)[1], what)
    import c11 as _c11w
    s11 = _sub(prog, rep, _c11w, "C11")
    for (rid, key, what, detail) in s11.violations:
        if rid in ("R11.10", "R11.8"):
            rep.violation(R712, key.split("|", 1)[1], what)
    for k_ in sorted(s8.rules.get("R8.6", {}).get("keys", ())) + sorted(s6.rules.get("R6.7", {}).get("keys", ())) + sorted(s11.rules.get("R11.10", {}).get("keys", ())):
        rep.examined(R712, k_, sample={"instance": k_})
    s5 = _sub(prog, rep, c05, "C05")
    for (rid, key, what, detail) in s5.violations:
        if rid in ("R5.1c", "R5.1b"):
            rep.violation(R76, key.split("|", 1)[1], what)
    for rid in ("R5.1c", "R5.1b"):
        for s in s5.rules.get(rid, {}).get("samples", []):
            rep.examined(R76, "%s|%s" % (rid, str(s)[:60]), sample=s)

    # ------------------------------------------------------------ R7.2
    reach = prog.reachable_fns([WORKER])
    fams = {}
    for p in sorted(reach):
        b = prog.body(p, required=False)
        if b is None:
            continue
        for c in b.live_calls():
            if not (c.d.endswith("CStr::from_ptr")):
                continue
            # pointer derived from a fixed-size array field of self?
            arr = None
            for o in b.origins(c.args[0], through_calls=("::as_ptr", "::cast", "::as_mut_ptr", "::index", "::as_slice", "::deref")):
                if o[0] == "arg" and o[2]:
                    fld = [x for x in o[2] if x not in ("*", "&")]
                    if fld:
                        arr = fld[0]
            if arr is None:
                rep.examined(R72, p + "|cstr", nontrivial=False)
                continue
            # array type of that field
            selfty = b.local_ty(1).lstrip("&").replace("mut ", "")
            a = prog.facts.adts.get(selfty)
            fty = None
            if a:
                for f in a["variants"][0]["fields"]:
                    if f["name"] == arr:
                        fty = f["ty"]
            if not fty or not fty.startswith("["):
                rep.examined(R72, p + "|cstr", nontrivial=False)
                continue
            # dominated by a NUL-containment check of that array? (contains(&0) / memchr / iter().any)
            guarded = False
            for g in b.live_calls():
                if g.d.split("::")[-1] in ("contains", "memchr", "position", "any", "from_bytes_until_nul") and b.dominates(g.bb, c.bb):
                    guarded = True
            fam = p.rsplit("::", 1)[0]
            fams.setdefault(fam, []).append((p.rsplit("::", 1)[1], fty, guarded))
    for fam, items in sorted(fams.items()):
        bad = [i for i in items if not i[2]]
        rep.examined(R72, fam, sample={"record_type": fam, "helpers": [i[0] for i in items], "field_types": sorted(set(i[1] for i in items)), "unguarded": len(bad)})
        if bad:
            rep.violation(R72, "%s|cstr-from-ptr" % fam,
                          "%s: %s read the fixed-size fields %s with CStr::from_ptr, which scans for a NUL beyond the field when the file's bytes contain none (heap over-read on arbitrary content; reachable from the worker through score_fixedstruct/as_bytes)" % (
                              fam, [i[0] for i in bad], sorted(set(i[1] for i in bad))))
    if len(fams) < 5:
        raise CheckerError("only %d record types with C-string helpers found" % len(fams))

    # ------------------------------------------------------------ R7.3
    bf = prog.body("s4lib::data::fixedstruct::buffer_to_fixedstructptr")
    reads = [c for c in bf.live_calls() if "read_unaligned" in c.d]
    lens = [c for c in bf.live_calls() if c.d.endswith("<impl [T]>::len") or c.d.endswith("::len")]
    szc = [c for c in bf.live_calls() if c.d.endswith("FixedStructType::size")]
    guard_false = None
    for bb in sorted(bf.live):
        t = bf.term(bb)
        if t[0] != "switch":
            continue
        l = op_local(t[1])
        for d in bf.defs.get(l, []):
            if d[1] != "call" and d[2][0] == "bin" and d[2][1] == "Lt":
                oa = bf.origins(d[2][2])
                ob = bf.origins(d[2][3])
                if any(x[0] == "call" and x[2].endswith("::len") for x in oa) and any(x[0] == "call" and x[2].endswith("FixedStructType::size") for x in ob):
                    arms = {int(v): tb for v, tb in t[2]}
                    guard_false = arms.get(0)
                    true_t = t[3]
                    # the too-short arm must not reach any read
                    if any(r.bb in bf.reachable(true_t, {guard_false}) for r in reads):
                        guard_false = None
    rep.examined(R73, bf.path + "|length-guard", sample={"read_unaligned_sites": len(reads), "guard_found": guard_false is not None})
    if not reads:
        raise CheckerError("buffer_to_fixedstructptr: no read_unaligned")
    if guard_false is None:
        rep.violation(R73, bf.path + "|length-guard", "buffer_to_fixedstructptr: the record reads are not guarded by `buffer.len() < size()`; a truncated file would be read past its end")
    else:
        for r in reads:
            if not bf.dominates(guard_false, r.bb):
                rep.violation(R73, bf.path + "|length-guard", "buffer_to_fixedstructptr: read_unaligned at line %d is not dominated by the length check" % r.line)
                break
    # time-value read: the caller passes buffer[..size_tv()] of the same layout value
    pb = prog.body("s4lib::readers::fixedstructreader::FixedStructReader::preprocess_timevalues")
    tvc = [c for c in pb.live_calls() if c.d.endswith("::tv_pair_from_buffer")]
    okb = False
    if len(tvc) == 1:
        so = pb.origins(tvc[0].args[1], through_calls=("::index_mut", "::index", "::deref", "::deref_mut"))
        # the slice comes from index_mut(buffer, RangeTo{end: size_tv()})
        for c in pb.live_calls():
            if c.d.endswith("::index_mut") or c.d.endswith("::index"):
                ro = pb.origins(c.args[1])
                for x in ro:
                    if x[0] == "agg":
                        st = pb.stmts(x[1])[x[2]]
                        if isinstance(st[2][1], dict) and st[2][1].get("adt", "").endswith("RangeTo"):
                            eo = pb.origins(st[2][2][0])
                            if any(y[0] == "call" and y[2].endswith("FixedStructType::size_tv") for y in eo):
                                okb = True
    rep.examined(R73, pb.path + "|tv-slice", sample={"slice_is_buffer[..size_tv()]": okb, "note": "size_tv() == size of the type read: C08 R8.4"})
    if not okb:
        rep.violation(R73, pb.path + "|tv-slice", "preprocess_timevalues: the time-value bytes handed to tv_pair_from_buffer are not the buffer prefix of length size_tv(); the unsafe read inside could leave the buffer")

    # ------------------------------------------------------------ R7.5 information
    obs = []
    for p in sorted(reach | prog.reachable_fns(["s4::main"])):
        b = prog.body(p, required=False)
        if b is None or not (p.startswith("s4lib::") or p.startswith("s4::")):
            continue
        for c in b.live_calls():
            if c.d.endswith("Result::<T, E>::unwrap") and "std::io::Error" in (c.callee.get("self") or c.f) and "File" in (c.callee.get("self") or c.f):
                obs.append("%s:%d" % (p.split("::")[-1], c.line))
    if obs:
        rep.info("environment failures unwrapped (unreadable-file scenario, outside the property's arbitrary-content quantifier): %s" % sorted(set(obs))[:6])

    # ------------------------------------------------------------ R7.17 path expansion reports a file it cannot open; it does not unwrap
    # process_path and its helpers run on the main thread for every argument before a single message is
    # printed.  A panic there (release: abort) takes the whole invocation down: an unreadable `.tar` beneath
    # a directory made `s4 dir` print nothing at all (exit 134; defect F56).  No `unwrap`/`expect` on the
    # result of opening a file in anything reachable from process_path.
    R717 = rep.rule("R7.17", "path expansion never unwraps the result of opening a file")
    n717 = 0
    pp_reach = prog.reachable_fns(["s4lib::readers::filepreprocessor::process_path"])
    for p_ in sorted(pp_reach):
        eb_ = prog.body(p_, required=False)
        if eb_ is None or not p_.startswith("s4lib::"):
            continue
        n717 += 1
        for c in eb_.live_calls():
            if c.d.split("::")[-1] in ("unwrap", "expect") and "Result" in c.d and "std::fs::File" in (c.callee.get("self") or c.f) and "std::io::Error" in (c.callee.get("self") or c.f):
                rep.violation(R717, "%s|open-unwrapped" % p_, "%s (line %d) unwraps the result of opening a file while the arguments are being expanded; a file that cannot be opened (permissions, removed since it was listed) "
                              "aborts the run before anything is printed - every other source loses its output" % (p_.split("::")[-1], c.line))
    rep.examined(R717, "process_path|reach", sample={"functions_reachable_from_process_path": n717})
    if n717 < 3:
        raise CheckerError("R7.17: process_path reaches only %d library functions" % n717)

    # ------------------------------------------------------------ R7.10 allocations are sized by the block size, never by a size the file declares
    # Sizes stored in archive/compression headers are input (a tar header may claim 2^62 bytes).  Every
    # buffer the readers allocate in the worker threads is sized by the block size (blocksz, or
    # blocksz_at_blockoffset), a constant, or the length of data already in memory; a buffer sized by a
    # declared file size makes the allocator abort the whole process.
    import re as _re710
    R710 = rep.rule("R7.10", "buffers allocated while reading are sized by the block size or by data at hand, not by a declared file size")
    n710 = 0
    DECL = ("filesz", "filesz_actual", "size", "uncompressed_size", "entry_size", "header_size", "len_total", "filesz_header")
    for p_ in sorted(reach):
        ab = prog.body(p_, required=False)
        if ab is None or not p_.startswith("s4lib::readers::"):
            continue
        for c in ab.live_calls():
            last = c.d.split("::")[-1]
            if last not in ("from_elem", "with_capacity", "resize", "reserve", "reserve_exact", "with_capacity_in", "from_elem_in") or not ("Vec" in c.d or "vec" in c.d or "String" in c.d):
                continue
            szarg = c.args[-1] if last.startswith("from_elem") else (c.args[0] if last.startswith("with_capacity") else (c.args[1] if len(c.args) > 1 else None))
            if szarg is None:
                continue
            n710 += 1
            srcs = set()
            declared = []
            if szarg[0] == "k":
                srcs.add("const")
            else:
                for x in ab.origins(szarg, through_calls=("::try_into", "::unwrap", "::into", "::try_from")):
                    if x[0] == "call":
                        nm_ = x[2].split("::")[-1]
                        srcs.add("call:" + nm_)
                        if nm_ in ("min", "clamp"):
                            # min(declared, bound): bounded when another operand is a constant or derives from the block size
                            mc_ = [z for z in ab.calls if z.bb == x[1]][0]
                            okb = False
                            for a_ in mc_.args:
                                if ab.eval_int(a_) is not None:
                                    okb = True
                                elif a_[0] != "k" and any(y[0] == "call" and "blocksz" in y[2].split("::")[-1] or (y[0] in ("arg", "local") and any("blocksz" in str(q) for q in y[-1])) for y in ab.origins(a_)):
                                    okb = True
                            if not okb:
                                for a_ in mc_.args:
                                    if a_[0] != "k":
                                        for y in ab.origins(a_):
                                            if y[0] == "call" and y[2].split("::")[-1] in DECL:
                                                declared.append(y[2].split("::")[-1] + "() via min")
                            continue
                        if nm_ in ("max",):
                            # max(block size, x): x decides whenever it is larger - judge every operand
                            mc_ = [z for z in ab.calls if z.bb == x[1]][0]
                            for a_ in mc_.args:
                                if a_[0] == "k":
                                    continue
                                for y in ab.origins(a_, through_calls=("::try_into", "::unwrap", "::into", "::try_from")):
                                    if y[0] == "call":
                                        yc_ = [z for z in ab.calls if z.bb == y[1]][0]
                                        from_file = any(("BufReader<" in str(t_) or "std::fs::File" in str(t_) or "Decoder<" in str(t_)) for t_ in (yc_.callee.get("aty") or []))
                                        if y[2].split("::")[-1] in DECL or from_file:
                                            declared.append(y[2].split("::")[-1] + "() via max")
                            continue
                        # a number decoded from the file's own bytes (a function handed the file reader)
                        oc_ = [z for z in ab.calls if z.bb == x[1]][0]
                        if (oc_.d.startswith("s4lib::") or oc_.d.startswith("s4::")) and any(("BufReader<" in str(t_) or "std::fs::File" in str(t_) or "Decoder<" in str(t_)) for t_ in (oc_.callee.get("aty") or [])) \
                                and _re710.search(r"(u64|u32|usize|i64|Option<u64>|Option<usize>)", ab.local_ty(oc_.dest[0]) or ""):
                            declared.append(nm_ + "() (decoded from the file)")
                        # `size()` of a record *layout* (FixedStructType::size, a constant per type) is not a size the file declares
                        layout_const = nm_ == "size" and "FixedStructType" in x[2]
                        if (nm_ in DECL or nm_ in ("filesz", "filesz_actual", "size")) and not layout_const:
                            declared.append(nm_ + "()")
                    elif x[0] in ("arg", "local"):
                        fl_ = [q for q in x[-1] if isinstance(q, str) and q not in ("*", "&")]
                        srcs.add("%s:%s" % (x[0], ".".join(fl_)))
                        declared += [q for q in fl_ if q in DECL]
                    else:
                        srcs.add(x[0])
            rep.examined(R710, "%s|%s@%s" % (p_, last, ",".join(sorted(srcs))), sample={"site": p_.split("::")[-1], "allocation": last, "line": c.line, "size_from": sorted(srcs)})
            if declared:
                rep.violation(R710, "%s|%s|declared-size" % (p_, last), "%s (line %d): a buffer is allocated with a size taken from %s, which the file itself declares; a tar member whose header claims 2^62 bytes "
                              "makes the allocation fail and aborts the process (exit 134), and every other source loses its output" % (p_.split("::")[-1], c.line, sorted(set(declared))))
    if n710 < 15:
        raise CheckerError("R7.10: only %d allocation sites found in the readers (25 on the pinned tree)" % n710)

    # ------------------------------------------------------------ R7.9 stored modification times convert without panicking
    # The modification time of a tar member is a number read from the archive header (up to 2^63);
    # it reaches SystemTime and chrono through seconds_to_systemtime / systemtime_to_datetime in the
    # worker threads.  chrono's `DateTime<Utc>: From<SystemTime>` and `Option::unwrap` on
    # SystemTime::checked_add panic outside their range, and panic=abort ends the whole run.
    R79 = rep.rule("R7.9", "conversions of header-stored modification times are total (no panicking conversion)")
    DTm = "s4lib::data::datetime::"
    br_m = prog.body("s4lib::readers::blockreader::BlockReader::new", required=False)
    conv = [DTm + "seconds_to_systemtime", DTm + "systemtime_to_datetime"]
    users = sorted(p for p, cs in prog.callgraph().items() if any(c in cs for c in conv) and "_tests" not in p and (p in reach or p in prog.reachable_fns(["s4::main"])))
    for fn in conv:
        fb = prog.body(fn)
        bad = []
        for c in fb.live_calls():
            nm = c.d
            if ("From<std::time::SystemTime>" in nm and "chrono" in nm) or (nm.endswith("Into<U>>::into") and "SystemTime" in str(fb.local_ty(op_local(c.args[0])) if c.args and op_local(c.args[0]) is not None else "")):
                bad.append(("DateTime<Utc>::from(SystemTime)", c.line))
            if nm.split("::")[-1] in ("unwrap", "expect") and c.args:
                for o in fb.origins(c.args[0]):
                    if o[0] == "call" and o[2].split("::")[-1] in ("checked_add", "checked_sub", "timestamp_opt", "single", "from_timestamp", "duration_since"):
                        bad.append(("%s().%s()" % (o[2].split("::")[-1], nm.split("::")[-1]), c.line))
        rep.examined(R79, fn, sample={"converter": fn.split("::")[-1], "worker_or_main_callers": [u.split("::")[-1] for u in users][:8], "panicking_conversions": bad})
        for what_, line_ in bad[:1]:
            rep.violation(R79, fn, "%s: %s (line %d) panics for a time outside its range; a tar member whose header stores a huge modification time (e.g. 2^62) "
                          "aborts the run (exit 134), and every other source loses its output" % (fn.split("::")[-1], what_, line_))
    if not users:
        raise CheckerError("R7.9: the modification-time converters have no caller reachable from the workers or main")

    # ------------------------------------------------------------ R7.11 names and times taken from archive members are made safe before std sees them
    R711 = rep.rule("R7.11", "archive-member data is sanitised before it reaches a panicking std API (thread name, SystemTime arithmetic, recursive classification)")
    # (a) thread names: std panics on an interior NUL; a PAX path may contain one
    plb = prog.body("s4::processing_loop")
    nmc = [c for c in plb.live_calls() if c.d.endswith("thread::Builder::name")]
    for c in nmc:
        o_ = plb.origins(c.args[1], through_calls=("::into", "Clone>::clone", "::clone", "::to_string", "::to_owned"))
        cleaned = any(x[0] == "call" and x[2].split("::")[-1] in ("replace", "replacen", "retain", "filter", "escape_default", "escape_debug", "to_string_lossy") for x in o_)
        if cleaned:
            # the replace must be about NUL
            cleaned = False
            for x in o_:
                if x[0] == "call" and x[2].split("::")[-1] in ("replace", "replacen"):
                    rc = [z for z in plb.calls if z.bb == x[1]][0]
                    ks = [a[2] for a in rc.args if a[0] == "k"]
                    if any(str(k_) in ("\x00", "\0", "'\\0'", "'\\x00'") or k_ == "\u0000" or str(k_).strip("'") in ("\\0", "\\x00", "\x00") for k_ in ks):
                        cleaned = True
                elif x[0] == "call" and x[2].split("::")[-1] in ("escape_default", "escape_debug"):
                    cleaned = True
        rep.examined(R711, "s4::processing_loop|thread-name", sample={"line": c.line, "nul_removed_or_escaped": cleaned})
        if not cleaned:
            rep.violation(R711, "s4::processing_loop|thread-name", "processing_loop names the worker thread after the file (line %d) without removing NUL bytes; a tar member whose PAX path contains a NUL makes "
                          "thread::Builder::name panic in the main thread: exit 134, nothing printed" % c.line)
    if not nmc:
        raise CheckerError("R7.11: thread::Builder::name call not found")
    # (b) SystemTime + Duration::from_secs(header value) overflows for large values
    for p_ in sorted(reach):
        ab = prog.body(p_, required=False)
        if ab is None or not p_.startswith("s4lib::"):
            continue
        for c in ab.live_calls():
            if "std::time::SystemTime" in c.d and c.d.endswith("::add") or (c.d.endswith("Add<std::time::Duration>>::add") and "SystemTime" in c.d):
                big = False
                for x in ab.origins(c.args[1]):
                    if x[0] == "call" and x[2].split("::")[-1] in ("from_secs", "from_secs_f64", "new"):
                        dc = [z for z in ab.calls if z.bb == x[1]][0]
                        if dc.args and ab.eval_int(dc.args[0]) is None:
                            big = True
                rep.examined(R711, "%s|systemtime-add" % p_, sample={"site": p_.split("::")[-1], "line": c.line, "seconds_not_constant": big})
                if big:
                    rep.violation(R711, "%s|systemtime-add" % p_, "%s (line %d): `SystemTime + Duration::from_secs(x)` with x taken from the input panics when the sum does not fit (tar member with mtime 2^64-1: "
                                  "'overflow when adding duration to instant', exit 134); use the checked conversion" % (p_.split("::")[-1], c.line))
    # (c) member names are bounded before the recursive classification
    tb_ = prog.body("s4lib::readers::filepreprocessor::process_path_tar")
    cls = [c for c in tb_.live_calls() if c.d.endswith("::path_to_filetype") or c.d.endswith("::pathbuf_to_filetype")]
    if not cls:
        raise CheckerError("R7.11: process_path_tar does not classify member names (idiom not recognised)")
    lens = [c for c in tb_.live_calls() if c.d.split("::")[-1] == "len" and ("OsStr" in c.d or "str" in c.d or "Path" in c.d or "String" in c.d)]
    bounded = False
    for sw in sorted(tb_.live):
        t_ = tb_.term(sw)
        if t_[0] != "switch":
            continue
        os_ = tb_.origins(t_[1])
        for x in os_:
            if x[0] == "bin":
                st_ = tb_.stmts(x[1])[x[2]]
                if st_[2][1] in ("Gt", "Ge", "Lt", "Le"):
                    has_len = any(y[0] == "call" and y[1] in [l_.bb for l_ in lens] for a in (st_[2][2], st_[2][3]) if a[0] != "k" for y in tb_.origins(a))
                    has_const = any(tb_.eval_int(a) is not None for a in (st_[2][2], st_[2][3]))
                    if has_len and has_const and all(tb_.dominates(sw, c.bb) for c in cls):
                        bounded = True
    rep.examined(R711, tb_.path + "|member-name-length", sample={"classification_calls": len(cls), "name_length_tested_against_a_constant_first": bounded})
    if not bounded:
        rep.violation(R711, tb_.path + "|member-name-length", "process_path_tar classifies member names of any length; classification recurses once per dot-separated component, so a PAX path with 200000 numeric "
                      "suffixes overflows the main thread's stack (exit 134, nothing printed)")

    # ------------------------------------------------------------ R7.8
    import signedidx
    R78 = rep.rule("R7.8", "a signed record field converted to usize (table index) is guarded non-negative")
    nsi = 0
    for (b_, bb_, line_, ty_, root_, guards_) in signedidx.sites(prog, lambda p: p.startswith("s4lib::") and "_tests" not in p):
        nsi += 1
        inst = "%s|%s" % (b_.path, "|".join(str(x) for x in root_ if not isinstance(x, int)) if root_ else "?")
        rep.examined(R78, inst, sample={"site": b_.path, "line": line_, "type": ty_, "value": str(root_), "guards": guards_})
        if not guards_:
            rep.violation(R78, inst, "%s (line %s): a %s value is converted with `as usize` and used as an index without a test that it is not negative; a corrupted record with a negative value "
                          "turns into a huge index, the bounds check panics and panic=abort ends the whole run" % (b_.path, line_, ty_))
    if nsi < 5:
        raise CheckerError("R7.8: only %d signed-to-usize conversions found (5 counted on the pinned tree)" % nsi)

    # ------------------------------------------------------------ R7.7 (shared instant-preservation lint)
    import instant
    R77i = rep.rule("R7.7", "conversions between the window's datetime and the record's tv pair preserve the instant")
    n_sites = instant.check(prog, rep, R77i, lambda p: ('readers::fixedstructreader' in p or 'data::fixedstruct' in p) and '_tests' not in p, "the -a/-b window applied to utmp/acct records shifts by the filter's own UTC offset")
    if n_sites < 4:
        raise CheckerError("R7.7: only %d chrono conversion sites found in scope (expected at least 4)" % n_sites)

    # ------------------------------------------------------------ R7.13 journal field payloads are never cut at a fixed position without a length test
    # A field payload comes from the journal file as libsystemd found it: after damage it may lack its
    # '=' or be empty.  Slicing it with a constant bound (`x[1..]`, `x[..4]`) panics when the payload is
    # shorter - and a panic aborts the whole process (panic = "abort"), so every other source loses its
    # output.  Positions returned by a search (`find_byte`) or clamped with `min(.., len)` are fine.
    import slices as _sl7
    R713 = rep.rule("R7.13", "constant slice bounds on journal field payloads are dominated by a length test")
    n713 = 0
    for p_ in sorted(prog.facts.bodies):
        if not p_.startswith("s4lib::readers::journalreader::JournalReader::") or "{closure" in p_:
            continue
        jb = prog.body(p_)
        for (c, _base, st_, en_) in _sl7.index_calls(jb):
            n713 += 1
            consts = [x for x in (st_, en_) if x is not None and x[0] == "k" and isinstance(x[1], int) and x[1] >= 1]
            if not consts:
                continue
            guarded = False
            for sbb in sorted(jb.live):
                t = jb.term(sbb)
                if t[0] == "switch" and sbb != c.bb and jb.dominates(sbb, c.bb):
                    for o_ in jb.origins(t[1], through_calls=("ops::Not>::not",)):
                        if o_[0] == "call" and o_[2].split("::")[-1] in ("len", "is_empty", "starts_with", "first", "get", "split_first", "strip_prefix"):
                            guarded = True
                        if o_[0] == "bin":
                            s2 = jb.stmts(o_[1])[o_[2]]
                            for x in (s2[2][2], s2[2][3]):
                                if x[0] != "k" and any(y[0] == "call" and y[2].split("::")[-1] == "len" for y in jb.origins(x)):
                                    guarded = True
            rep.examined(R713, "%s|const-bound" % p_, sample={"fn": p_.split("::")[-1], "line": c.line, "constant_bounds": [x[1] for x in consts], "length_test_dominates": guarded})
            if not guarded:
                rep.violation(R713, "%s|const-bound|unguarded" % p_, "%s (line %d) slices a journal field payload at the fixed position %d with no length test before it; a damaged entry whose payload is shorter "
                              "(a field that lost its '=') panics, and with panic=abort the process dies (exit 134) and no other source is printed" % (p_.split("::")[-1], c.line, consts[0][1]))
    rep.examined(R713, "journalreader|range-index-sites", nontrivial=False, sample={"range_index_calls_in_JournalReader": n713})
    if n713 < 8:
        raise CheckerError("R7.13: only %d range-index calls in JournalReader (12 on the pinned tree)" % n713)

    # ------------------------------------------------------------ R7.14 threshold tables that are looked up with unwrap() have no gap
    # The stage-1 analysis looks the length of block zero up in range tables and unwraps the result.  The
    # ranges therefore have to tile 0..max: a gap (an exclusive end one short of the next start) is a
    # panic - and with panic=abort the end of the whole run - for exactly the files of that length.
    import c12 as _c12
    R714 = rep.rule("R7.14", "the ranges of every stage-1 threshold table tile 0..max without a gap")
    tabs = _c12.threshold_tables(prog)
    if len(tabs) < 2:
        raise CheckerError("R7.14: %d threshold tables found (expected the line and the sysline table)" % len(tabs))
    for tp, ents in sorted(tabs.items()):
        es = sorted((e for e in ents if e[0] is not None), key=lambda e: e[0])
        gaps = []
        cur = 0
        for st_, en_, _v, _ln in es:
            if st_ > cur:
                gaps.append((cur, st_))
            cur = 18446744073709551615 if en_ == "max" else max(cur, en_ if en_ is not None else cur)
        if cur != 18446744073709551615:
            gaps.append((cur, "max"))
        rep.examined(R714, tp.replace("::__static_ref_initialize", ""), sample={"table": tp.split("::")[-2], "ranges": [(a, b_) for a, b_, _v, _l in es], "gaps": gaps})
        if gaps:
            rep.violation(R714, tp.replace("::__static_ref_initialize", "") + "|gap", "%s has no entry for block lengths %s..%s (range ends are exclusive); the lookup is unwrapped, so a file whose block zero has such a length "
                          "(e.g. exactly %s bytes, or any larger file read with --blocksz %s) panics and the process aborts before any source is printed" % (tp.split("::")[-2], gaps[0][0], gaps[0][1], gaps[0][0], gaps[0][0]))

    # ------------------------------------------------------------ R7.15 accessors that panic on a placeholder summary are called only behind the placeholder test
    # A file whose reader could not even be constructed (truncated .gz, random bytes named .xz, a bogus
    # .evtx) is reported with a `Summary` whose reader data is the placeholder variant `Dummy`.  Several
    # accessors of Summary *panic* on that variant (release builds abort: SIGABRT, the other sources lose
    # their output).  Every call of such an accessor from outside Summary lies behind the false edge of
    # an `is_dummy()` test.  The accessor set is computed: a function of Summary whose match on
    # `readerdata` has only panicking paths in the Dummy arm, or that calls such a function unguarded.
    R715 = rep.rule("R7.15", "Summary accessors that panic on the Dummy placeholder are reached only behind a failed is_dummy() test")
    SUMP = "s4lib::readers::summary::Summary::"
    srd = prog.facts.adts.get("s4lib::readers::summary::SummaryReaderData")
    if not srd:
        raise CheckerError("R7.15: enum SummaryReaderData not found")
    dummy_idx = [i_ for i_, v_ in enumerate(srd["variants"]) if v_["name"] == "Dummy"]
    if not dummy_idx:
        raise CheckerError("R7.15: SummaryReaderData has no placeholder variant named Dummy")
    dummy_idx = dummy_idx[0]

    def _panics_only(b_, bb_):
        r_ = b_.reachable(bb_)
        return not any(b_.term(x_)[0] == "return" for x_ in r_) and any(b_.term(x_)[0] == "call" and "panic" in b_.term(x_)[1].get("d", "") for x_ in r_)
    panicky = set()
    for sb_ in prog.bodies():
        if not sb_.path.startswith(SUMP) or "{closure" in sb_.path:
            continue
        for bb_ in sorted(sb_.live):
            t_ = sb_.term(bb_)
            if t_[0] != "switch":
                continue
            dl_ = op_local(t_[1])
            src_ = [st for st in sb_.stmts(bb_) if st[0] == "=" and st[1] == [dl_] and st[2][0] == "discr"]
            if not src_:
                continue
            pl_ = src_[0][2][1]
            on_rd_ = any(isinstance(e_, list) and e_[0] == "." and e_[2] == "readerdata" for e_ in pl_)
            if not on_rd_:
                # `match &self.readerdata`: the discriminant is read through a reference temporary
                for (db_, di_, drv_) in sb_.defs.get(pl_[0], []):
                    if di_ != "call" and drv_[0] == "ref" and any(isinstance(e_, list) and e_[0] == "." and e_[2] == "readerdata" for e_ in drv_[2]):
                        on_rd_ = True
            if not on_rd_:
                continue
            arm_ = [tb for v_, tb in t_[2] if v_ == dummy_idx]
            if arm_ and _panics_only(sb_, arm_[0]):
                panicky.add(sb_.path)
    changed = True
    while changed:
        changed = False
        for sb_ in prog.bodies():
            if not sb_.path.startswith(SUMP) or sb_.path in panicky or "{closure" in sb_.path:
                continue
            for c in sb_.live_calls():
                if c.d in panicky and not any(g_.d.endswith("::is_dummy") and sb_.dominates(g_.bb, c.bb) for g_ in sb_.live_calls()):
                    panicky.add(sb_.path)
                    changed = True
                    break
    rep.examined(R715, "Summary|panicking-accessors", sample={"accessors_that_panic_on_Dummy": sorted(x_.split("::")[-1] for x_ in panicky)})
    if len(panicky) < 1:
        raise CheckerError("R7.15: no Summary accessor panics on Dummy (anchor: Summary::blockreader)")

    def _false_edge(b_, g_):
        """the block entered when the is_dummy() call g_ returned false"""
        r_ = place_local_(g_.dest)
        bb_ = g_.target
        neg_ = False
        for _ in range(4):
            if bb_ is None:
                return None
            for st in b_.stmts(bb_):
                if st[0] == "=" and st[2][0] == "un" and st[2][1] == "Not" and op_local(st[2][2]) == r_:
                    r_ = st[1][0]
                    neg_ = not neg_
                elif st[0] == "=" and st[2][0] == "use" and op_local(st[2][1]) == r_ and len(st[1]) == 1:
                    r_ = st[1][0]
            t_ = b_.term(bb_)
            if t_[0] == "switch" and op_local(t_[1]) == r_:
                zero_ = [tb for v_, tb in t_[2] if v_ == 0]
                return (t_[3] if neg_ else (zero_[0] if zero_ else None))
            if t_[0] == "goto":
                bb_ = t_[1]
                continue
            return None
        return None
    n715 = 0
    for sb_ in prog.bodies():
        if not (sb_.path.startswith("s4::") or sb_.path.startswith("s4lib::")) or "_tests" in sb_.path or sb_.path.startswith(SUMP):
            continue
        guards_ = [g_ for g_ in sb_.live_calls() if g_.d.endswith("::is_dummy")]
        for c in sb_.live_calls():
            if c.d not in panicky:
                continue
            n715 += 1
            ok_ = False
            for g_ in guards_:
                if not sb_.dominates(g_.bb, c.bb):
                    continue
                fe_ = _false_edge(sb_, g_)
                if fe_ is not None and (fe_ == c.bb or sb_.must_pass(g_.bb, c.bb, [fe_])):
                    ok_ = True
                    break
            rep.examined(R715, "%s|%s#%d" % (sb_.path, c.d.split("::")[-1], n715), sample={"caller": sb_.path, "line": c.line, "accessor": c.d.split("::")[-1], "behind_failed_is_dummy_test": ok_})
            if not ok_:
                rep.violation(R715, "%s|%s|unguarded" % (sb_.path, c.d.split("::")[-1]), "%s (line %d) calls Summary::%s(), which panics when the summary is the Dummy placeholder, without first having seen is_dummy() return false; "
                              "a file whose reader cannot be constructed (a 7-byte .gz, random bytes named .xz, a bogus .evtx) has exactly such a summary: the run aborts with SIGABRT and the other sources lose their output"
                              % (sb_.path.split("::")[-1], c.line, c.d.split("::")[-1]))
    if n715 < 3:
        raise CheckerError("R7.15: only %d calls of the panicking accessors found outside Summary" % n715)

    # ------------------------------------------------------------ R7.16 the emergency stop of the journal field enumeration counts every round
    # The journal renderers enumerate an entry's fields in `while counter < LIMIT` loops; the counter is
    # the only thing that ends the loop when libsystemd keeps answering with an error for the same entry
    # (a DATA object whose flags claim a compression that its payload does not have: -ENOMEM / -EBADMSG on
    # every call).  Every way round such a loop passes the increment; an error arm that `continue`s past
    # it spins forever, the worker never sends its summary and the whole run hangs.
    import ctrloop
    R716 = rep.rule("R7.16", "counter-bounded enumeration loops of the journal reader increment the counter on every way round")
    n716 = 0
    for r_ in ctrloop.scan(prog, only=lambda p_: p_.startswith("s4lib::readers::journalreader::")):
        if not any("sd_journal" in d_ for d_ in r_["callees"]):
            continue
        n716 += 1
        smp_ = dict(r_)
        smp_.pop("callees")
        rep.examined(R716, "%s|%s" % (r_["fn"], r_["counter"]), sample=smp_)
        if r_["back_edges_that_can_skip_the_increment"]:
            rep.violation(R716, "%s|%s|skipped-increment" % (r_["fn"], r_["counter"]), "%s: the loop at line %s is bounded only by `%s %s %s`, but a path back to its head (from line %s) does not increment the counter; "
                          "when libsystemd answers every enumeration call for an entry with an error the reader spins forever and the run never ends" % (r_["fn"], r_["line"], r_["counter"], r_["cmp"], r_["bound"], r_["back_edges_that_can_skip_the_increment"][0]))
    # floor on the enumeration loops themselves; a reader that drops the emergency counter altogether (and
    # relies on the enumeration's own end) has nothing for this rule to judge
    nenum716 = sum(1 for jb_ in prog.bodies() if jb_.path.startswith("s4lib::readers::journalreader::") and "_tests" not in jb_.path and "{closure" not in jb_.path
                   and any(c.d.endswith("call_sd_journal_enumerate_available_data") and c.d != jb_.path and any(c.bb in jb_.loop_blocks(h_) or c.bb == h_ for (_s, h_) in jb_.back_edges()) for c in jb_.live_calls()))
    rep.examined(R716, "journalreader|enumeration-loops", sample={"functions_with_a_field_enumeration_loop": nenum716, "of_which_counter_bounded": n716})
    if nenum716 < 2:
        raise CheckerError("R7.16: only %d field enumeration loops found in the journal reader" % nenum716)

    return rep.finish(
        "Static necessary-condition check against crashes/hangs from file content: (R7.1) for all strings of all 173 date regexes the converter's "
        "unwraps and month lookup cannot panic; (R7.2) fixed-size record fields are not read with an unbounded C-string scan on worker-reachable "
        "paths (known finding F9); (R7.3) unsafe record reads are dominated by the length check; (R7.4) every worker path reports through "
        "FileInfo/FileSummary so a bad source cannot silence the others; (R7.6) decoder read loops stop or progress on a zero-byte read.",
        ["general panic-freedom (index/slice/unwrap sites whose safety depends on arithmetic invariants)", "decoder crates' robustness",
         "arithmetic overflow in offset code", "OOM", "promptness"])
