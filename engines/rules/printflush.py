"""Every print call hands its message to stdout before it reports success.

Each source owns a PrinterLogMessage with a private byte buffer.  The merge loop picks the earliest
pending message and calls that source's printer; if the printer returned Ok with bytes still in
its private buffer, a message of another source chosen *later* would reach stdout first.  So in
every printer body, on every path that ends in `Ok(..)`, the last append to `self.buffer` is
followed by `self.buffer.clear()` (which the macros only do after write_all) - or by a test that
found the buffer empty.  Decided by a path-sensitive two-state dataflow (clean/dirty)."""
import flow
from mir import CheckerError, op_local

PRINTER = "s4lib::printer::printers::PrinterLogMessage::"


def _is_self_buffer(b, op):
    o = b.origins(op)
    return bool(o) and all(x[0] == "arg" and x[1] == 1 and "buffer" in x[2] for x in o)


def _empty_test(b, bb):
    """switch at bb on a test whether self.buffer is empty (`is_empty()`, `len() == 0`, `len() > 0`,
    possibly negated): returns {succ: buffer_is_empty}"""
    t = b.term(bb)
    if t[0] != "switch" or len(t) < 5 or t[4] != "bool":
        return None
    l = op_local(t[1])
    neg = False

    def _res():
        res = {}
        for v, tb in t[2]:
            val = bool(int(v))
            res[tb] = (not val) if neg else val
        other = not any(bool(int(v)) for v, _tb in t[2])  # value of the otherwise arm
        res.setdefault(t[3], (not other) if neg else other)
        return res

    def _is_len(op):
        ll = op_local(op)
        if ll is None:
            return False
        for _ in range(4):
            ds_ = b.defs.get(ll, [])
            if len(ds_) != 1:
                return False
            _b, idx_, rv_ = ds_[0]
            if idx_ == "call":
                return rv_.d.split("::")[-1] == "len" and rv_.args and _is_self_buffer(b, rv_.args[0])
            if rv_[0] == "use" and rv_[1][0] != "k":
                ll = op_local(rv_[1])
                if ll is None:
                    return False
            else:
                return False
        return False

    def _zero(op):
        return op[0] == "k" and str(op[2]) in ("0", "0_usize")
    for _ in range(6):
        if l is None:
            return None
        ds = b.defs.get(l, [])
        if len(ds) != 1:
            return None
        _bb, idx, rv = ds[0]
        if idx == "call":
            c = rv
            if c.d.split("::")[-1] == "is_empty" and c.args and _is_self_buffer(b, c.args[0]):
                return _res()
            return None
        if rv[0] == "un" and rv[1] == "Not":
            neg = not neg
            l = op_local(rv[2])
        elif rv[0] == "use":
            l = op_local(rv[1])
        elif rv[0] == "bin" and rv[1] in ("Eq", "Ne", "Gt", "Lt", "Le", "Ge"):
            a_, b2 = rv[2], rv[3]
            if _is_len(a_) and _zero(b2):
                empty_when_true = {"Eq": True, "Le": True, "Ne": False, "Gt": False}.get(rv[1])
            elif _zero(a_) and _is_len(b2):
                empty_when_true = {"Eq": True, "Ge": True, "Ne": False, "Lt": False}.get(rv[1])
            else:
                return None
            if empty_when_true is None:
                return None
            if not empty_when_true:
                neg = not neg
            return _res()
        else:
            return None
    return None


def _opt_variant(b, rv, depth=0):
    if rv[0] == "agg" and isinstance(rv[1], dict):
        return rv[1].get("variant")
    if rv[0] == "use" and rv[1][0] != "k" and depth < 4:
        pl = rv[1][1]
        if len(pl) != 1:
            return "Some" if any(isinstance(e, list) and e[:2] == ["as", "Some"] for e in pl[1:]) else None
        ds = b.defs.get(pl[0], [])
        vs = set()
        for _bb, idx, rv2 in ds:
            if idx == "call":
                return None
            vs.add(_opt_variant(b, rv2, depth + 1))
        if len(vs) == 1:
            return vs.pop()
    return None


def _analyse(prog, p, helpers):
    """-> None when the body neither appends nor calls a helper that leaves bytes behind, else
    (sample dict, [Ok blocks reachable dirty], body)"""
    b = prog.body(p)
    ev = {}
    for c in b.live_calls():
        last = c.d.split("::")[-1]
        if last in ("extend_from_slice", "extend", "push", "append", "write", "write_all") and c.d.startswith("std::vec::Vec") and c.args and _is_self_buffer(b, c.args[0]):
            ev[c.bb] = "dirty"
        elif last in ("clear", "truncate", "drain") and c.d.startswith("std::vec::Vec") and c.args and _is_self_buffer(b, c.args[0]):
            ev[c.bb] = "clean"
        elif c.d in helpers:
            ev[c.bb] = "dirty"
    if "dirty" not in ev.values():
        return None
    oks = []
    for bb in sorted(b.live):
        for s in b.stmts(bb):
            if s[0] == "=" and s[1] == [0] and s[2][0] == "agg" and isinstance(s[2][1], dict) and s[2][1].get("variant") == "Ok":
                oks.append(bb)
    # a dispatcher returns the inner printer's result unchanged: `_0 = self.print_x_(..)`
    tails = [c.bb for c in b.live_calls() if c.d.startswith(PRINTER) and b.term(c.bb)[3] == [0]]
    if not oks and not tails:
        raise CheckerError("%s: appends to self.buffer but no Ok(..) return found" % p)
    tests = {bb: _empty_test(b, bb) for bb in b.live}
    # blocks that record an I/O error (`error_ret = Some(err)`): the macros return Err from there,
    # so such a path is not a success path; state 2 = "error recorded" (absorbing, not judged)
    errs = set()
    for bb in b.live:
        for s in b.stmts(bb):
            if s[0] == "=" and len(s[1]) == 1 and "Option<std::io::Error>" in (b.local_ty(s[1][0]) or ""):
                v = _opt_variant(b, s[2])
                if v is None:
                    raise CheckerError("%s: bb%d assigns an Option<io::Error> from an unrecognised value" % (p, bb))
                if v == "Some":
                    errs.add(bb)

    def block_fn(bb, st):
        if st == 2 or bb in errs:
            return 2
        e = ev.get(bb)
        return st if e is None else (1 if e == "dirty" else 0)

    def edge_fn(bb, s, st):
        t = tests.get(bb)
        if t and s in t and t[s] and st != 2:
            return 0
        return st
    states = flow.disjunctive(b, 0, block_fn, edge_fn)
    bad = [bb for bb in oks if 1 in states.get(bb, ())]
    bad += [bb for bb in tails if any(block_fn(bb, st) == 1 for st in states.get(bb, ()))]
    sample = {"printer": p.split("::")[-1], "appends": sum(1 for v in ev.values() if v == "dirty"), "clears": sum(1 for v in ev.values() if v == "clean"),
              "ok_returns": len(oks), "ok_returns_reachable_with_unwritten_bytes": len(bad)}
    return sample, bad, b


def mir_call_line(b, bb):
    for c in b.live_calls():
        if c.bb == bb:
            return c.line
    return None


def check(prog, rep, R, floor=24):
    paths = [p for p in sorted(prog.facts.bodies) if p.startswith(PRINTER) and "{closure" not in p]
    helpers = set()
    res = {}
    for _round in range(6):
        res = {}
        new = set()
        for p in paths:
            r = _analyse(prog, p, helpers)
            if r is not None:
                res[p] = r
                if r[1]:
                    new.add(p)
        if new == helpers:
            break
        helpers = new
    else:
        raise CheckerError("printflush: helper summaries did not converge")
    cg = prog.callgraph()
    callers = {}
    for q, cs in cg.items():
        for d in cs:
            if d in res:
                callers.setdefault(d, set()).add(q)
    n = 0
    for p, (sample, bad, b) in sorted(res.items()):
        n += 1
        cl = callers.get(p, set())
        internal_only = bool(cl) and all(q.startswith(PRINTER) for q in cl)
        sample["leaves_bytes_for_its_callers"] = bool(bad) and internal_only
        rep.examined(R, p, sample=sample)
        if bad and not internal_only:
            line = None
            for s in b.stmts(bad[0]):
                if s[0] == "=" and s[1] == [0]:
                    line = s[3]
            if line is None and b.term(bad[0])[0] == "call":
                line = mir_call_line(b, bad[0])
            rep.violation(R, p + "|ok-with-unwritten-buffer", "%s (line %s): a path reaches Ok(..) with bytes appended to the printer's private buffer and not yet written to stdout; "
                          "the message stays behind while later messages of other sources are printed, and the last buffer-full of this source is never printed" % (p.split("::")[-1], line))
    if n < floor:
        raise CheckerError("printflush: only %d printer bodies append to self.buffer (expected >= %d)" % (n, floor))
    return n
