"""C09 — journal files: every entry once, in journal order, fields intact.

Decides:
  R9.1 time source: DT_USES_SOURCE_OVERRIDE const-evaluates to Some(RealtimeTimestamp); the value
       given to the window test in next_common flows from sd_journal_get_realtime_usec; window
       bounds are converted with DateTime::timestamp_micros (the instant, not wall-clock fields).
  R9.2 cursor discipline: the only libsystemd positioning calls reachable from analyze/next* are
       seek_head | seek_realtime_usec in analyze and one sd_journal_next per next_common call; no
       previous / seek_tail / next_skip / seek_cursor; restart_data precedes field enumeration.
  R9.3 the walk stops only at the end of the journal or on the window's AfterRange verdict
       (every Done returned by next_common is controlled by one of the two), and the upper bound is
       inclusive (C03 R3.2 at the journal site).
  R9.4 the ten renderings are dispatched: the JournalOutput match in next() is total and each
       variant reaches a next_* renderer.
Does not decide: equality with journalctl output, field escaping, monotonic timestamps.
"""
import contextlib
import io

import c03
import decide
from common import Report
from mir import CheckerError, op_local

JR = "s4lib::readers::journalreader::JournalReader"
FORBIDDEN = ("sd_journal_previous", "sd_journal_seek_tail", "sd_journal_next_skip", "sd_journal_previous_skip", "sd_journal_seek_cursor", "sd_journal_seek_monotonic_usec")


def r911(prog, rep, R911):
    """R9.11 (also lifted by C01 R1.6): the DateTime stored in a rendered entry derives from the receive time only"""
    memo911 = {}

    def _params_used(path_, depth_=0):
        if path_ in memo911:
            return memo911[path_]
        memo911[path_] = None   # recursion guard: unknown
        cb_ = prog.body(path_, required=False)
        if cb_ is None or depth_ > 4:
            return None
        used_ = set()
        for o_ in _roots(cb_, ["cp", [0]], depth_ + 1):
            if o_[0] == "arg":
                used_.add(o_[1])
        memo911[path_] = used_
        return used_

    def _roots(b_, op_, depth_=0, seen_=None):
        """terminal origins of an operand, following calls into the arguments their result derives from"""
        out_ = set()
        seen_ = seen_ if seen_ is not None else set()
        for o_ in b_.origins(op_):
            if o_[0] != "call":
                out_.add(o_)
                continue
            key_ = (b_.path, o_[1])
            if key_ in seen_:
                continue
            seen_.add(key_)
            cc_ = [z_ for z_ in b_.calls if z_.bb == o_[1]][0]
            used_ = _params_used(cc_.d, depth_) if (cc_.d.startswith("s4lib::") or cc_.d.startswith("s4::")) else None
            out_.add(("via", cc_.d.split("::")[-1]))
            for i_, a_ in enumerate(cc_.args):
                if used_ is not None and (i_ + 1) not in used_:
                    continue
                if a_[0] == "k":
                    continue
                aty_ = (b_.local_ty(a_[1][0]) or "").replace("std::option::", "")
                if "Option<u64>" in aty_:
                    out_.add(("opt", cc_.d.split("::")[-1], i_))
                out_ |= _roots(b_, a_, depth_, seen_)
        return out_
    n911 = 0
    for rb_ in prog.bodies():
        if not rb_.path.startswith(JR + "::next_") or "{closure" in rb_.path:
            continue
        for c in rb_.live_calls():
            if "journal::JournalEntry::" not in c.d:
                continue
            for i_, a_ in enumerate(c.args):
                if a_[0] not in ("cp", "mv") or "chrono::DateTime<" not in (rb_.local_ty(a_[1][0]) or ""):
                    continue
                n911 += 1
                rs_ = _roots(rb_, a_)
                tys_ = set()
                for o_ in rs_:
                    if o_[0] in ("arg", "local"):
                        tys_.add((rb_.local_name(o_[1]) or "_%d" % o_[1], rb_.local_ty(o_[1]) or ""))
                via_ = sorted(o_[1] for o_ in rs_ if o_[0] == "via")
                opt_ = sorted(n_ for n_, t_ in tys_ if "Option<u64>" in t_.replace("std::option::", "")) + [v_ for v_ in via_ if "source_realtime" in v_ and "or_source" not in v_] \
                    + sorted("an Option<u64> handed to %s()" % o_[1] for o_ in rs_ if o_[0] == "opt")
                rep.examined(R911, "%s|%s" % (rb_.path, c.d.split("::")[-1]), sample={"renderer": rb_.path.split("::")[-1], "constructor": c.d.split("::")[-1], "datetime_derives_from": sorted("%s: %s" % x_ for x_ in tys_)[:6], "through": via_[:6]})
                if opt_:
                    rep.violation(R911, "%s|%s|entry-instant" % (rb_.path, c.d.split("::")[-1]), "%s: the DateTime stored in the entry (argument %d of JournalEntry::%s) derives from %s, i.e. from the optional _SOURCE_REALTIME_TIMESTAMP; "
                                  "the entry's instant (merge with other sources, window, summary) must be the journal receive time for every rendering, as DT_USES_SOURCE_OVERRIDE states" % (rb_.path.split("::")[-1], i_, c.d.split("::")[-1], opt_))
    if n911 < 3:
        raise CheckerError("R9.11: only %d DateTime arguments of JournalEntry constructors found in the renderers" % n911)



def run(prog, rep, tier):
    facts = prog.facts
    R91 = rep.rule("R9.1", "entry instant is the journal receive time; bounds converted as instants")
    R92 = rep.rule("R9.2", "cursor discipline of the libsystemd calls")
    R93 = rep.rule("R9.3", "the walk stops only at journal end or on AfterRange; upper bound inclusive")
    R94 = rep.rule("R9.4", "all renderings are dispatched")

    # ------------------------------------------------------------ R9.1
    ov = facts.consts.get("s4lib::data::journal::DT_USES_SOURCE_OVERRIDE")
    val = ov["value"] if ov else None
    rep.examined(R91, "DT_USES_SOURCE_OVERRIDE", sample={"value": val})
    okc = isinstance(val, dict) and val.get("variant") == "Some" and "RealtimeTimestamp" == (val.get("fields", {}).get("0", {}) or {}).get("variant")
    if not okc:
        rep.violation(R91, "DT_USES_SOURCE_OVERRIDE", "DT_USES_SOURCE_OVERRIDE is %s; the entry's instant (window, merge, order) must be the journal receive time __REALTIME_TIMESTAMP" % (val,))
    nc = prog.body(JR + "::next_common")
    preds = [c for c in nc.live_calls() if c.d.endswith("journalreader::em_pass_filters") or c.d.endswith("journalreader::em_after_or_before")]
    if len(preds) != 1:
        raise CheckerError("next_common: %d window predicate calls" % len(preds))
    to = nc.origins(preds[0].args[0])
    src = set()
    for x in to:
        if x[0] == "call":
            src.add(x[2].split("::")[-1])
        elif x[0] == "local":
            # named variable with several definitions: collect their call sources
            for d in nc.defs.get(x[1], []):
                if d[1] != "call" and d[2][0] == "use" and d[2][1][0] != "k":
                    for y in nc.origins(d[2][1]):
                        if y[0] == "call":
                            src.add(y[2].split("::")[-1])
                        else:
                            src.add(y[0])
        else:
            src.add(x[0])
    rep.examined(R91, nc.path + "|window-time", sample={"window_test_time_from": sorted(src)})
    # under the constant override only the realtime call is live; accept a live set that is exactly it
    if "call_sd_journal_get_realtime_usec" not in src:
        rep.violation(R91, nc.path + "|window-time", "next_common: the time tested against the window does not come from sd_journal_get_realtime_usec (sources %s)" % sorted(src))
    elif src - {"call_sd_journal_get_realtime_usec"}:
        rep.violation(R91, nc.path + "|window-time", "next_common: the time tested against the window may come from %s; with the constant override only the receive time may be used" % sorted(src - {"call_sd_journal_get_realtime_usec"}))
    cv = prog.body("s4lib::data::journal::datetimel_to_realtime_timestamp")
    # clamping the value (max(.., 0) / clamp) keeps its provenance
    ro = set(x for x in cv.origins(["cp", [0]], through_calls=("cmp::max", "cmp::min", "::clamp", "Ord::max", "Ord::min")) if x[0] != "const")
    calls = [c.d for c in cv.live_calls()]
    inst_ok = len(ro) == 1 and all(x[0] == "call" and x[2].endswith("::timestamp_micros") for x in ro)
    recv_ok = False
    for c in cv.live_calls():
        if c.d.endswith("::timestamp_micros"):
            recv_ok = all(x[0] == "arg" and x[1] == 1 for x in cv.origins(c.args[0], through_calls=("::deref",)))
    rep.examined(R91, cv.path, sample={"calls": [c.split("::")[-1] for c in calls], "is_timestamp_micros_of_the_argument": inst_ok and recv_ok})
    if not (inst_ok and recv_ok):
        rep.violation(R91, cv.path, "datetimel_to_realtime_timestamp: the bound is not converted with timestamp_micros() of the datetime itself (calls: %s); going through wall-clock fields shifts -a/-b by the bound's UTC offset" % [c.split("::")[-1] for c in calls])
    ab = prog.body(JR + "::analyze")
    convs = [c for c in ab.live_calls() if c.d.endswith("datetimelopt_to_realtime_timestamp_opt") or c.d.endswith("datetimel_to_realtime_timestamp")]
    rep.examined(R91, ab.path + "|bounds", sample={"bound_conversions_in_analyze": len(convs)})

    # ------------------------------------------------------------ R9.2
    roots = [JR + "::analyze", JR + "::next", JR + "::next_common"]
    reach = prog.reachable_fns(roots)
    api = {}
    for p in sorted(reach):
        bd = prog.body(p, required=False)
        if bd is None:
            continue
        for c in bd.live_calls():
            n = c.d.split("::")[-1]
            if n.startswith("sd_journal_") and "SdJournalHApi" in c.d:
                api.setdefault(n, set()).add(p.split("::")[-1])
    rep.examined(R92, "libsystemd|inventory", sample={k: sorted(v) for k, v in api.items()})
    for f in FORBIDDEN:
        if f in api:
            rep.violation(R92, "libsystemd|" + f, "%s is called from %s; entries would be skipped, repeated or visited out of journal order" % (f, sorted(api[f])))
    if "sd_journal_next" not in api or not ("sd_journal_seek_head" in api or "sd_journal_seek_realtime_usec" in api):
        raise CheckerError("libsystemd call inventory incomplete: %s" % sorted(api))
    # one sd_journal_next per next_common, not in a loop
    nx = [c for c in nc.live_calls() if c.d.endswith("::call_sd_journal_next")]
    inloop = any(any(c.bb in nc.loop_blocks(h) for t, h in nc.back_edges()) for c in nx)
    rep.examined(R92, nc.path + "|one-next", sample={"sd_journal_next_calls": len(nx), "in_loop": inloop})
    if len(nx) != 1 or inloop:
        rep.violation(R92, nc.path + "|one-next", "next_common: the cursor is advanced %d times per produced entry%s" % (len(nx), " (inside a loop)" if inloop else ""))
    elif not all(nc.dominates(nx[0].bb, c.bb) for c in nc.live_calls() if c.d.endswith("::call_sd_journal_get_realtime_usec")):
        rep.violation(R92, nc.path + "|order", "next_common: the entry time is read before the cursor is advanced")
    # seeks only in analyze
    for f in ("sd_journal_seek_head", "sd_journal_seek_realtime_usec"):
        users = api.get(f, set())
        wrappers = set(u for u in users if not u.startswith("call_"))
    seekers = set()
    for p in sorted(reach):
        bd = prog.body(p, required=False)
        if bd is None:
            continue
        if any(c.d.endswith("::call_sd_journal_seek_head") or c.d.endswith("::call_sd_journal_seek_realtime_usec") or
               (c.d.split("::")[-1] in ("sd_journal_seek_head", "sd_journal_seek_realtime_usec") and "SdJournalHApi" in c.d and not p.split("::")[-1].startswith("call_")) for c in bd.live_calls()):
            seekers.add(p.split("::")[-1])
    rep.examined(R92, "libsystemd|seek-sites", sample={"functions_that_seek": sorted(seekers)})
    if not seekers <= {"analyze"}:
        rep.violation(R92, "libsystemd|seek-sites", "the journal cursor is repositioned outside analyze(): %s" % sorted(seekers - {"analyze"}))
    # the lower bound is applied by seek_realtime_usec with the after bound
    sk = [c for c in ab.live_calls() if "seek_realtime_usec" in c.d]
    ok_after = False
    for c in sk:
        for a in c.args:
            roles = c03.role_of_operand(ab, a)
            if roles == {"A"}:
                ok_after = True
    rep.examined(R92, ab.path + "|seek-after", sample={"seek_realtime_calls": len(sk), "seeks_to_after_bound": ok_after})
    if sk and not ok_after:
        rep.violation(R92, ab.path + "|seek-after", "analyze: seek_realtime_usec is not given the --dt-after bound")

    # ------------------------------------------------------------ R9.3
    # every return of Done is controlled by the sd_journal_next result or by the predicate's verdict
    swbb, arms, oth = c03.result_arms(nc, preds[0])
    names = c03.variant_names(prog, c03.DT2)
    allowed_blocks = set()
    nsw, narms, noth = c03.result_arms(nc, nx[0]) if nx else (None, {}, None)
    bad = []
    paths = decide.enumerate_paths(nc, 0, lambda bb: "ret" if nc.term(bb)[0] == "ret" else None, opaque_ok=lambda bb: True, max_paths=50000)
    ndone = 0
    for p in paths:
        if p.end != "ret" or decide.returned_variant(nc, p) != "Done":
            continue
        ndone += 1
        ok = False
        for d in p.decisions:
            if d[0] in ("variant", "variant_not") and d[1][0] == "call":
                if d[1][1] == "call_sd_journal_next" and d[0] == "variant":
                    ok = True
                if d[1][1] in ("em_pass_filters", "em_after_or_before") and d[0] == "variant" and names.get(d[2]) == "AfterRange":
                    ok = True
        if not ok:
            bad.append([x for x in p.blocks[-6:]])
    rep.examined(R93, nc.path + "|done-paths", sample={"paths_returning_Done": ndone, "not_controlled_by_end_or_AfterRange": len(bad)})
    if ndone == 0:
        raise CheckerError("next_common: no path returns Done")
    if bad:
        rep.violation(R93, nc.path + "|done-paths", "next_common: the walk can return Done (stop printing) on a condition other than 'no more entries' or the window verdict AfterRange (blocks %s); entries that are still inside the window, e.g. several entries sharing the --dt-before instant, are dropped" % bad[0])
    # inclusive upper bound: reuse the C03 journal-site verdict
    sub = Report("C03", "quick", dict(rep.meta))
    sub.finish = lambda *a, **k: 0
    with contextlib.redirect_stdout(io.StringIO()):
        c03.run(prog, sub, "quick")
    for (rid, key, what, detail) in sub.violations:
        if "journalreader" in key:
            rep.violation(R93, key.split("|", 1)[1], what)
    n = sum(1 for s in sub.rules.get("R3.2", {}).get("samples", []))
    rep.examined(R93, nc.path + "|inclusive-bound", sample={"checked_by": "C03 R3.2(d)", "journal_site_violations": len([v for v in sub.violations if "journalreader" in v[1]])})

    # ------------------------------------------------------------ R9.4
    nb = prog.body(JR + "::next")
    jo = {v["idx"]: v["name"] for v in facts.adts["s4lib::data::journal::JournalOutput"]["variants"]} if "s4lib::data::journal::JournalOutput" in facts.adts else None
    if jo is None:
        cands = [k for k in facts.adts if k.endswith("::JournalOutput")]
        if not cands:
            raise CheckerError("JournalOutput enum not found")
        jo = {v["idx"]: v["name"] for v in facts.adts[cands[0]]["variants"]}
    disp = None
    for p in [JR + "::next", JR + "::next_dispatch"]:
        bd = prog.body(p, required=False)
        if bd is None:
            continue
        for bb in sorted(bd.live):
            t = bd.term(bb)
            if t[0] == "switch" and len(t[2]) >= len(jo) - 1:
                disp = (bd, bb, t)
    if disp is None:
        raise CheckerError("JournalReader: rendering dispatch not found")
    bd, bb, t = disp
    arms_ = {int(v): tb for v, tb in t[2]}
    mapping = {}
    for idx, name in jo.items():
        tgt = arms_.get(idx, t[3])
        region = bd.reachable(tgt)
        rend = sorted(set(c.d.split("::")[-1] for c in bd.live_calls() if c.bb in region and c.d.startswith(JR + "::next_") and c.bb in [x for x in region if bd.dominates(tgt, x)]))
        consts = []
        for c in bd.live_calls():
            if c.bb in region and bd.dominates(tgt, c.bb) and c.d.startswith(JR + "::next_"):
                for a in c.args:
                    if a[0] == "k":
                        consts.append(str(a[2])[:40])
                    else:
                        for o in bd.origins(a):
                            if o[0] == "const":
                                consts.append(o[1][:40])
        mapping[name] = (tuple(rend), tuple(consts))
        rep.examined(R94, "%s|%s" % (bd.path, name), sample={"rendering": name, "renderer": rend, "constants": consts[:3]})
        if not rend:
            rep.violation(R94, "%s|%s" % (bd.path, name), "JournalReader: rendering %s is not dispatched to a next_* renderer" % name)
    vals = list(mapping.values())
    dup = [n for n, v in mapping.items() if vals.count(v) > 1]
    if dup:
        rep.violation(R94, bd.path + "|distinct", "JournalReader: renderings %s are dispatched identically (same renderer and constants)" % sorted(dup))
    rep.floor(R94, 8)

    # ------------------------------------------------------------ R9.9 cat rendering prints the MESSAGE value as stored
    # next_cat prints the bytes after "MESSAGE=".  Between the value libsystemd returns and the write
    # there may be the sub-slice that skips the key, but nothing that shortens or rewrites the value
    # (trim, strip, replace, case folding): journalctl -o cat prints trailing blanks too.
    R99 = rep.rule("R9.9", "cat rendering writes the MESSAGE value as stored (no trimming or rewriting)")
    cb_ = prog.body("s4lib::readers::journalreader::JournalReader::next_cat")
    gd = [c for c in cb_.live_calls() if c.d.endswith("::call_sd_journal_get_data")]
    REWRITE = ("trim", "trim_end", "trim_start", "trim_end_with", "trim_with", "trim_ascii", "trim_ascii_end", "strip_suffix", "strip_prefix", "replace", "replacen", "to_lowercase", "to_uppercase",
               "trim_end_matches", "trim_matches", "to_ascii_lowercase", "to_ascii_uppercase", "truncate", "lines", "split")
    if not gd:
        raise CheckerError("next_cat: call_sd_journal_get_data not found")
    nwc = 0
    _cat_chain = []
    for c in cb_.live_calls():
        nm = (c.o or c.d).split("::")[-1]
        if nm not in ("push_str", "extend_from_slice", "extend", "append", "write_all"):
            continue
        if len(c.args) < 2 or c.args[1][0] == "k":
            continue
        # walk back (all definitions) through calls to the get_data result, collecting the call names on the way
        chain = []
        reached = False
        work = [c.args[1]]
        seenc = set()
        while work and len(seenc) < 40:
            cur = work.pop()
            for x in cb_.origins(cur, through_calls=("::deref", "::as_ref", "::as_bytes", "::as_slice", "::borrow")):
                if x[0] != "call" or x[1] in seenc:
                    continue
                seenc.add(x[1])
                cc_ = [z for z in cb_.calls if z.bb == x[1]][0]
                if cc_.bb in [g.bb for g in gd]:
                    reached = True
                    continue
                chain.append((cc_.o or cc_.d).split("::")[-1])
                if cc_.args and cc_.args[0][0] != "k":
                    work.append(cc_.args[0])
        if not reached:
            continue
        nwc += 1
        _cat_chain += chain
        bad_ = [x for x in chain if x in REWRITE]
        rep.examined(R99, cb_.path + "|message-write", sample={"line": c.line, "calls_between_value_and_write": chain})
        if bad_:
            rep.violation(R99, cb_.path + "|message-write", "next_cat: the MESSAGE value passes through %s() before it is written (line %d); the printed text is no longer the stored text "
                          "(entries whose message ends in a blank lose it; journalctl -o cat keeps it)" % (bad_[0], c.line))
    if nwc == 0:
        raise CheckerError("next_cat: no write of the value returned by sd_journal_get_data found")
    # the "MESSAGE=" key is cut off exactly once between libsystemd's buffer and the write: either the
    # wrapper returns the raw `FIELD=value` item and next_cat skips the key, or the wrapper returns the
    # value and next_cat writes it whole.  Cutting twice removes the message text up to its own first '='.
    wb_ = prog.body("s4lib::readers::journalreader::JournalReader::call_sd_journal_get_data")
    raw_ = [c for c in wb_.live_calls() if c.d.split("::")[-1] in ("from_raw_parts", "from_raw_parts_mut")]
    if len(raw_) != 1:
        raise CheckerError("call_sd_journal_get_data: %d from_raw_parts calls" % len(raw_))
    wchain = []
    for bb in sorted(wb_.live):
        for st in wb_.stmts(bb):
            if st[0] == "=" and st[1] == [0] and st[2][0] == "agg" and isinstance(st[2][1], dict) and st[2][1].get("variant") == "Ok":
                work = [st[2][2][0]]
                seenw = set()
                while work and len(seenw) < 40:
                    cur = work.pop()
                    for x in wb_.origins(cur, through_calls=("::deref", "::as_ref", "::as_bytes", "::as_slice", "::borrow")):
                        if x[0] != "call" or x[1] in seenw:
                            continue
                        seenw.add(x[1])
                        cc_ = [z for z in wb_.calls if z.bb == x[1]][0]
                        if cc_.bb == raw_[0].bb:
                            continue
                        wchain.append((cc_.o or cc_.d).split("::")[-1])
                        if cc_.args and cc_.args[0][0] != "k":
                            work.append(cc_.args[0])
    CUT = ("index", "get", "get_unchecked", "split_at", "strip_prefix", "split_once", "splitn")
    cat_cuts = sorted(set(x for x in _cat_chain if x in CUT))
    w_cuts = sorted(set(x for x in wchain if x in CUT))
    rep.examined(R99, cb_.path + "|key-cut-once", sample={"wrapper_calls_between_raw_item_and_Ok": wchain, "cuts_in_wrapper": w_cuts, "cuts_in_next_cat": cat_cuts})
    if w_cuts and cat_cuts:
        rep.violation(R99, cb_.path + "|key-cut-once", "the MESSAGE item is shortened both in call_sd_journal_get_data (%s) and again in next_cat (%s): a message that contains '=' loses its text up to that '=' "
                      "(`Command line: BOOT_IMAGE=/vmlinuz` is printed as `/vmlinuz`)" % (w_cuts[0], cat_cuts[0]))
    if not w_cuts and not cat_cuts:
        rep.violation(R99, cb_.path + "|key-cut-once", "neither call_sd_journal_get_data nor next_cat removes the `MESSAGE=` key: the cat rendering prints `MESSAGE=text` instead of the stored text")

    # ------------------------------------------------------------ R9.8 a signed instant does not wrap when it becomes the unsigned journal clock
    # libsystemd's realtime clock is unsigned microseconds.  A window bound before 1970 has a negative
    # timestamp_micros(); `as u64` turns it into a huge value (every entry is then "before" --dt-after).
    R98 = rep.rule("R9.8", "conversion of a window bound to the unsigned journal clock clamps negative values")
    SG = ("i8", "i16", "i32", "i64", "isize", "i128")
    UG = ("u8", "u16", "u32", "u64", "usize", "u128")
    n98 = 0
    for jb in prog.bodies():
        if "data::journal" not in jb.path and "readers::journalreader" not in jb.path or "_tests" in jb.path:
            continue
        for bb in sorted(jb.live):
            for s_ in jb.stmts(bb):
                if s_[0] == "=" and s_[2][0] == "cast" and len(s_[1]) == 1 and s_[2][2][0] != "k":
                    l_ = op_local(s_[2][2])
                    if l_ is None or str(jb.local_ty(l_)) not in SG or str(jb.local_ty(s_[1][0])) not in UG:
                        continue
                    os_ = jb.origins(s_[2][2])
                    from_ts = any(x[0] == "call" and "timestamp" in x[2].split("::")[-1] for x in os_) or \
                        any(x[0] == "call" and x[2].split("::")[-1] in ("max", "clamp") for x in os_)
                    if not from_ts:
                        continue
                    n98 += 1
                    clamped = False
                    for x in os_:
                        if x[0] == "call" and x[2].split("::")[-1] in ("max", "clamp"):
                            mc = [z for z in jb.calls if z.bb == x[1]][0]
                            if any(jb.eval_int(a) == 0 for a in mc.args):
                                clamped = True
                    rep.examined(R98, jb.path + "|signed-to-unsigned", sample={"site": jb.path.split("::")[-1], "line": jb.blocks[bb].get("l"), "clamped_at_zero": clamped})
                    if not clamped:
                        rep.violation(R98, jb.path + "|signed-to-unsigned", "%s: timestamp_micros() (signed) is converted with `as` to the unsigned journal clock without clamping; a bound before 1970 wraps to a far-future value: "
                                      "`-a 19600101T000000` prints nothing and `-b 19600101T000000` prints every entry" % jb.path.split("::")[-1])
    if n98 == 0:
        raise CheckerError("R9.8: no signed-to-unsigned conversion of a timestamp found in the journal modules")

    # ------------------------------------------------------------ R9.7 export rendering emits the stored item
    # `--journal-output=export` prints every FIELD=value item exactly as libsystemd returns it.  In
    # next_export's field loop every non-constant write into the output buffer must be the payload of
    # the enumerate call itself, not something computed from it (sub-slices, trimmed copies).
    R97 = rep.rule("R9.7", "export rendering writes each enumerated data item unmodified")
    xb = prog.body(JR + "::next_export") if "JR" in globals() else prog.body("s4lib::readers::journalreader::JournalReader::next_export")
    enum = [c for c in xb.live_calls() if c.d.endswith("::call_sd_journal_enumerate_available_data")]
    if len(enum) != 1:
        raise CheckerError("next_export: %d enumerate calls" % len(enum))
    en = enum[0]
    hs = [h for (tl, h) in xb.back_edges() if en.bb in xb.loop_blocks(h)]
    if not hs:
        raise CheckerError("next_export: enumerate call is not in a loop")
    Lx = xb.loop_blocks(min(hs, key=lambda h: len(xb.loop_blocks(h))))
    nw = 0
    direct = 0
    for c in xb.live_calls():
        if c.bb not in Lx:
            continue
        nm = (c.o or c.d).split("::")[-1]
        if nm not in ("push_str", "extend_from_slice", "push", "extend", "append", "write", "write_all", "push_byte", "push_char"):
            continue
        if len(c.args) < 2 or c.args[1][0] == "k":
            continue
        os_ = xb.origins(c.args[1], through_calls=("::deref", "::as_ref", "::as_bytes", "::as_slice", "::borrow"))
        if all(o[0] == "const" for o in os_):
            continue
        nw += 1
        ok = bool(os_) and all(o[0] == "call" and o[1] == en.bb for o in os_)
        inst = "%s|field-write" % xb.path
        rep.examined(R97, inst, sample={"call": nm, "line": c.line, "source_is_enumerated_item": ok, "origins": sorted(str(o[:3]) for o in os_)[:3]})
        if ok:
            direct += 1
        else:
            rep.violation(R97, inst, "next_export: the field loop writes bytes that are computed from the enumerated item (%s at line %d, from %s) instead of the item itself; "
                          "the exported FIELD=value can then differ from the stored one (journalctl -o export prints it unmodified)" % (nm, c.line, sorted(str(o[2]).split("::")[-1] if o[0] == "call" else o[0] for o in os_)[:2]))
    if nw == 0:
        raise CheckerError("next_export: no data write in the field loop")
    # every item the enumeration returned is written: from the Found arm no path goes round the loop
    # (or leaves it) without the write.  A content test on the item (`continue` unless it looks like
    # FIELD=value, has a non-empty value, is UTF-8 ...) silently drops stored fields.
    dest97 = xb.term(en.bb)[3]
    found_bbs = [bb for bb in sorted(Lx) if any(st[0] == "=" and st[2][0] == "use" and st[2][1][0] != "k" and st[2][1][1][0] == dest97[0]
                                                 and any(isinstance(e, list) and e[:2] == ["as", "Found"] for e in st[2][1][1][1:]) for st in xb.stmts(bb))]
    wr97 = set()
    for c in xb.live_calls():
        if c.bb in Lx and (c.o or c.d).split("::")[-1] in ("push_str", "extend_from_slice", "extend", "append", "write", "write_all") and len(c.args) > 1 and c.args[1][0] != "k":
            os_ = xb.origins(c.args[1], through_calls=("::deref", "::as_ref", "::as_bytes", "::as_slice", "::borrow"))
            if os_ and all(o[0] == "call" and o[1] == en.bb for o in os_):
                wr97.add(c.bb)
    if len(found_bbs) != 1:
        raise CheckerError("next_export: %d Found arms of the enumerate call in the field loop" % len(found_bbs))
    fb97 = found_bbs[0]
    hdr97 = min(hs, key=lambda h: len(xb.loop_blocks(h)))
    outs97 = {s_ for bb in Lx for s_ in xb.succ[bb] if s_ not in Lx and s_ in xb.live}
    skips = [t_ for t_ in sorted(outs97 | {hdr97}) if fb97 not in wr97 and t_ in xb.reachable(fb97, wr97 - {fb97})]
    rep.examined(R97, "%s|every-item-written" % xb.path, sample={"found_arm": fb97, "item_writes": sorted(wr97), "loop_header": hdr97, "ways_round_the_write": skips})
    if skips:
        rep.violation(R97, "%s|every-item-written" % xb.path, "next_export: after the enumeration returned an item there is a path to %s that does not write it; "
                      "stored fields that fail the added test (an empty value, no '=', ...) are missing from the export rendering while journalctl -o export prints them" % (
                          "the next iteration" if hdr97 in skips else "the end of the loop"))

    # ------------------------------------------------------------ R9.6 (lift: C05 rules at the extraction sites)
    # "A compressed or archived journal file prints the same as the plain file": the file is unpacked by
    # filedecompressor::decompress_to_ntf; the decoder-loop rules of C05 decide that the unpacked bytes
    # are complete (short reads are not end of data, every loop makes progress or stops).
    import contextlib as _ctx, io as _io
    import c05 as _c05
    from common import Report as _Report
    R96L = rep.rule("R9.6", "the temporary extraction is complete (from C05 R5.1/R5.1b/R5.1c/R5.3 at filedecompressor sites)")
    _sub = _Report("C05", "quick", dict(rep.meta))
    _sub.finish = lambda *a, **k: 0
    with _ctx.redirect_stdout(_io.StringIO()):
        _c05.run(prog, _sub, "quick")
    _n = 0
    for _rid, _r in sorted(_sub.rules.items()):
        for _k in sorted(_r.get("keys", ())):
            if "filedecompressor" in _k or "decompress_to_ntf" in _k or "process_path_tar" in _k or _rid in ("R5.5", "R5.10"):
                _n += 1
                rep.examined(R96L, "%s|%s" % (_rid, _k), sample={"rule": _rid, "instance": _k})
    for (_rid, _key, _what, _detail) in _sub.violations:
        if "filedecompressor" in _key or "decompress_to_ntf" in _key or "process_path_tar" in _key or _rid in ("R5.5", "R5.10"):
            rep.violation(R96L, _key.split("|", 1)[1] + "|" + _rid, _what)
    if _n < 3:
        raise CheckerError("R9.6: only %d C05 instances at filedecompressor sites" % _n)

    # ------------------------------------------------------------ R9.5 (shared instant-preservation lint)
    import instant
    R95i = rep.rule("R9.5", "conversions between the window's datetime and the journal realtime timestamp preserve the instant")
    n_sites = instant.check(prog, rep, R95i, lambda p: ('readers::journalreader' in p or 'data::journal' in p) and '_tests' not in p, "the -a/-b window applied to journal entries shifts by the filter's own UTC offset")
    if n_sites < 2:
        raise CheckerError("R9.5: only %d chrono conversion sites found in scope (expected at least 2)" % n_sites)

    # ------------------------------------------------------------ R9.10 lifts: the journal worker reads every entry of every journal it is given
    # "Each entry ... is printed exactly once": no shortcut from the file's modification time decides
    # whether the journal is read (C03 R3.9 at the journal sites), the worker's entry loop ends only on
    # its reader's own Done/Err (C06 R6.7) and makes progress (C07 R7.12).
    import contextlib as _c9, io as _i9
    from common import Report as _R9
    R910 = rep.rule("R9.10", "the journal worker reads the whole journal: no mtime shortcut (C03 R3.9), loop ends only on Done/Err (C06 R6.7, C07 R7.12)")
    n910 = 0
    for modname, pid_, rids in (("c03", "C03", ("R3.9",)), ("c06", "C06", ("R6.7",)), ("c07", "C07", ("R7.12",))):
        mod_ = __import__(modname)
        sub_ = _R9(pid_, "quick", dict(rep.meta))
        sub_.finish = lambda *a, **k: 0
        try:
            with _c9.redirect_stdout(_i9.StringIO()):
                mod_.run(prog, sub_, "quick")
        except CheckerError:
            pass    # whatever that module could still decide is used; its own check reports the lost anchor
        for (rid_, key_, what_, det_) in sub_.violations:
            if rid_ in rids and "journal" in key_.lower():
                rep.violation(R910, key_.split("|", 1)[1] + "|" + rid_, what_)
        for rid_ in rids:
            for k_ in sorted(sub_.rules.get(rid_, {}).get("keys", ())):
                if "journal" in k_.lower():
                    n910 += 1
                    rep.examined(R910, "%s|%s" % (rid_, k_), sample={"rule": rid_, "instance": k_})
    if n910 < 2:
        raise CheckerError("R9.10: only %d journal instances among the lifted rules" % n910)

    # ------------------------------------------------------------ R9.11 the instant stored in every rendered entry is the journal receive time
    # R9.1 decides the time the *window* is tested with.  The merge with other sources, the summary and
    # the prepended datetime use the DateTime each renderer stores in the JournalEntry it builds.  That
    # value must derive from the entry's receive time (the u64 realtime value handed to the renderer)
    # and from nothing that carries the optional _SOURCE_REALTIME_TIMESTAMP: helpers are followed into
    # their bodies (constant edges pruned, so the project-wide choice DT_USES_SOURCE_OVERRIDE is
    # honoured) and only the parameters their result really derives from are traced on.
    R911 = rep.rule("R9.11", "the DateTime stored in a rendered entry derives from the receive time only (all renderers)")
    r911(prog, rep, R911)

    # ------------------------------------------------------------ R9.12 field data is copied before the next libsystemd call
    # sd_journal_enumerate_available_data() / sd_journal_get_data() hand out memory that is valid only
    # until the next such call: a compressed field (journald compresses fields of 512 bytes and more) is
    # unpacked into one buffer that libsystemd reuses.  In every loop that enumerates an entry's fields
    # no variable that lives across rounds may hold *borrowed* bytes (`&[u8]` in its type, e.g.
    # Option<&[u8]>, Vec<&[u8]>, HashMap<&[u8], &[u8]>): what is kept must be an owned copy.  Defect
    # F48: next_short/next_verbose kept slices; an entry with two compressed fields was printed with
    # heap garbage in place of its MESSAGE.
    import re as _re912
    R912 = rep.rule("R9.12", "no borrowed field bytes are kept across calls of the field enumeration (owned copies only)")
    n912 = 0
    BORROWED = _re912.compile(r"&(?:'[a-z_0-9]+ )?(?:mut )?\[u8\]")
    for rb_ in prog.bodies():
        if not rb_.path.startswith(JR + "::") or "{closure" in rb_.path or "_tests" in rb_.path:
            continue
        enum_calls = [c for c in rb_.live_calls() if c.d.endswith("call_sd_journal_enumerate_available_data") and c.d != rb_.path]
        for ec_ in enum_calls:
            heads_ = [h_ for (s_, h_) in rb_.back_edges() if ec_.bb in rb_.loop_blocks(h_) or ec_.bb == h_]
            if not heads_:
                continue
            loop_ = set()
            for h_ in heads_:
                loop_ |= set(rb_.loop_blocks(h_)) | {h_}
            n912 += 1
            kept_ = []
            for l_, ds_ in list(rb_.defs.items()) + [(l2_, [(d_[0], d_[1], d_[3]) for d_ in pd_]) for l2_, pd_ in rb_.pdefs.items()]:
                ty_ = rb_.local_ty(l_) or ""
                if not BORROWED.search(ty_) or ty_.startswith("&"):
                    continue    # plain reference temporaries are per-round; containers/options that *hold* borrowed bytes are not
                inside_ = [d_ for d_ in ds_ if d_[0] in loop_]
                outside_ = [d_ for d_ in ds_ if d_[0] not in loop_]
                if inside_ and outside_ and rb_.local_name(l_):
                    kept_.append((rb_.local_name(l_), ty_))
            # containers of borrowed bytes that are filled inside the loop through &mut
            for c in rb_.live_calls():
                if c.bb not in loop_ or not c.args:
                    continue
                st_ = c.callee.get("self") or ""
                if BORROWED.search(st_) and c.d.split("::")[-1] in ("insert", "push", "push_back", "extend", "entry"):
                    kept_.append((c.d.split("::")[-1] + "()", st_))
            rep.examined(R912, "%s|enumeration-loop" % rb_.path, sample={"function": rb_.path.split("::")[-1], "line": ec_.line, "variables_holding_borrowed_bytes_across_rounds": kept_[:4]})
            if kept_:
                rep.violation(R912, "%s|borrowed-field-bytes" % rb_.path, "%s: the loop over sd_journal_enumerate_available_data (line %s) keeps borrowed field bytes across rounds in %s; the data is valid only until the next call - "
                              "a compressed field (512 bytes and more) is unpacked into a buffer libsystemd reuses, so an entry with two such fields is rendered with garbage in place of the earlier one"
                              % (rb_.path.split("::")[-1], ec_.line, ", ".join("`%s`: %s" % k_ for k_ in kept_[:3])))
    if n912 < 3:
        raise CheckerError("R9.12: only %d field enumeration loops found in the journal reader" % n912)

    # ------------------------------------------------------------ R9.13 the emergency stop of the field enumeration admits every entry journald can write
    # The renderers enumerate an entry's fields in `while counter < LIMIT` loops.  journald stores up to
    # 1024 fields per entry (ENTRY_FIELD_COUNT_MAX, journald-server.h); a smaller LIMIT silently drops the
    # remaining fields (defect F49: LIMIT was 200 - an entry with 250 fields was exported with 199).
    import ctrloop as _cl913
    R913 = rep.rule("R9.13", "the bound of every field enumeration loop is above journald's per-entry field limit (1024)")
    n913 = 0
    for r_ in _cl913.scan(prog, only=lambda p_: p_.startswith(JR + "::")):
        if not any("sd_journal_enumerate" in d_ for d_ in r_["callees"]):
            continue
        n913 += 1
        rep.examined(R913, "%s|%s" % (r_["fn"], r_["counter"]), sample={"function": r_["fn"].split("::")[-1], "line": r_["line"], "counter": r_["counter"], "bound": r_["bound"], "comparison": r_["cmp"]})
        try:
            bound_ = int(r_["bound"])
        except (TypeError, ValueError):
            raise CheckerError("R9.13: bound of the loop at %s line %s is not an integer constant" % (r_["fn"], r_["line"]))
        need_ = 1024 + (1 if r_["cmp"] == "Lt" else 0)
        if r_["cmp"] in ("Lt", "Le") and bound_ < need_:
            rep.violation(R913, "%s|%s|bound" % (r_["fn"], r_["counter"]), "%s: the field enumeration loop (line %s) stops after %s rounds; journald writes entries with up to 1024 fields, the fields beyond the bound are dropped from the rendering without a message"
                          % (r_["fn"].split("::")[-1], r_["line"], bound_))
    nenum913 = sum(1 for jb_ in prog.bodies() if jb_.path.startswith(JR + "::") and "_tests" not in jb_.path and "{closure" not in jb_.path
                   and any(c.d.endswith("call_sd_journal_enumerate_available_data") and c.d != jb_.path and any(c.bb in jb_.loop_blocks(h_) or c.bb == h_ for (_s, h_) in jb_.back_edges()) for c in jb_.live_calls()))
    rep.examined(R913, "journalreader|enumeration-loops", sample={"functions_with_a_field_enumeration_loop": nenum913, "of_which_counter_bounded": n913})
    if nenum913 < 3:
        raise CheckerError("R9.13: only %d field enumeration loops found" % nenum913)

    # ------------------------------------------------------------ R9.14 error kinds the reader tests for are kinds its errno mapping can produce
    # libsystemd failures reach the renderers as io::Errors whose kind comes from errno_to_errorkind().
    # A renderer that decides "skip this entry" versus "the journal is unreadable" by comparing the kind
    # with a constant relies on that mapping: a kind the mapping never returns makes the comparison
    # constantly false and its other branch unconditional.  (`kind == NotFound => ErrIgnore, else Err` in
    # next_cat: ENOENT maps to Other, so every entry without a MESSAGE field ends the journal.)
    R914 = rep.rule("R9.14", "every ErrorKind the journal reader compares with is in the image of errno_to_errorkind")
    em_ = prog.body("s4lib::readers::journalreader::errno_to_errorkind")
    image_ = set()
    for bb in sorted(em_.live):
        for st in em_.stmts(bb):
            if st[0] == "=" and st[1] == [0]:
                rv_ = st[2]
                if rv_[0] == "use" and rv_[1][0] == "k" and isinstance(rv_[1][2], dict) and "variant" in rv_[1][2]:
                    image_.add(rv_[1][2]["variant"])
                elif rv_[0] == "agg" and isinstance(rv_[1], dict) and "variant" in rv_[1]:
                    image_.add(rv_[1]["variant"])
    if len(image_) < 3:
        raise CheckerError("R9.14: image of errno_to_errorkind not tabulated (%s)" % sorted(image_))
    rep.examined(R914, em_.path + "|image", sample={"kinds_produced": sorted(image_)})
    n914 = 0
    for rb_ in prog.bodies():
        if not rb_.path.startswith("s4lib::readers::journalreader::") or "_tests" in rb_.path:
            continue
        for c in rb_.live_calls():
            if not (c.d.endswith("::eq") or c.d.endswith("::ne")) or "ErrorKind" not in c.f:
                continue
            kinds_ = set()
            for a_ in c.args:
                for o_ in rb_.origins(a_):
                    if o_[0] == "const":
                        m_ = _re912.search(r"'variant': '(\w+)'|\"variant\": \"(\w+)\"", str(o_[1]))
                        if m_:
                            kinds_.add(m_.group(1) or m_.group(2))
            for k_ in sorted(kinds_):
                n914 += 1
                rep.examined(R914, "%s|%s" % (rb_.path, k_), sample={"function": rb_.path.split("::")[-1], "line": c.line, "compared_with": k_, "produced_by_the_errno_mapping": k_ in image_})
                if k_ not in image_:
                    rep.violation(R914, "%s|kind-never-produced|%s" % (rb_.path, k_), "%s (line %d) compares an error's kind with ErrorKind::%s, which errno_to_errorkind never returns (it produces %s; ENOENT becomes Other); the comparison is constantly false, "
                                  "so the branch it was meant to select (skip an entry that merely lacks a field) never runs and the journal ends at the first such entry" % (rb_.path.split("::")[-1], c.line, k_, sorted(image_)))

    # ------------------------------------------------------------ R9.15 libsystemd is called through the signatures its header declares
    # The reader loads libsystemd at run time and calls it through a struct of function pointers
    # (libload::systemd_dlopen2::SdJournalHApi) whose types are written by hand; the repository also
    # carries bindgen's declarations of the same functions (bindings::sd_journal_h).  A field whose type
    # differs from the declaration of the same name calls the C function with the wrong arguments
    # (defect F51: sd_id128_get_boot declared with the three parameters of sd_journal_get_monotonic_usec -
    # the journal handle was taken for the output pointer and overwritten with the boot id).
    R915 = rep.rule("R9.15", "every function pointer of the libsystemd API struct has the signature bindgen declares for that name")
    api915 = prog.facts.adts.get("s4lib::libload::systemd_dlopen2::SdJournalHApi")
    if not api915 or not getattr(prog.facts, "foreign", None):
        raise CheckerError("R9.15: API struct SdJournalHApi or the foreign declarations are missing from the facts")
    n915 = 0

    def _norm915(t_):
        # the parameter list only: that is what the C function is handed.  A header function returning void that the
        # struct types as returning c_int (sd_journal_close, sd_journal_restart_data) is harmless as long as the value
        # is not used, and is not judged here.
        t_ = _re912.sub(r"\s+", " ", t_.replace("unsafe ", "").replace('extern "C" ', "")).strip()
        m_ = _re912.match(r"fn\((.*)\)( -> .*)?$", t_)
        return "fn(%s)" % m_.group(1) if m_ else t_
    for f_ in api915["variants"][0]["fields"]:
        if "fn(" not in f_["ty"]:
            continue
        decl_ = prog.facts.foreign.get("s4lib::bindings::sd_journal_h::" + f_["name"])
        n915 += 1
        same_ = decl_ is not None and _norm915(decl_) == _norm915(f_["ty"])
        rep.examined(R915, "SdJournalHApi|%s" % f_["name"], sample={"function": f_["name"], "field_type": _norm915(f_["ty"]), "declared": _norm915(decl_) if decl_ else None, "same": same_})
        if decl_ is None:
            raise CheckerError("R9.15: no bindgen declaration named %s" % f_["name"])
        if not same_:
            rep.violation(R915, "SdJournalHApi|%s|signature" % f_["name"], "libload::systemd_dlopen2 declares %s as `%s`, the header (bindings::sd_journal_h) as `%s`; calls through this pointer hand the C function the wrong arguments "
                          "(for sd_id128_get_boot: the journal handle in place of the output pointer - libsystemd overwrites its own journal object)" % (f_["name"], _norm915(f_["ty"]), _norm915(decl_)))
    if n915 < 8:
        raise CheckerError("R9.15: only %d function pointers in SdJournalHApi" % n915)

    return rep.finish(
        "Static necessary-condition check of the journal reader: the entry instant is the journal receive time (constant override; the window "
        "test value flows from sd_journal_get_realtime_usec) and -a/-b are converted as instants; libsystemd is only asked to seek in analyze "
        "and to advance once per produced entry, never backwards; the walk returns Done only at the end of the journal or on the inclusive "
        "window's AfterRange verdict; every rendering reaches its own renderer.",
        ["equality with journalctl output", "field escaping and truncation", "libsystemd's own enumeration order"])
