"""Partition rule for consecutive sub-slices of one base slice (highlighting code):
[..a] [a..b] [b..] must be contiguous - no gap (bytes lost) and no overlap (bytes repeated)."""
from mir import op_local


def sig(b, op, depth=0):
    """structural signature of an index expression"""
    if op[0] == "k":
        return ("k", op[2] if not isinstance(op[2], (dict, list)) else str(op[2])[:40])
    pl = op[1]
    if len(pl) != 1:
        return ("place", str(pl)[:60])
    l = pl[0]
    if b.local_name(l) or 1 <= l <= b.argc:
        return ("var", l)
    ds = b.defs.get(l, [])
    if len(ds) != 1 or depth > 6:
        return ("local", l)
    d = ds[0]
    if d[1] == "call":
        c = d[2]
        return ("call", c.d.split("::")[-1]) + tuple(sig(b, a, depth + 1) for a in c.args[:2])
    rv = d[2]
    if rv[0] == "use":
        return sig(b, rv[1], depth + 1)
    if rv[0] == "cast":
        return sig(b, rv[2], depth + 1)
    if rv[0] == "bin":
        op_ = rv[1].replace("WithOverflow", "").replace("Unchecked", "")
        return (op_, sig(b, rv[2], depth + 1), sig(b, rv[3], depth + 1))
    if rv[0] == "agg" and rv[1] == "tuple" and False:
        pass
    return ("local", l)


def index_calls(b):
    """(call, base signature, start sig|None, end sig|None) for every slice index by a Range* value"""
    res = []
    for c in b.live_calls():
        n = c.d.split("::")[-1]
        if n not in ("index", "index_mut") or len(c.args) < 2:
            continue
        rng = None
        for o in b.origins(c.args[1]):
            if o[0] == "agg":
                st = b.stmts(o[1])[o[2]]
                k = st[2][1]
                if isinstance(k, dict) and k.get("adt", "").startswith("std::ops::Range"):
                    rng = (k["adt"].split("::")[-1], k["fields"], st[2][2])
        if rng is None:
            continue
        kind, names, ops = rng
        start = end = None
        for nme, o in zip(names, ops):
            if nme == "start":
                start = sig(b, o)
            elif nme == "end":
                end = sig(b, o)
        base = []
        for o in b.origins(c.args[0], through_calls=("::deref", "::as_slice", "::as_ref")):
            base.append((o[0], o[1], o[2] if o[0] == "call" else ""))
        res.append((c, tuple(sorted(map(str, base))), start, end))
    return res


def written_index_calls(b):
    """index calls whose resulting sub-slice is handed to a byte sink (extend_from_slice / write_all / write)"""
    sinks = [c for c in b.live_calls() if c.d.split("::")[-1] in ("extend_from_slice", "write_all", "write") and len(c.args) >= 2]
    fed = set()
    for s_ in sinks:
        for o in b.origins(s_.args[1], through_calls=("::deref", "::as_ref", "::as_slice")):
            if o[0] == "call":
                fed.add(o[1])
    return [x for x in index_calls(b) if x[0].bb in fed]


def partition_chains(b):
    """chains of written pieces (distinct (base,start,end) index expressions) of the same base slice, ordered by
    dominance of their evaluations, with the contiguity verdict.  Macros re-evaluate `&x[a..b]` several times;
    all evaluations of one expression form one piece."""
    allc = index_calls(b)
    fed_bbs = set(x[0].bb for x in written_index_calls(b))
    pieces = {}
    for (c, base, st, en) in allc:
        pieces.setdefault((base, st, en), []).append(c)
    pieces = {k: v for k, v in pieces.items() if any(c.bb in fed_bbs for c in v)}
    by_base = {}
    for k, v in pieces.items():
        by_base.setdefault(k[0], []).append((k, v))
    verdicts = []
    for base, items in by_base.items():
        if len(items) < 2:
            continue

        def prec(P, Q):
            return any(p_.bb != q_.bb and b.dominates(p_.bb, q_.bb) for p_ in P[1] for q_ in Q[1]) and \
                not any(p_.bb != q_.bb and b.dominates(q_.bb, p_.bb) for p_ in P[1] for q_ in Q[1])
        parent = {}
        for X in items:
            doms = [Y for Y in items if Y is not X and prec(Y, X)]
            best = None
            for Y in doms:
                if best is None or prec(best, Y):
                    best = Y
            parent[id(X)] = best
        children = {}
        for X in items:
            P = parent[id(X)]
            if P is not None:
                children.setdefault(id(P), []).append(X)
        chains = []

        def walk(X, chain):
            chain = chain + [X]
            ch = children.get(id(X), [])
            if not ch:
                chains.append(chain)
            for Y in ch:
                walk(Y, chain)
        for R in [X for X in items if parent[id(X)] is None]:
            walk(R, [])
        for chain in chains:
            if len(chain) < 2:
                continue
            problems = []
            for prev, nxt in zip(chain, chain[1:]):
                pe, ns = prev[0][2], nxt[0][1]
                line = nxt[1][0].line
                if pe is None:
                    problems.append("a piece follows an open-ended piece (line %d)" % line)
                elif ns is None:
                    problems.append("the piece at line %d restarts at the slice beginning (bytes repeated)" % line)
                elif pe != ns:
                    problems.append("a piece ending at %s is followed by a piece starting at %s (line %d): bytes lost or repeated" % (pe, ns, line))
            verdicts.append(([x[1][0].line for x in chain], problems))
    return verdicts
