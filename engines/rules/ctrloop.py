"""Counter-bounded loops: `while counter < K { ... }` where the constant bound K is the loop's only
guarantee of termination ("emergency stop") - every way round the loop must increment the counter.
A `continue` that skips the increment turns a persistent error from the callee into an endless loop."""
from mir import op_local, op_place


def scan(prog, only=None):
    res = []
    for b in prog.bodies():
        p = b.path
        if not (p.startswith("s4::") or p.startswith("s4lib::")) or "_tests" in p:
            continue
        if only and not only(p):
            continue
        heads = {}
        for (src, h) in b.back_edges():
            heads.setdefault(h, []).append(src)
        for h, srcs in sorted(heads.items()):
            # the header (or the block it jumps to) ends in a switch on  counter < const
            t = b.term(h)
            if t[0] != "switch":
                continue
            cl = op_local(t[1])
            cmp_ = [s for s in b.stmts(h) if s[0] == "=" and s[1] == [cl] and s[2][0] == "bin" and s[2][1] in ("Lt", "Le", "Gt", "Ge", "Ne")]
            if not cmp_:
                continue
            rv = cmp_[0][2]
            ops = rv[2:4]
            consts = [o for o in ops if o[0] == "k"]
            vars_ = [o for o in ops if o[0] != "k"]
            if len(consts) != 1 or len(vars_) != 1:
                continue
            ctr = op_local(vars_[0])
            if ctr is not None and not b.local_name(ctr):
                cp_ = [s2 for s2 in b.stmts(h) if s2[0] == "=" and s2[1] == [ctr] and s2[2][0] == "use" and op_local(s2[2][1]) is not None]
                ctr = op_local(cp_[0][2][1]) if cp_ else None
            if ctr is None or not b.local_name(ctr):
                continue
            loop = set(b.loop_blocks(h)) | {h}
            incs = set()
            others = []
            for bb in loop:
                for s in b.stmts(bb):
                    if s[0] == "=" and s[1] == [ctr]:
                        r = s[2]
                        if r[0] == "bin" and r[1] in ("Add", "AddWithOverflow", "AddUnchecked", "Sub", "SubWithOverflow") and any(op_local(o) == ctr for o in r[2:4]):
                            incs.add(bb)
                        elif r[0] == "use" and op_place(r[1]) is not None and not b.local_name(op_place(r[1])[0]):
                            # counter = move (tmp.0) after a checked add: find the tmp
                            tl = op_place(r[1])[0]
                            for (db, di, drv) in b.defs.get(tl, []):
                                if di != "call" and drv[0] == "bin" and "Add" in drv[1] and any(op_local(o) == ctr for o in drv[2:4]):
                                    incs.add(bb)
                        else:
                            others.append(bb)
                t2 = b.term(bb)
                if t2[0] == "call" and t2[3] == [ctr]:
                    others.append(bb)
            if not incs:
                continue    # not a counter loop (the variable is advanced some other way)
            if others:
                continue    # the variable is also assigned other values: not a pure emergency counter
            bad = [src for src in srcs if src not in incs and h not in incs and not b.must_pass(h, src, incs)]
            callees = sorted(set(c.d for c in b.live_calls() if c.bb in loop))
            res.append({"callees": callees, "fn": p, "line": b.blocks[h].get("l"), "counter": b.local_name(ctr), "bound": consts[0][2], "cmp": rv[1],
                        "increment_blocks": len(incs), "back_edges": len(srcs), "back_edges_that_can_skip_the_increment": [b.blocks[x].get("l") for x in bad]})
    return res
