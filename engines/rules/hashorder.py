"""Hash-order independence: nothing that reaches stdout, and no choice between alternatives, may
depend on the iteration order of a randomly seeded std HashMap / HashSet.

std's default hasher (RandomState) is seeded per process, so two runs of the same command iterate
the same map in different orders.  An iteration is harmless when what it computes is independent of
the order (a count, a maximum, a test for all/any, entries stored under their own key, a sorted
copy).  It decides output as soon as it
  * keeps "the first item that is best so far" (an argmax with a strict comparison: ties go to
    whichever item the hash order happens to yield first),
  * appends to a sequence, writes to stdout or sends on a channel per item,
  * or hands the items to an order-sensitive consumer (find, next, max_by_key, fold, collect::<Vec>).

analyse(prog) returns one record per iteration site with a verdict:
  ok        - order-insensitive by one of the recognised idioms (named in `why`)
  sensitive - an order-dependent effect was found (named in `why`)
Unrecognised shapes raise CheckerError (fail closed) - they are neither.
"""
import re

from mir import CheckerError, is_bare, op_local, op_place, place_local

PRODUCERS = ("iter", "iter_mut", "into_iter", "keys", "values", "values_mut", "drain", "into_keys", "into_values")
ADAPTORS = ("map", "filter", "filter_map", "cloned", "copied", "by_ref", "into_iter", "inspect", "flat_map", "flatten", "chain")
INSENSITIVE = ("all", "any", "count", "sum", "product", "max", "min", "len", "sorted", "sorted_by", "sorted_by_key", "sorted_unstable",
               "sorted_unstable_by", "sorted_unstable_by_key", "sorted_by_cached_key", "is_empty")
KEYED = re.compile(r"(HashMap|BTreeMap|HashSet|BTreeSet)::<.*>::(insert|remove|entry|get_mut|contains_key|contains|get|remove_entry|or_insert|or_insert_with|or_default|and_modify)\b")
SEQ_SINK = re.compile(r"(Vec::<.*>|VecDeque::<.*>|String|LinkedList::<.*>)::(push|push_back|push_front|push_str|extend|extend_from_slice|insert|append)\b|Sender::<.*>::(send|try_send|send_timeout)\b")
STDOUT_SINKS = ("std::io::stdout", "std::io::_print", "termcolor::StandardStream::stdout", "termcolor::BufferedStandardStream::stdout",
                "s4lib::printer::printers::write_stdout", "termcolor::BufferWriter::stdout", "s4lib::printer::printers::print_colored_stdout")


def _is_hash_ty(t):
    """std HashMap/HashSet with the default (randomly seeded) hasher; an explicit third/second type
    argument (a fixed BuildHasher) makes the order a function of the keys and is not our business"""
    if t is None:
        return False
    t = t.lstrip("&").replace("mut ", "").strip()
    m = re.match(r"std::collections::(HashMap|HashSet|hash_map::\w+|hash_set::\w+)<(.*)>$", t)
    if not m:
        return False
    kind = m.group(1)
    # count top-level generic arguments
    depth = 0
    n = 1
    for ch in m.group(2):
        if ch in "<([":
            depth += 1
        elif ch in ">)]":
            depth -= 1
        elif ch == "," and depth == 0:
            n += 1
    args = m.group(2)
    # lifetimes do not count
    nl = len(re.findall(r"(^|, )'[a-z_0-9]+", args))
    n -= nl
    if kind == "HashMap":
        return n == 2
    if kind == "HashSet":
        return n == 1
    return True  # iterator types never show the hasher


def _is_stdout_write(c):
    """a call that puts bytes on standard output (obtaining the handle is not a write)"""
    selfty = c.callee.get("self") or ""
    if c.d in ("std::io::_print", "s4lib::printer::printers::write_stdout", "s4lib::printer::printers::print_colored_stdout"):
        return True
    if c.o.startswith("std::io::Write::") and c.o.split("::")[-1] in ("write", "write_all", "write_fmt", "write_vectored") and "Stdout" in selfty:
        return True
    if c.d.startswith("s4lib::printer::printers::PrinterLogMessage::print_"):
        return True
    return False


def _stdout_reach(prog, cache, fn):
    if "__writers" not in cache:
        w = {}
        for b in prog.bodies():
            for c in b.live_calls():
                if _is_stdout_write(c):
                    w[b.path] = c.d
                    break
        cache["__writers"] = w
    if fn in cache:
        return cache[fn]
    w = cache["__writers"]
    hit = None
    if fn.startswith("s4lib::printer::printers::PrinterLogMessage::print_"):
        hit = (fn, fn)
    else:
        for g in prog.reachable_fns([fn]):
            if g in w:
                hit = (g, w[g])
                break
    cache[fn] = hit
    return hit


def _uses(body, local):
    """(kind, bb, obj): statements that copy/move the bare local, calls that take it as an argument"""
    res = []
    for bb in sorted(body.live):
        for i, s in enumerate(body.blocks[bb]["s"]):
            if s[0] != "=":
                continue
            rv = s[2]
            if rv[0] in ("use", "ref", "cast") and len(rv) > 1:
                pl = None
                if rv[0] == "use":
                    pl = op_place(rv[1])
                elif rv[0] == "cast":
                    pl = op_place(rv[2])
                elif rv[0] == "ref":
                    pl = rv[2]
                if pl is not None and place_local(pl) == local and (is_bare(pl) or (rv[0] == "ref" and all(e == "*" for e in pl[1:]))):
                    res.append(("assign", bb, s))
        t = body.blocks[bb]["t"]
        if t[0] == "call":
            for k, a in enumerate(t[2]):
                if op_local(a) == local and is_bare(op_place(a)):
                    from mir import Call
                    res.append(("arg%d" % k, bb, Call(body, bb, t)))
    return res


def _outer_locals(body, loop):
    """locals that carry a value into the loop: defined (or partly defined) in a live block outside it, or arguments"""
    out = set(range(1, body.j.get("argc", 0) + 1))
    out.add(0)
    for l, ds in body.defs.items():
        if any(d[0] not in loop for d in ds):
            out.add(l)
    for l, ds in body.pdefs.items():
        if any(d[0] not in loop for d in ds):
            out.add(l)
    return out


def _root_outer(body, op_or_place, outer, loop, depth=0, is_place=False):
    """follows refs/copies of temporaries defined inside the loop back to an outer local; returns it or None"""
    pl = op_or_place if is_place else op_place(op_or_place)
    if pl is None:
        return None
    l = place_local(pl)
    if l in outer:
        return l
    if depth > 6:
        return None
    for (bb, i, rv) in body.defs.get(l, []):
        if bb not in loop or i == "call":
            continue
        if rv[0] == "ref":
            r = _root_outer(body, rv[2], outer, loop, depth + 1, is_place=True)
            if r is not None:
                return r
        elif rv[0] in ("use", "cast"):
            r = _root_outer(body, rv[1] if rv[0] == "use" else rv[2], outer, loop, depth + 1)
            if r is not None:
                return r
    return None


def _mut_ref_root(body, op, outer, loop, depth=0):
    """if the operand is (a reborrow of) `&mut outer...` built inside the loop, the outer local"""
    pl = op_place(op)
    if pl is None:
        return None
    l = place_local(pl)
    ty = body.local_ty(l) or ""
    if l in outer:
        return l if ty.startswith("&mut") else None
    if depth > 6:
        return None
    for (bb, i, rv) in body.defs.get(l, []):
        if bb not in loop or i == "call":
            continue
        if rv[0] == "ref" and "mut" in str(rv[1]):
            tgt = rv[2]
            tl = place_local(tgt)
            if tl in outer:
                return tl
            r = _mut_ref_root(body, ("mv", tgt), outer, loop, depth + 1)
            if r is not None:
                return r
        elif rv[0] in ("use", "cast"):
            r = _mut_ref_root(body, rv[1] if rv[0] == "use" else rv[2], outer, loop, depth + 1)
            if r is not None:
                return r
    return None


def _accumulates(body, rv, target, outer, loop, depth=0):
    """rvalue is  target (+|max|min|'|'|&) something"""
    if rv[0] == "bin" and rv[1] in ("Add", "AddWithOverflow", "AddUnchecked", "BitOr", "BitAnd", "Mul", "MulWithOverflow"):
        for o in rv[2:4]:
            if _root_outer(body, o, outer, loop) == target:
                return True
        return False
    if rv[0] in ("use", "cast") and depth < 4:
        pl = op_place(rv[1] if rv[0] == "use" else rv[2])
        if pl is None:
            return False
        l = place_local(pl)
        if l in outer:
            return False
        for (bb, i, rv2) in body.defs.get(l, []):
            if bb not in loop:
                continue
            if i == "call":
                c = rv2
                if re.search(r"(cmp::(max|min)|Ord::(max|min))\b", c.d + " " + c.o) and any(_root_outer(body, a, outer, loop) == target for a in c.args):
                    return True
                return False
            if _accumulates(body, rv2, target, outer, loop, depth + 1):
                return True
    return False


def _named_root(body, op, depth=0):
    """the local an `&mut x` / `&mut *x` / deref_mut(x) argument ultimately borrows"""
    pl = op_place(op)
    if pl is None:
        return None
    l = place_local(pl)
    if body.local_name(l) or depth > 6:
        return l
    for (bb, i, rv) in body.defs.get(l, []):
        if i == "call":
            c = rv
            if c.args and ("deref" in c.d or "as_mut" in c.d or "borrow_mut" in c.d):
                return _named_root(body, c.args[0], depth + 1)
            continue
        if rv[0] == "ref":
            return _named_root(body, ("mv", rv[2]), depth + 1)
        if rv[0] in ("use", "cast"):
            return _named_root(body, rv[1] if rv[0] == "use" else rv[2], depth + 1)
    return l


def loop_effects(prog, body, header, cache):
    """order-dependent effects of the natural loop whose header holds the hash iterator's next()"""
    loop = set(body.loop_blocks(header)) | {header}
    outer = _outer_locals(body, loop)
    # the iterator variable itself is loop-carried by construction
    it = None
    t = body.blocks[header]["t"]
    sens = []
    ok = []
    for bb in sorted(loop & body.live):
        for s in body.blocks[bb]["s"]:
            if s[0] != "=":
                continue
            pl, rv = s[1], s[2]
            l = place_local(pl)
            tgt = None
            if l in outer:
                tgt = l
            else:
                # write through a reference temp that points at an outer local
                if not is_bare(pl):
                    tgt = _root_outer(body, pl, outer, loop, is_place=True)
            if tgt is None:
                continue
            ty = body.local_ty(tgt) or ""
            if "hash_map::" in ty or "hash_set::" in ty:
                continue  # the iterator
            if rv[0] == "use" and op_place(rv[1]) is None:
                ok.append("constant stored in %s" % (body.local_name(tgt) or "_%d" % tgt))
                continue
            if rv[0] in ("ref", "discr", "len"):
                if is_bare(pl) and tgt == l and not body.local_name(tgt):
                    continue
            if _accumulates(body, rv, tgt, outer, loop):
                ok.append("commutative accumulation into %s" % (body.local_name(tgt) or "_%d" % tgt))
                continue
            if not body.local_name(tgt) and tgt != 0:
                # unnamed compiler temporaries that happen to be initialised before the loop (drop flags etc.)
                if rv[0] == "use" and op_place(rv[1]) is None:
                    continue
                if (body.local_ty(tgt) or "") == "bool":
                    continue
            sens.append("an item-dependent value is stored in `%s` (line %s): whichever item the hash order yields %s wins" % (
                body.local_name(tgt) or ("the return value" if tgt == 0 else "_%d" % tgt), body.blocks[bb].get("l"), "first or last"))
        t = body.blocks[bb]["t"]
        if t[0] != "call":
            continue
        from mir import Call
        c = Call(body, bb, t)
        if bb == header:
            continue
        # destination
        dl = place_local(c.dest)
        if dl in outer and not ("hash_map::" in (body.local_ty(dl) or "") or "hash_set::" in (body.local_ty(dl) or "")):
            if re.search(r"(cmp::(max|min)|Ord::(max|min))\b", c.d + " " + c.o) and any(_root_outer(body, a, outer, loop) == dl for a in c.args):
                ok.append("running max/min in %s" % (body.local_name(dl) or "_%d" % dl))
            elif body.local_name(dl) or dl == 0:
                sens.append("the result of %s is stored in `%s` (line %s) per item" % (c.d.split("::")[-1], body.local_name(dl) or "return value", c.line))
        # &mut outer arguments
        for a in c.args:
            r = _mut_ref_root(body, a, outer, loop)
            if r is None:
                continue
            rty = body.local_ty(r) or ""
            if "hash_map::" in rty or "hash_set::" in rty:
                continue
            if KEYED.search(c.f) or KEYED.search(c.d):
                ok.append("entry stored under its own key in %s" % (body.local_name(r) or "_%d" % r))
            elif SEQ_SINK.search(c.f) or SEQ_SINK.search(c.d):
                # a sequence that is sorted after the loop is order-free again
                sorted_after = False
                for x in body.live_calls():
                    if x.bb in loop or not re.search(r"::sort(_by|_by_key|_unstable|_unstable_by|_unstable_by_key|_by_cached_key)?$", x.d):
                        continue
                    if any(_named_root(body, a2) == r for a2 in x.args):
                        sorted_after = True
                if sorted_after:
                    ok.append("sequence `%s` filled in hash order and sorted afterwards" % (body.local_name(r) or "_%d" % r))
                else:
                    sens.append("%s on `%s` (line %s): the sequence is built in hash order" % (c.d.split("::")[-1], body.local_name(r) or "_%d" % r, c.line))
            elif c.d.startswith("core::fmt") or c.d.startswith("std::fmt") or "Formatter" in c.d or "fmt::Arguments" in c.d:
                continue
            elif c.o.startswith("std::io::Write::") or c.o.startswith("core::fmt::Write::"):
                sens.append("%s into `%s` (line %s) per item" % (c.o.split("::")[-1], body.local_name(r) or "_%d" % r, c.line))
            elif c.d.startswith("s4::") or c.d.startswith("s4lib::"):
                hit = _stdout_reach(prog, cache, c.d)
                if hit:
                    sens.append("%s (line %s) writes to stdout per item (through %s)" % (c.d.split("::")[-1], c.line, hit[0].split("::")[-1]))
                else:
                    ok.append("call %s with &mut %s (no stdout sink reachable)" % (c.d.split("::")[-1], body.local_name(r) or "_%d" % r))
        # stdout per item
        if c.d.startswith("s4::") or c.d.startswith("s4lib::"):
            hit = _stdout_reach(prog, cache, c.d)
            if hit:
                sens.append("%s (line %s) writes to stdout per item (through %s)" % (c.d.split("::")[-1], c.line, hit[0].split("::")[-1]))
        elif _is_stdout_write(c):
            sens.append("%s (line %s) writes to stdout per item" % (c.d, c.line))
        elif SEQ_SINK.search(c.f) and "Sender" in c.f:
            sens.append("send (line %s) per item" % c.line)
    return sens, ok


def analyse(prog, only=None):
    res = []
    cache = {}
    for b in prog.bodies():
        p = b.path
        if not (p.startswith("s4::") or p.startswith("s4lib::")) or "_tests" in p or "::tests::" in p:
            continue
        if only and not only(p):
            continue
        headers_done = set()
        for c in b.live_calls():
            name = c.d.split("::")[-1]
            st = c.callee.get("self") or ""
            prod = False
            if name in PRODUCERS and _is_hash_ty(st) and not re.match(r"&?(mut )?std::collections::hash_(map|set)::", st.lstrip("&")):
                prod = True
            if not prod:
                continue
            site = {"fn": p, "line": c.line, "container": st, "producer": name}
            # follow the produced iterator
            cur = place_local(c.dest)
            verdict = None
            why = []
            hops = 0
            while verdict is None and hops < 8:
                hops += 1
                us = [u for u in _uses(b, cur)]
                calls = [u for u in us if u[0].startswith("arg")]
                assigns = [u for u in us if u[0] == "assign"]
                nxt = None
                for (k, bb, cc) in calls:
                    nm = cc.d.split("::")[-1]
                    if nm == "next" and k == "arg0":
                        nxt = ("loop", bb, cc)
                        break
                    if k != "arg0":
                        continue
                    if nm in INSENSITIVE:
                        verdict = "ok"; why.append("consumed by %s()" % nm); break
                    if nm in ("collect", "from_iter"):
                        dty = b.local_ty(place_local(cc.dest)) or ""
                        if re.search(r"(BTreeMap|BTreeSet|HashMap|HashSet|BinaryHeap)<", dty):
                            verdict = "ok"; why.append("collected into %s" % dty.split("<")[0].split("::")[-1])
                        else:
                            dl = place_local(cc.dest)
                            sorted_later = any(re.search(r"::sort(_by|_by_key|_unstable|_unstable_by|_unstable_by_key|_by_cached_key)?$", x.d) and
                                               any(op_local(a) is not None for a in x.args) for x in b.live_calls() if b.reaches(cc.bb, x.bb))
                            if sorted_later:
                                verdict = "ok"; why.append("collected and sorted")
                            else:
                                verdict = "sensitive"; why.append("collected into %s in hash order (line %s)" % (dty.split("<")[0], cc.line))
                        break
                    if nm in ADAPTORS:
                        nxt = ("adapt", bb, cc)
                        break
                    verdict = "sensitive"; why.append("consumed by %s() (line %s), whose result depends on the order of the items" % (nm, cc.line))
                    break
                if verdict:
                    break
                if nxt and nxt[0] == "adapt":
                    cur = place_local(nxt[2].dest)
                    continue
                if nxt and nxt[0] == "loop":
                    # `next` takes &mut iter: handled below
                    pass
                if not nxt:
                    # moved into the loop variable, or borrowed for next()
                    moved = None
                    for (k, bb, s) in assigns:
                        moved = place_local(s[1])
                        break
                    if moved is not None:
                        # is `moved` a &mut borrow used by next()?
                        cur = moved
                        continue
                    raise CheckerError("hash-order: cannot follow the iterator produced at %s line %s" % (p, c.line))
                hdr = nxt[1]
                if hdr not in [h for (_, h) in b.back_edges()]:
                    verdict = "sensitive"; why.append("next() outside a loop (line %s) takes whichever item comes first" % nxt[2].line)
                    break
                if hdr in headers_done:
                    verdict = "dup"
                    break
                headers_done.add(hdr)
                sens, ok = loop_effects(prog, b, hdr, cache)
                if sens:
                    verdict = "sensitive"; why = sorted(set(sens))
                else:
                    verdict = "ok"; why = sorted(set(ok)) or ["no effect outlives an iteration"]
            if verdict is None:
                raise CheckerError("hash-order: iterator chain too long at %s line %s" % (p, c.line))
            if verdict == "dup":
                continue
            site["verdict"] = verdict
            site["why"] = why
            res.append(site)
    return res
