"""C16 — the reader for a file is chosen from its name alone, for every name.

Decides (on filepreprocessor::pathbuf_to_filetype_impl):
  R16.1 the suffix table and the bare-name table map every shared type word to the same reader
        (FileType variant + fixed-struct subtype), and every constructed FileType carries the
        container variable (the incoming/derived archive kind), never a constant.
  R16.2 recursion carries state: every self-call passes unparseable_are_text unchanged and Some(x)
        with x the incoming archive kind (numeric/unknown suffix) or the archive constant of the
        matched compression literal; each compression literal maps to one archive kind, distinct
        kinds for distinct families; no self-call passes None.
  R16.3 case-insensitivity: every literal comparison is against a to_ascii_lowercase()d string.
  R16.4 termination: every self-call's path is with_extension("") of the incoming path, under a
        condition that implies a non-empty suffix (each call strictly shortens the name).
  R16.5 junk trimming removes all leading/trailing junk characters (trim_*_matches over the
        documented sets), not just one.
  R16.14 a constant length limit that process_path_tar puts on the whole member path admits every
         path of up to PATH_MAX-1 (4095) bytes - a lower bound; no guard at all also passes.
Does not decide: Path::extension semantics on odd names (trusted std).
"""
import json

import decide
from mir import CheckerError, op_local
from c08 import var_of

FN = "s4lib::readers::filepreprocessor::pathbuf_to_filetype_impl"
# the junk characters the property names: "leading or trailing junk characters (~ - , ? ; .)"
TRAIL = {"~", "-", ",", "?", ";", "."}
LEAD = {"~", "-", ",", "?", ";", "."}


def const_of(b, op):
    if op[0] == "k":
        return op[2]
    for o in b.origins(op):
        if o[0] == "const":
            try:
                return json.loads(o[1])
            except Exception:
                import ast
                try:
                    return ast.literal_eval(o[1])
                except Exception:
                    return o[1]
    return None


def variant_of(b, op):
    """enum variant name of an operand built as a constant or as a field-less aggregate"""
    cv = const_of(b, op)
    if isinstance(cv, dict) and "variant" in cv:
        return cv["variant"]
    vs = set()
    for o in b.origins(op):
        if o[0] == "agg":
            k = b.stmts(o[1])[o[2]][2][1]
            if isinstance(k, dict) and "variant" in k:
                vs.add(k["variant"])
    return next(iter(vs)) if len(vs) == 1 else None


def run(prog, rep, tier):
    R161 = rep.rule("R16.1", "suffix and bare-name tables agree; every FileType carries the container variable")
    R162 = rep.rule("R16.2", "recursion carries unparseable flag and container kind")
    R163 = rep.rule("R16.3", "literal comparisons are on lower-cased strings")
    R164 = rep.rule("R16.4", "every self-call strictly shortens the name")
    R165 = rep.rule("R16.5", "junk trimming removes all junk characters of the documented sets")
    b = prog.body(FN)

    # the container variable: a FileTypeArchive local defined from arg3's Some payload or the Normal constant
    fta = None
    for l, ds in b.defs.items():
        if b.local_ty(l) != "s4lib::common::FileTypeArchive" or len(ds) != 2:
            continue
        kinds = set()
        for d in ds:
            if d[1] == "call":
                continue
            rv = d[2]
            if rv[0] == "use" and rv[1][0] in ("cp", "mv") and any(o[0] == "arg" and o[1] == 3 for o in b.origins(rv[1])):
                kinds.add("arg")
            elif rv[0] == "use" and rv[1][0] == "k" and isinstance(rv[1][2], dict) and rv[1][2].get("variant") == "Normal":
                kinds.add("normal")
            elif rv[0] == "agg" and isinstance(rv[1], dict) and rv[1].get("variant") == "Normal":
                kinds.add("normal")
        if kinds == {"arg", "normal"}:
            fta = l
    if fta is None:
        raise CheckerError("pathbuf_to_filetype_impl: container variable (incoming archive kind or Normal) not found")

    def is_fta(op):
        return var_of(b, op) == fta or (op[0] in ("cp", "mv") and op[1] == [fta])

    # lower-cased strings
    lowers = [c for c in b.live_calls() if c.d.endswith("::to_ascii_lowercase")]
    if len(lowers) != 2:
        raise CheckerError("pathbuf_to_filetype_impl: %d to_ascii_lowercase calls (suffix and name expected)" % len(lowers))
    l0, l1 = lowers
    if not b.dominates(l0.bb, l1.bb):
        l0, l1 = l1, l0
    lowers = [l0, l1]
    role_of_bb = {lowers[0].bb: "suffix", lowers[1].bb: "name"}

    # ---- literal comparisons
    eqs = [c for c in b.live_calls() if c.d.endswith("PartialEq for str>::eq") or (c.o == "std::cmp::PartialEq::eq" and "str" in (c.callee.get("self") or ""))]
    table = {"suffix": {}, "name": {}}
    arms = {}
    for c in eqs:
        lit = const_of(b, c.args[1])
        if not isinstance(lit, str):
            continue
        roles = set()
        for o in b.origins(c.args[0], through_calls=("::as_str", "::deref", "Deref>::deref")):
            if o[0] == "call" and o[1] in role_of_bb:
                roles.add(role_of_bb[o[1]])
            else:
                roles.add("raw:" + o[0])
        inst = "%s|lit:%s" % (FN, lit)
        rep.examined(R163, inst, sample={"literal": lit, "compared_with": sorted(roles)})
        if len(roles) != 1 or not (roles <= {"suffix", "name"}):
            rep.violation(R163, inst, "pathbuf_to_filetype_impl: %r is compared with a string that was not lower-cased (%s); upper/mixed-case names would be classified differently" % (lit, sorted(roles)))
            continue
        role = next(iter(roles))
        t = b.term(c.target)
        if t[0] != "switch" or op_local(t[1]) != c.dest[0]:
            raise CheckerError("pathbuf_to_filetype_impl: comparison with %r is not branched on" % lit)
        tm = {int(v): tb for v, tb in t[2]}
        true_t = t[3] if 0 in tm else tm.get(1)
        arms.setdefault((role, true_t), []).append(lit)
    if len(arms) < 10:
        raise CheckerError("pathbuf_to_filetype_impl: only %d match arms recognised" % len(arms))

    def follow(bb):
        seen = set()
        while bb not in seen:
            seen.add(bb)
            t = b.term(bb)
            if t[0] == "goto" and not b.stmts(bb):
                bb = t[1]
            else:
                break
        return bb

    def arm_result(tgt):
        """('filetype', variant, subtype, archival_ok) | ('archive', ..) | ('recurse', arg2_ok, arg3desc) | ('fallthrough',)"""
        region = [x for x in sorted(b.live) if b.dominates(tgt, x)]
        # stop at the first return-producing construct
        for x in region:
            for s in b.stmts(x):
                if s[0] == "=" and s[2][0] == "agg" and isinstance(s[2][1], dict) and s[2][1].get("adt") == "s4lib::common::FileType":
                    k = s[2][1]
                    names = k["fields"]
                    sub = None
                    arch_ok = True
                    for n, o in zip(names, s[2][2]):
                        if n == "archival_type":
                            arch_ok = is_fta(o)
                        if n == "fixedstruct_type":
                            sub = variant_of(b, o)
                    return ("filetype", k["variant"], sub, arch_ok, b.blocks[x].get("l"))
                if s[0] == "=" and s[2][0] == "agg" and isinstance(s[2][1], dict) and s[2][1].get("adt", "").endswith("PathToFiletypeResult") and s[2][1].get("variant") == "Archive":
                    arch_ok = all(is_fta(o) or (const_of(b, o) is not None and isinstance(const_of(b, o), dict) and "Multiple" in const_of(b, o).get("adt", "")) for o in s[2][2])
                    return ("archive", "Tar", None, arch_ok, b.blocks[x].get("l"))
            t = b.term(x)
            if t[0] == "call" and t[1].get("d") == FN:
                return ("recurse", x)
        # constant result (Unparsable etc.)
        for x in region:
            for s in b.stmts(x):
                if s[0] == "=" and s[2][0] == "use" and s[2][1][0] == "k" and isinstance(s[2][1][2], dict) and "PathToFiletypeResult" in s[2][1][2].get("adt", ""):
                    return ("const", json.dumps(s[2][1][2], sort_keys=True)[:120])
        return ("fallthrough",)

    results = {}
    for (role, tgt), lits in sorted(arms.items(), key=lambda kv: str(kv[0])):
        res = arm_result(tgt)
        for lit in lits:
            table[role][lit] = res
        results[(role, tgt)] = res
    # R16.1 agreement
    shared = sorted(set(table["suffix"]) & set(table["name"]))
    for lit in shared:
        a, c_ = table["suffix"][lit], table["name"][lit]
        inst = "%s|word:%s" % (FN, lit)
        rep.examined(R161, inst, sample={"word": lit, "as_suffix": [str(x) for x in a[:3]], "as_name": [str(x) for x in c_[:3]]})
        if a[:3] != c_[:3]:
            rep.violation(R161, inst, "pathbuf_to_filetype_impl: type word %r selects %s as a suffix but %s as a bare name" % (lit, a[1:3], c_[1:3]))
    if len(shared) < 6:
        raise CheckerError("only %d type words shared between the suffix and bare-name tables" % len(shared))
    # every FileType aggregate in the whole function carries the container variable
    nagg = 0
    for x in sorted(b.live):
        for s in b.stmts(x):
            if s[0] == "=" and s[2][0] == "agg" and isinstance(s[2][1], dict) and s[2][1].get("adt") == "s4lib::common::FileType":
                k = s[2][1]
                for n, o in zip(k["fields"], s[2][2]):
                    if n == "archival_type":
                        nagg += 1
                        inst = "%s|FileType::%s@%s" % (FN, k["variant"], "container")
                        okc = is_fta(o)
                        rep.examined(R161, "%s|agg%d" % (FN, nagg), sample={"constructs": k["variant"], "line": b.blocks[x].get("l"), "container_is_variable": okc})
                        if not okc:
                            words = [l for (r, t_), ls in arms.items() for l in ls if b.dominates(t_, x)]
                            rep.violation(R161, "%s|container|%s|%s" % (FN, k["variant"], ",".join(sorted(words))[:60]),
                                          "pathbuf_to_filetype_impl: FileType::%s built at line %s (words %s) does not carry the container kind found so far; a compression suffix after this type word is lost and compressed bytes go to the plain reader" % (
                                              k["variant"], b.blocks[x].get("l"), sorted(words)[:6]))
    if nagg < 8:
        raise CheckerError("only %d FileType constructions found" % nagg)

    # ------------------------------------------------------------ R16.2 / R16.4
    selfcalls = [c for c in b.live_calls() if c.d == FN]
    if len(selfcalls) < 2:
        raise CheckerError("pathbuf_to_filetype_impl: %d self-calls" % len(selfcalls))
    arch_by_lit = {}
    any_computed = False
    for i, c in enumerate(selfcalls):
        inst = "%s|selfcall#%d" % (FN, i)
        a2 = b.origins(c.args[1])
        ok2 = a2 and all(x[0] == "arg" and x[1] == 2 and not x[2] for x in a2)
        # arg3
        desc = None
        for x in b.origins(c.args[2]):
            if x[0] == "agg":
                st = b.stmts(x[1])[x[2]]
                k = st[2][1]
                if isinstance(k, dict) and k.get("variant") == "Some":
                    o = st[2][2][0]
                    if is_fta(o):
                        desc = "incoming"
                    else:
                        v_ = variant_of(b, o)
                        if v_:
                            desc = "const:" + v_
                elif isinstance(k, dict) and k.get("variant") == "None":
                    desc = "None"
            elif x[0] == "const":
                try:
                    cv = json.loads(x[1])
                    if cv.get("variant") == "None":
                        desc = "None"
                    elif cv.get("variant") == "Some":
                        inner = cv["fields"].get("0")
                        desc = "const:" + inner.get("variant") if isinstance(inner, dict) else "const:?"
                except Exception:
                    pass
        lits = [l for (r, t_), ls in arms.items() for l in ls if b.dominates(t_, c.bb)]
        rep.examined(R162, inst, sample={"line": c.line, "under_literals": sorted(lits), "unparseable_flag_unchanged": bool(ok2), "container_passed": desc})
        if not ok2:
            rep.violation(R162, inst + "|flag", "pathbuf_to_filetype_impl: the self-call at line %d does not pass unparseable_are_text unchanged" % c.line)
        computed = desc is None and any(x[0] == "agg" for x in b.origins(c.args[2])) and not any(
            isinstance(b.stmts(x[1])[x[2]][2][1], dict) and b.stmts(x[1])[x[2]][2][1].get("variant") == "None" for x in b.origins(c.args[2]) if x[0] == "agg")
        if computed:
            any_computed = True      # Some(<value chosen by an inner match>): decided per suffix by R16.11
        elif desc is None or desc == "None":
            rep.violation(R162, inst + "|container", "pathbuf_to_filetype_impl: the self-call at line %d passes %s as the container kind; the kind found so far is lost" % (c.line, desc))
        elif lits:
            if desc == "incoming":
                rep.violation(R162, inst + "|container", "pathbuf_to_filetype_impl: the self-call under compression suffix %s does not record that container" % sorted(lits))
            else:
                v = desc.split(":", 1)[1]
                for l in lits:
                    arch_by_lit[l] = v
                    if not l.startswith(v.lower()):
                        rep.violation(R162, inst + "|container-name", "pathbuf_to_filetype_impl: compression suffix %r records container %s" % (l, v))
        else:
            if desc != "incoming":
                rep.violation(R162, inst + "|container", "pathbuf_to_filetype_impl: a self-call for a numeric/unknown suffix (line %d) replaces the container kind by %s" % (c.line, desc))
        # R16.4
        src = b.origins(c.args[0])
        shrink = False
        for x in src:
            if x[0] == "call" and x[2].endswith("Path::with_extension"):
                wc = [z for z in b.calls if z.bb == x[1]][0]
                ext = const_of(b, wc.args[1])
                recv = b.origins(wc.args[0], through_calls=("::clone", "::deref", "Deref>::deref", "::as_path"))
                if ext == "" and recv and all(y[0] == "arg" and y[1] == 1 for y in recv):
                    shrink = True
        # guard implying a non-empty suffix: a matched literal, a successful integer parse, or !is_empty
        guard = None
        if lits:
            guard = "literal"
        else:
            for g in b.live_calls():
                if g.target is None:
                    continue
                t = b.term(g.target)
                if t[0] != "switch" or op_local(t[1]) != g.dest[0]:
                    continue
                tm = {int(v): tb for v, tb in t[2]}
                true_t = t[3] if 0 in tm else tm.get(1)
                false_t = tm.get(0)
                if g.d.endswith("::is_ok") and true_t is not None and b.dominates(true_t, c.bb):
                    po = b.origins(g.args[0])
                    if any(y[0] == "call" and "::parse" in y[2] for y in po):
                        guard = "numeric"
                if g.d.endswith("::is_empty") and false_t is not None and b.dominates(false_t, c.bb):
                    eo = b.origins(g.args[0], through_calls=("::as_str", "::deref", "Deref>::deref"))
                    if any(y[0] == "call" and y[1] == lowers[0].bb for y in eo):
                        guard = "non-empty suffix"
        rep.examined(R164, inst, sample={"line": c.line, "path_is_with_extension_empty_of_incoming": shrink, "guard": guard})
        if not shrink:
            rep.violation(R164, inst + "|path", "pathbuf_to_filetype_impl: the self-call at line %d is not given with_extension(\"\") of the incoming path" % c.line)
        if guard is None:
            rep.violation(R164, inst + "|guard", "pathbuf_to_filetype_impl: the self-call at line %d is not guarded by a non-empty suffix; classification may not terminate" % c.line)
    kinds = {}
    for l, v in arch_by_lit.items():
        kinds.setdefault(v, []).append(l)
    rep.examined(R162, FN + "|compression-table", sample={"literal_to_container": arch_by_lit})
    want = {"Gz", "Bz2", "Xz", "Lz4"}
    if set(kinds) != want and not any_computed:
        rep.violation(R162, FN + "|compression-table", "pathbuf_to_filetype_impl: compression suffixes map to %s, expected one each of %s" % (sorted(kinds), sorted(want)))

    # ------------------------------------------------------------ R16.5
    te = [c for c in b.live_calls() if c.d.endswith("::trim_end_matches")]
    ts = [c for c in b.live_calls() if c.d.endswith("::trim_start_matches")]
    strip = [c for c in b.live_calls() if c.d.split("::")[-1] in ("strip_suffix", "strip_prefix", "trim_end_matches_once")]
    sets_e = [set(const_of(b, c.args[1]) or []) for c in te]
    sets_s = [set(const_of(b, c.args[1]) or []) for c in ts]
    rep.examined(R165, FN + "|junk", sample={"trailing_sets": [sorted(x) for x in sets_e], "leading_sets": [sorted(x) for x in sets_s], "single_strip_calls": [c.d.split("::")[-1] for c in strip]})
    if strip:
        rep.violation(R165, FN + "|junk|single", "pathbuf_to_filetype_impl: %s removes a single junk character; names with two or more junk characters keep some and lose their type word" % strip[0].d.split("::")[-1])
    if not any(TRAIL <= x for x in sets_e):
        miss_ = sorted(TRAIL - (sets_e[0] if sets_e else set()))
        rep.violation(R165, FN + "|junk|trailing", "pathbuf_to_filetype_impl: trailing junk is trimmed over %s, which lacks the documented junk character(s) %s; `wtmp.` or `host.utmp.~` keep a trailing '.', "
                      "have an empty extension and are read as text although `wtmp-` and `wtmp~` are recognised" % ([sorted(x) for x in sets_e], miss_))
    if not any(LEAD <= x for x in sets_s):
        rep.violation(R165, FN + "|junk|leading", "pathbuf_to_filetype_impl: leading junk is not trimmed with trim_start_matches over %s (found %s)" % (sorted(LEAD), [sorted(x) for x in sets_s]))
    # ------------------------------------------------------------ R16.6 documented type words are in the suffix table
    R166 = rep.rule("R16.6", "the suffix table recognises the documented type words and compression suffixes")
    DOC = {"utmp": ("FixedStruct", "Utmp"), "wtmp": ("FixedStruct", "Utmp"), "btmp": ("FixedStruct", "Utmp"),
           "utmpx": ("FixedStruct", "Utmpx"), "wtmpx": ("FixedStruct", "Utmpx"), "btmpx": ("FixedStruct", "Utmpx"),
           "lastlog": ("FixedStruct", "Lastlog"), "lastlogx": ("FixedStruct", "Lastlogx"),
           "acct": ("FixedStruct", "Acct"), "pacct": ("FixedStruct", None),
           "journal": ("Journal", None), "evtx": ("Evtx", None), "log": ("Text", None), "txt": ("Text", None)}
    for word, (vari, sub) in sorted(DOC.items()):
        res = table["suffix"].get(word)
        okw = res is not None and res[0] == "filetype" and res[1] == vari and (sub is None or res[2] == sub)
        rep.examined(R166, "%s|suffix:%s" % (FN, word), sample={"word": word, "maps_to": [str(x) for x in (res or ())[:3]], "documented": [vari, sub]})
        if not okw:
            rep.violation(R166, "%s|suffix:%s" % (FN, word), "pathbuf_to_filetype_impl: the documented type word %r as a suffix %s; it is then stripped like a rotation suffix and a type word further left (e.g. wtmp in 'wtmp.utmpdump.txt') selects the reader" % (
                word, "is not matched" if res is None else "selects %s" % (res[1:3],)))
    # (the compression suffixes are decided per literal by R16.11, whatever the shape of the match)

    # ------------------------------------------------------------ R16.7 no vacuous early fallback
    R167 = rep.rule("R16.7", "an all-characters test that returns a fallback is guarded against the empty string")
    # `s.chars().all(p)` and its mirror image `!s.chars().any(!p)` are both vacuously "true" for an empty string
    alls = [c for c in b.live_calls() if (c.o.endswith("Iterator::all") or c.o.endswith("Iterator::any")) and "Chars" in (c.callee.get("self") or "")]
    for i, c in enumerate(alls):
        # the string under test
        def str_root(op):
            res = set()
            for o in b.origins(op, through_calls=("::chars", "::deref", "::as_str")):
                if o[0] == "local":
                    res.add(o[1])
                elif o[0] == "call":
                    res.add(("call", o[1]))
            return res
        sr = str_root(c.args[0])
        guarded = False
        for g in b.live_calls():
            if g.d.endswith("::is_empty") and g.target is not None and str_root(g.args[0]) & sr:
                t = b.term(g.target)
                if t[0] == "switch" and op_local(t[1]) == g.dest[0]:
                    nonempty_t = {int(v): tb for v, tb in t[2]}.get(0)
                    if nonempty_t is not None and b.dominates(nonempty_t, c.bb):
                        guarded = True
            # `s.len() > 0` / `s.len() != 0` / `0 < s.len()` as the guard
            if g.d.split("::")[-1] == "len" and g.args and str_root(g.args[0]) & sr:
                for sw in sorted(b.live):
                    t = b.term(sw)
                    if t[0] == "switch" and b.dominates(sw, c.bb):
                        try:
                            sd = decide.switch_decisions(b, sw)
                        except Exception:
                            sd = None
                        for tgt, d in (sd or []):
                            if d[0] == "cmp" and b.dominates(tgt, c.bb):
                                x, y = d[2], d[3]
                                is_len = lambda r: r and r[0] == "call" and r[1] == "len" and r[2] == g.bb
                                is_zero = lambda r: r and r[0] == "const" and str(r[1]) == "0"
                                op_ = d[1] if d[4] else decide.NEG[d[1]]
                                if (is_len(x) and is_zero(y) and op_ in ("gt", "ne")) or (is_zero(x) and is_len(y) and op_ in ("lt", "ne")):
                                    guarded = True
        rep.examined(R167, "%s|all#%d" % (FN, i), sample={"line": c.line, "guarded_by_non_empty": guarded})
        if not guarded:
            rep.violation(R167, "%s|all#%d" % (FN, i), "pathbuf_to_filetype_impl: `.chars().all(..)` (line %d) is true for an empty string, and names that are not valid UTF-8 are seen as empty here; they would take the fallback before their suffix is looked at" % c.line)

    # the public wrapper starts with no container
    wb = prog.body("s4lib::readers::filepreprocessor::pathbuf_to_filetype")
    wc = [c for c in wb.live_calls() if c.d == FN]
    if len(wc) != 1:
        raise CheckerError("pathbuf_to_filetype wrapper shape")

    # ------------------------------------------------------------ R16.8 sibling agreement of the "no type word" fallbacks
    # Every place that gives up on a name answers through the same flag: read it as text when
    # `unparseable_are_text`, otherwise report it unparsable.  All these sites must map the flag the
    # same way (cross-check of siblings; an inverted copy makes explicitly named files "(not supported)").
    R168 = rep.rule("R16.8", "all fallbacks map unparseable_are_text the same way")
    flag_l = [i_ for i_, l_ in enumerate(b.locals) if l_.get("name") == "unparseable_are_text" and i_ <= b.argc]
    if len(flag_l) != 1:
        raise CheckerError("pathbuf_to_filetype_impl: parameter unparseable_are_text not found")
    fl = flag_l[0]

    def _ret_sig(bb):
        seen = set()
        while bb is not None and bb not in seen:
            seen.add(bb)
            for s_ in b.stmts(bb):
                if s_[0] == "=" and s_[1] == [0]:
                    rv = s_[2]
                    if rv[0] == "agg" and isinstance(rv[1], dict):
                        inner = []
                        for o_ in rv[2]:
                            if o_[0] == "k" and isinstance(o_[2], dict):
                                inner.append(o_[2].get("variant"))
                            elif o_[0] != "k":
                                for x in b.origins(o_):
                                    if x[0] == "agg":
                                        k_ = b.stmts(x[1])[x[2]][2][1]
                                        inner.append(k_.get("variant") if isinstance(k_, dict) else "agg")
                                    elif x[0] == "const":
                                        inner.append(str(x[1])[:40])
                        return ("build", rv[1].get("variant"), tuple(sorted(map(str, inner))))
                    if rv[0] == "use" and rv[1][0] != "k":
                        l_ = rv[1][1][0]
                        return ("copy", b.local_name(l_) or l_)
                    return ("other", str(rv)[:40])
            su = b.succ[bb]
            bb = su[0] if len(su) == 1 else None
        return None
    sites_ = []
    for bb in sorted(b.live):
        t = b.term(bb)
        if t[0] != "switch" or t[1][0] not in ("cp", "mv"):
            continue
        neg = False
        dl = t[1][1][0] if len(t[1][1]) == 1 else None
        # follow temporaries: plain copies keep the polarity, Not(..) flips it
        hops = 0
        while dl is not None and dl != fl and hops < 8:
            hops += 1
            ds_ = b.defs.get(dl, [])
            if len(ds_) != 1 or ds_[0][1] == "call":
                break
            rv_ = ds_[0][2]
            if rv_[0] == "use" and rv_[1][0] != "k" and len(rv_[1][1]) == 1:
                dl = rv_[1][1][0]
            elif rv_[0] == "un" and rv_[1] == "Not" and op_local(rv_[2]) is not None:
                dl = op_local(rv_[2])
                neg = not neg
            else:
                break
        if dl == fl:
            arms_ = {int(v): tb for v, tb in t[2]}
            f_sig, t_sig = _ret_sig(arms_.get(0)), _ret_sig(t[3])
            if neg:
                f_sig, t_sig = t_sig, f_sig
            sites_.append((b.blocks[bb].get("l"), f_sig, t_sig, bb))
    # A fallback that cannot be reached is not part of the agreement: the "name is only leading junk"
    # fallback sits behind  !name.ends_with(T)  and  name.trim_start_matches(L).is_empty(); a non-empty
    # name made only of L-characters ends with one, so with L a subset of T that test is never true.
    dead_lines = set()
    ew = [c for c in b.live_calls() if c.d.endswith("::ends_with") and isinstance(const_of(b, c.args[1]), list)]
    tsm = [c for c in b.live_calls() if c.d.endswith("::trim_start_matches") and isinstance(const_of(b, c.args[1]), list)]
    for tc in tsm:
        Lset = set(const_of(b, tc.args[1]))
        for ec in ew:
            Tset = set(const_of(b, ec.args[1]))
            if not Lset <= Tset or ec.target is None:
                continue
            te_ = b.term(ec.target)
            if te_[0] != "switch" or op_local(te_[1]) != ec.dest[0]:
                continue
            arms_e = {int(v): tb for v, tb in te_[2]}
            not_ends = arms_e.get(0)
            if not_ends is None:
                continue
            # every way to the leading-junk code goes through "does not end with T" or through
            # "trailing T trimmed off and the rest is not empty" (whose last character is then not in T)
            gates = {not_ends}
            for tec in b.live_calls():
                if tec.d.endswith("::trim_end_matches") and isinstance(const_of(b, tec.args[1]), list) and Lset <= set(const_of(b, tec.args[1])):
                    for ic2 in b.live_calls():
                        if ic2.d.endswith("::is_empty") and ic2.target is not None and any(x[0] == "call" and x[1] == tec.bb for x in b.origins(ic2.args[0], through_calls=("::deref",))):
                            ti2 = b.term(ic2.target)
                            if ti2[0] == "switch" and op_local(ti2[1]) == ic2.dest[0]:
                                ne_t = {int(v): tb for v, tb in ti2[2]}.get(0)
                                if ne_t is not None:
                                    gates.add(ne_t)
            if tc.bb in b.reachable(0, gates):
                continue
            # the is_empty() test of the trimmed string and its true edge
            for ic in b.live_calls():
                if ic.d.endswith("str::is_empty") or ic.d.endswith("::is_empty"):
                    if any(x[0] == "call" and x[1] == tc.bb for x in b.origins(ic.args[0], through_calls=("::deref",))) and ic.target is not None:
                        ti_ = b.term(ic.target)
                        if ti_[0] == "switch" and op_local(ti_[1]) == ic.dest[0]:
                            arms_i = {int(v): tb for v, tb in ti_[2]}
                            empty_t = ti_[3] if 0 in arms_i else arms_i.get(1)
                            for (ln, f_, t_, swbb) in [(x[0], x[1], x[2], x[3]) for x in sites_ if len(x) > 3]:
                                if empty_t is not None and b.dominates(empty_t, swbb):
                                    dead_lines.add(ln)
    sigs = {}
    for st_ in sites_:
        ln, f_, t_ = st_[0], st_[1], st_[2]
        if ln in dead_lines:
            continue
        sigs.setdefault((f_, t_), []).append(ln)
    rep.examined(R168, FN + "|fallbacks", sample={"sites": len(sites_), "unreachable_sites_excluded": sorted(dead_lines), "distinct_mappings": [(str(k_), v_) for k_, v_ in sigs.items()]})
    if len(sites_) < 4:
        raise CheckerError("pathbuf_to_filetype_impl: only %d direct tests of unparseable_are_text (6 on the pinned tree)" % len(sites_))
    if len(sigs) > 1:
        major = max(sigs.items(), key=lambda kv: len(kv[1]))
        odd = [(k_, v_) for k_, v_ in sigs.items() if k_ != major[0]]
        rep.violation(R168, FN + "|fallbacks", "pathbuf_to_filetype_impl: the fallback at line %s maps unparseable_are_text to (false: %s, true: %s) while the %d other sites map it to (false: %s, true: %s); "
                      "names that end up there are unparsable when passed explicitly and text in a directory walk" % (odd[0][1], odd[0][0][0], odd[0][0][1], len(major[1]), major[0][0], major[0][1]))

    # ------------------------------------------------------------ R16.9 the junk-trimming steps compose
    # Junk is trimmed from the end and from the start of the name in two steps.  The second step has to
    # work on what the first one left (flow-sensitively: a definition of the name produced by the first
    # step reaches the second step's input); if both trim the original name, the later result overwrites
    # the earlier one and `~wtmp~` keeps one of its junk ends.
    R169 = rep.rule("R16.9", "the later junk trim takes its input from the result of the earlier one (reaching definitions)")
    ib_ = prog.body("s4lib::readers::filepreprocessor::pathbuf_to_filetype_impl")
    trims_ = [c for c in ib_.live_calls() if c.d.split("::")[-1] in ("trim_end_matches", "trim_start_matches", "trim_matches", "trim_end", "trim_start")]
    if len(trims_) < 2:
        raise CheckerError("pathbuf_to_filetype_impl: %d trim calls" % len(trims_))

    def _reaching_calls(op_, use_bb, acc, depth=0):
        if op_[0] == "k" or depth > 40:
            return
        l_ = op_[1][0]
        ds_ = ib_.defs.get(l_, [])
        dbbs = {d_[0] for d_ in ds_}
        for dbb, idx_, rv_ in ds_:
            if len(ds_) > 1:
                others = dbbs - {dbb}
                if not (dbb == use_bb or use_bb in ib_.reachable(dbb, others - {use_bb})):
                    continue
            if idx_ == "call":
                if rv_.bb in acc:
                    continue
                acc.add(rv_.bb)
                for a_ in rv_.args:
                    _reaching_calls(a_, rv_.bb, acc, depth + 1)
            else:
                k_ = rv_[0]
                if k_ == "use":
                    _reaching_calls(rv_[1], dbb, acc, depth + 1)
                elif k_ == "cast":
                    _reaching_calls(rv_[2], dbb, acc, depth + 1)
                elif k_ in ("ref", "rawptr"):
                    _reaching_calls(["cp", [rv_[2][0]]], dbb, acc, depth + 1)
    for t2 in trims_:
        earlier = [t1 for t1 in trims_ if t1 is not t2 and t2.bb in ib_.reachable_after(t1.bb) and t1.bb not in ib_.reachable_after(t2.bb)]
        if not earlier:
            continue
        acc_ = set()
        _reaching_calls(t2.args[0], t2.bb, acc_)
        fed = [t1.line for t1 in earlier if t1.bb in acc_]
        rep.examined(R169, "%s|%s" % (ib_.path, t2.d.split("::")[-1]), sample={"trim": t2.d.split("::")[-1], "line": t2.line, "earlier_trims": [t1.line for t1 in earlier], "input_comes_from_earlier_trim_at": fed})
        if not fed:
            rep.violation(R169, "%s|%s|not-composed" % (ib_.path, t2.d.split("::")[-1]), "pathbuf_to_filetype_impl: %s (line %d) trims a name that no result of the earlier trim (line %d) reaches; with junk at both ends of a bare type word "
                          "(`~wtmp~`, `.utmp.`) the second step overwrites the first step's result and the file is read as text" % (t2.d.split("::")[-1], t2.line, earlier[0].line))

    # ------------------------------------------------------------ R16.10 the name that is classified is the member's full name
    # For a tar member the reader is chosen from the member's name.  That has to be the full path the
    # archive records (GNU long-name / PAX records included), not the 100-byte header field: lifted
    # from C05 R5.5 (member path source) and R5.10 (whole-path equality).
    import contextlib as _ctx16, io as _io16
    import c05 as _c05
    from common import Report as _Rep16
    R1610 = rep.rule("R16.10", "tar members are classified by the full member path (from C05 R5.5, R5.10)")
    _s5 = _Rep16("C05", "quick", dict(rep.meta))
    _s5.finish = lambda *a, **k: 0
    with _ctx16.redirect_stdout(_io16.StringIO()):
        _c05.run(prog, _s5, "quick")
    _n16 = 0
    for _rid in ("R5.5", "R5.10"):
        for _k in sorted(_s5.rules.get(_rid, {}).get("keys", ())):
            _n16 += 1
            rep.examined(R1610, "%s|%s" % (_rid, _k), sample={"rule": _rid, "instance": _k})
    for (_rid, _key, _what, _det) in _s5.violations:
        if _rid in ("R5.5", "R5.10"):
            rep.violation(R1610, _key.split("|", 1)[1] + "|" + _rid, _what)
    if _n16 < 1:
        raise CheckerError("R16.10: no C05 R5.5/R5.10 instance to lift")

    # ------------------------------------------------------------ R16.13 a tar member is typed by its own name, not by a name that includes the archive's
    # "Which reader handles a file depends only on its name": for a member that name is the path the
    # archive records.  The string `<archive path>|<member>` that the program builds for display and for
    # opening must not be what is classified - for a member at the archive's root the right-most
    # components would then be read across the separator and the archive's own stem would decide
    # (`logs.tar|wtmp` typed as text, `wtmp.tar|notes` as utmp).  The classified path derives from the tar
    # entry's path call and from nothing else.
    R1613 = rep.rule("R16.13", "the name of a tar member that is classified comes from the archive entry alone")
    tb16 = prog.body("s4lib::readers::filepreprocessor::process_path_tar")
    TH16 = ("Path::new", "::as_ref", "::deref", "::as_path", "to_path_buf", "::borrow", "::clone", "::into_owned", "to_string_lossy", "::as_str", "From>::from", "PathBuf::from",
            "::unwrap", "::expect", "Try>::branch", "::to_owned", "::as_os_str", "::as_mut", "::to_str")
    n1613 = 0
    for c in tb16.live_calls():
        if not c.d.endswith("to_filetype") or not c.args:
            continue
        n1613 += 1
        os16 = tb16.origins(c.args[0], through_calls=TH16)
        from_entry = [x_ for x_ in os16 if x_[0] == "call" and x_[2].startswith("tar::")]
        other = [x_ for x_ in os16 if not (x_[0] == "call" and x_[2].startswith("tar::")) and x_[0] != "const"]
        rep.examined(R1613, tb16.path + "|classified-name@%d" % n1613, sample={"line": c.line, "classifier": c.d.split("::")[-1], "name_from": sorted(set(x_[2].split("::")[-1] if x_[0] == "call" else x_[0] for x_ in os16))})
        if other or not from_entry:
            rep.violation(R1613, tb16.path + "|classified-name|not-entry-path", "process_path_tar (line %d) classifies a name that does not come from the archive entry alone (it derives from %s); when that is the composite '<archive>|<member>' string, "
                          "a member at the archive root is typed across the separator: `logs.tar|wtmp` is read as text, `wtmp.tar|notes` as utmp" % (c.line, sorted(set(x_[2].split("::")[-1] if x_[0] == "call" else x_[0] for x_ in (other or os16)))))
    if n1613 < 1:
        raise CheckerError("R16.13: process_path_tar does not call the classifier")

    # ------------------------------------------------------------ R16.14 a length guard on member names admits every path a file system admits
    # "for every name": a member whose path could exist on disk (up to PATH_MAX-1 = 4095 bytes) must reach
    # the classifier like the same file outside the archive does.  process_path_tar compares the length
    # of the *whole* member path (directories included) with a constant before classifying (the guard
    # of fix 1d4ecfcc against unbounded recursion); any such constant comparison must admit 4095 bytes.
    # A lower bound, not a frozen value: raising the limit or removing the guard passes.
    R1614 = rep.rule("R16.14", "a constant length limit on tar member paths admits every path of up to PATH_MAX-1 bytes")
    PATH_ADMIT = 4095
    n1614 = 0
    for bb in range(tb16.n):
        for st_ in tb16.stmts(bb):
            if st_[0] != "=" or st_[2][0] != "bin" or st_[2][1] not in ("Lt", "Le", "Gt", "Ge"):
                continue
            opn, a_, b_ = st_[2][1], st_[2][2], st_[2][3]
            kside = [x for x in (a_, b_) if const_of(tb16, x) is not None and isinstance(const_of(tb16, x), int) and not isinstance(const_of(tb16, x), bool)]
            vside = [x for x in (a_, b_) if x not in kside]
            if len(kside) != 1 or not vside:
                continue
            vo = tb16.origins(vside[0])
            if not any(y[0] == "call" and y[2].split("::")[-1] == "len" for y in vo):
                continue
            # only lengths of the member path: the len() receiver derives from the tar entry
            lens = [c for c in tb16.live_calls() if c.d.split("::")[-1] == "len" and c.args and
                    any(x_[0] == "call" and x_[2].startswith("tar::") for x_ in tb16.origins(c.args[0], through_calls=TH16))]
            if not any(y[0] == "call" and any(y[1] == c.bb for c in lens) for y in vo):
                continue
            k_ = const_of(tb16, kside[0])
            k_left = kside[0] is a_
            # largest length for which the comparison still takes the side of small values
            if (opn == "Gt" and not k_left) or (opn == "Lt" and k_left):
                admit = k_
            elif (opn == "Ge" and not k_left) or (opn == "Le" and k_left):
                admit = k_ - 1
            elif (opn == "Lt" and not k_left) or (opn == "Gt" and k_left):
                admit = k_ - 1
            else:
                admit = k_
            if k_ < 64:
                # an emptiness / minimum-length test (`len() > 0`), not an upper limit: the side of the
                # small values is the rejected one there, so it is recorded but not judged
                rep.examined(R1614, tb16.path + "|member-path-minimum-test@%d" % st_[3], sample={"line": st_[3], "comparison": opn, "constant": k_, "note": "minimum-length test, not judged"})
                continue
            n1614 += 1
            rep.examined(R1614, tb16.path + "|member-path-length-limit@%d" % n1614, sample={"line": st_[3], "comparison": opn, "constant": k_, "admits_up_to": admit})
            if admit < PATH_ADMIT:
                rep.violation(R1614, tb16.path + "|member-path-length-limit|below-PATH_MAX", "process_path_tar (line %s) compares the length of the whole tar member path with %d: members at a path longer than %d bytes "
                              "(ordinary names like app.log or wtmp below deep directories; GNU long-name and pax headers carry them) are never classified, while the same file on disk (paths up to %d bytes) is - "
                              "the reader no longer depends on the name alone" % (st_[3], k_, admit, PATH_ADMIT))
    if n1614 == 0:
        rep.examined(R1614, tb16.path + "|member-path-length-limit@none", sample={"note": "no constant length comparison on the member path: nothing limits the names that reach the classifier"})

    # ------------------------------------------------------------ R16.11 each compression suffix records its own container (path-sensitive)
    # For every documented compression suffix the function strips the suffix and calls itself with the
    # container that suffix names.  Decided by walking the CFG with the string comparisons of the suffix
    # fixed to one literal at a time (`suffix == "xzip"` true, every other `suffix == c` false) and
    # evaluating the container argument that reaches the self-call - whatever shape the match has
    # (one arm per suffix, or one arm with an inner match and a wildcard).
    R1611 = rep.rule("R16.11", "under each compression suffix the self-call records that suffix's container")
    WANT = {"gz": "Gz", "gzip": "Gz", "bz2": "Bz2", "xz": "Xz", "xzip": "Xz", "lz4": "Lz4"}
    eqs = {}
    for c in b.live_calls():
        if c.d.split("::")[-1] in ("eq", "ne") and "str" in c.d and len(c.args) == 2 and c.args[1][0] == "k" and isinstance(c.args[1][2], str) and c.target is not None:
            t = b.term(c.target)
            if t[0] == "switch" and op_local(t[1]) == c.dest[0]:
                eqs[c.target] = (c.args[1][2], c.d.split("::")[-1])
    if len(eqs) < 10:
        raise CheckerError("R16.11: only %d constant string comparisons found" % len(eqs))
    sc_bbs = {c.bb: c for c in selfcalls}

    def _variant_at(state, op_, depth=0):
        if op_[0] == "k":
            return None
        l_ = op_local(op_)
        if l_ in state:
            return state[l_]
        ds_ = b.defs.get(l_, [])
        if len(ds_) == 1 and ds_[0][1] != "call" and depth < 6:
            rv_ = ds_[0][2]
            if rv_[0] == "use":
                return _variant_at(state, rv_[1], depth + 1)
            if rv_[0] == "agg" and isinstance(rv_[1], dict) and rv_[1].get("variant") == "Some" and rv_[2]:
                return _variant_at(state, rv_[2][0], depth + 1)
            if rv_[0] == "agg" and isinstance(rv_[1], dict) and "FileTypeArchive" in rv_[1].get("adt", "") and not rv_[2]:
                return rv_[1].get("variant")
        v_ = variant_of(b, op_)
        return v_
    for lit, want in sorted(WANT.items()):
        # keep only self-calls that lie behind a comparison with this literal being true
        behind = set()
        for tb_, (c_, kind_) in eqs.items():
            if c_ == lit:
                t = b.term(tb_)
                arms_ = {int(v_): x_ for v_, x_ in t[2]}
                tt = (t[3] if 0 in arms_ else arms_.get(1)) if kind_ == "eq" else arms_.get(0, t[3])
                if tt is not None:
                    behind |= {x_ for x_ in sc_bbs if b.dominates(tt, x_) or x_ in b.reachable(tt)}
        seen, work, got = set(), [(0, ())], set()
        steps = 0
        while work and steps < 200000:
            steps += 1
            bb, st = work.pop()
            if (bb, st) in seen:
                continue
            seen.add((bb, st))
            state = dict(st)
            for stt in b.stmts(bb):
                if stt[0] == "=" and len(stt[1]) == 1:
                    rv_ = stt[2]
                    if rv_[0] == "agg" and isinstance(rv_[1], dict) and "FileTypeArchive" in rv_[1].get("adt", "") and not rv_[2]:
                        state[stt[1][0]] = rv_[1].get("variant")
                    elif rv_[0] == "use" and rv_[1][0] != "k" and len(rv_[1][1]) == 1 and rv_[1][1][0] in state:
                        state[stt[1][0]] = state[rv_[1][1][0]]
                    elif stt[1][0] in state:
                        del state[stt[1][0]]
            if bb in sc_bbs:
                # only self-calls that lie behind the comparison with this literal count
                if bb in behind:
                    got.add(_variant_at(state, sc_bbs[bb].args[2]) or "?")
                continue        # the self-call returns; do not go on
            t = b.term(bb)
            fz = tuple(sorted(state.items()))
            if bb in eqs and t[0] == "switch":
                c_, kind_ = eqs[bb]
                truth = (c_ == lit) if kind_ == "eq" else (c_ != lit)
                arms_ = {int(v_): tb_ for v_, tb_ in t[2]}
                nxt = (t[3] if 0 in arms_ else arms_.get(1)) if truth else arms_.get(0, t[3])
                if nxt is not None and nxt in b.live:
                    work.append((nxt, fz))
            else:
                for s_ in b.succ[bb]:
                    if s_ in b.live:
                        work.append((s_, fz))
        rep.examined(R1611, "%s|%s" % (FN, lit), sample={"suffix": lit, "container_recorded": sorted(got), "expected": want, "steps": steps})
        if not behind:
            rep.violation(R1611, "%s|%s|unmatched" % (FN, lit), "pathbuf_to_filetype_impl: no self-call lies behind a comparison of the suffix with %r" % lit)
        elif got - {want, "?"} or want not in got:
            rep.violation(R1611, "%s|%s|wrong-container" % (FN, lit), "pathbuf_to_filetype_impl: with the suffix %r the self-call records the container %s, expected %s; "
                          "`app.log.%s` is handed to the wrong decoder and nothing is read" % (lit, sorted(got), want, lit))

    # ------------------------------------------------------------ R16.12 the verdict is a function of the name, not of how deep the recursion is
    # "The reader is chosen from the file name alone, for every name": the classifier recurses once
    # per stripped component and terminates because every self-call shortens the name (R16.4).  A
    # counter argument that cuts the recursion off after N components makes names with more components
    # fall back to text although a type word is further left (`wtmp.2023.01...17`).
    R1612 = rep.rule("R16.12", "no decision of the classifier depends on an integer argument (a recursion counter)")
    argtys = [b.local_ty(k_) or "" for k_ in range(1, b.argc + 1)]
    INT = ("usize", "u8", "u16", "u32", "u64", "isize", "i8", "i16", "i32", "i64")
    int_args = [k_ for k_ in range(1, b.argc + 1) if (b.local_ty(k_) or "") in INT]
    decided_by_counter = []
    for k_ in int_args:
        for bb in sorted(b.live):
            t = b.term(bb)
            if t[0] != "switch":
                continue
            seen_, work_ = set(), [t[1]]
            hit = False
            while work_ and len(seen_) < 40 and not hit:
                cur_ = work_.pop()
                if cur_[0] == "k":
                    continue
                for o_ in b.origins(cur_):
                    if o_[0] == "arg" and o_[1] == k_:
                        hit = True
                    elif o_[0] == "bin" and (o_[1], o_[2]) not in seen_:
                        seen_.add((o_[1], o_[2]))
                        st_ = b.stmts(o_[1])[o_[2]]
                        work_.extend(x for x in (st_[2][2], st_[2][3]) if x[0] != "k")
            if hit:
                decided_by_counter.append((k_, b.blocks[bb].get("l")))
    rep.examined(R1612, FN + "|arguments", sample={"argument_types": argtys, "integer_arguments": int_args, "decisions_on_them": decided_by_counter})
    if b.argc < 3 or not any("PathBuf" in t_ for t_ in argtys):
        raise CheckerError("R16.12: unexpected signature of pathbuf_to_filetype_impl: %s" % argtys)
    if decided_by_counter:
        rep.violation(R1612, FN + "|arguments|counter-decides", "pathbuf_to_filetype_impl (line %s) takes a decision from its integer argument #%d - a recursion counter; names with more components than the bound are no longer typed by their type word "
                      "(`wtmp.2023.01...17` is read as text, `app.evtx` plus 18 suffixes as text)" % (decided_by_counter[0][1], decided_by_counter[0][0]))

    return rep.finish(
        "Static necessary-condition check of the name classifier: the suffix table and the bare-name table agree on every shared type word, every "
        "constructed FileType carries the container variable, every self-call passes the unparseable flag unchanged and Some(container) (the "
        "matched compression constant, else the incoming kind), compression suffixes map to one container each, all literal comparisons are on "
        "lower-cased strings, every self-call is on with_extension(\"\") of the incoming path under a non-empty-suffix guard (size-change "
        "termination argument), and junk is trimmed with trim_*_matches over the documented sets.",
        ["Path::extension semantics on odd names (trusted std)", "which reader is *appropriate* for a type word (taken from the tables as given)"])
