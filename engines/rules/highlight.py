"""The datetime highlight of a coloured text line, decided for every ordering of its four indexes.

A line is printed part by part (one part per block it touches).  For each part [at, at_end) the
code compares at, at_end with the datetime range [dt_beg, dt_end) and writes up to three sub-slices
with the "datetime" or the "message" colour.  All branch conditions are comparisons among these four
values, and every piece's bounds are among them, so the behaviour is a function of their *weak
ordering* - a finite domain (75 orderings of four values, fewer under at < at_end, dt_beg <= dt_end).
For every ordering the pieces written on the branch the comparisons select must

  (a) tile [at, at_end) exactly (no byte lost or repeated), and
  (b) carry the datetime colour exactly on the intersection with [dt_beg, dt_end).

Which bytes carry which colour is then independent of where the block boundaries fall.
Anything not recognised makes the caller fail closed."""
import itertools

import decide
import slices
from mir import CheckerError, op_local

SYMS = ("at", "at_end", "dt_beg", "dt_end")


def _follow(b, l, depth=0):
    """named variable a temporary is a copy of (all definitions are plain copies of one local)"""
    while depth < 12:
        depth += 1
        if b.local_name(l):
            return b.local_name(l)
        ds = b.defs.get(l, [])
        srcs = set()
        for d in ds:
            if d[1] == "call":
                return None
            rv = d[2]
            if rv[0] == "use" and rv[1][0] != "k" and len(rv[1][1]) == 1:
                srcs.add(rv[1][1][0])
            else:
                return None
        if len(srcs) != 1:
            return None
        l = srcs.pop()
    return None


def _sym_of_root(b, r):
    if r is None:
        return None
    s = [x for x in r if isinstance(x, str)]
    for k in ("dt_beg", "dt_end"):
        if k in s:
            return k
    if r[0] == "local":
        n = _follow(b, r[1])
        return n if n in SYMS else None
    if r[0] == "bin":
        try:
            st = b.stmts(int(r[1]))[int(r[2])]
        except Exception:
            return None
        rv = st[2]
        if rv[0] == "bin" and rv[1].startswith("Add"):
            names = [(_follow(b, op_local(o)) if op_local(o) is not None else None) for o in (rv[2], rv[3])]
            if "at" in names:
                return "at_end"
        return None
    return None


def _sym_of_sig(b, sg):
    """absolute position denoted by a slice-relative index expression: `X - at` -> X"""
    if sg is None:
        return None
    if sg[0] == "Sub" and sg[2][0] == "var" and b.local_name(sg[2][1]) == "at" and sg[1][0] == "var":
        n = b.local_name(sg[1][1])
        return n if n in SYMS else "?"
    return "?"


def orderings():
    """weak orderings of the four symbols satisfying at < at_end and dt_beg <= dt_end, as dict sym -> rank"""
    res = []
    seen = set()
    for ranks in itertools.product(range(4), repeat=4):
        used = sorted(set(ranks))
        norm = tuple(used.index(r) for r in ranks)
        if norm in seen:
            continue
        seen.add(norm)
        o = dict(zip(SYMS, norm))
        if o["at"] < o["at_end"] and o["dt_beg"] <= o["dt_end"]:
            res.append(o)
    return res


def analyse(b):
    """Returns (n_orderings, problems[], info) for one printing function, or None if it has no highlight loop."""
    if not any(l.get("name") == "at_end" for l in b.locals):
        return None
    # the loop over line parts: contains the as_slice call that feeds the indexed pieces
    idx = slices.index_calls(b)
    if not idx:
        return None
    bases = set()
    for (c, base, st, en) in idx:
        bases.add(c.bb)
    aslice = [c for c in b.live_calls() if c.d.endswith("LinePart::as_slice")]
    loop = None
    src_call = None
    for c in aslice:
        hs = [h for (tl, h) in b.back_edges() if c.bb in b.loop_blocks(h)]
        for h in hs:
            L = b.loop_blocks(h)
            if all(x in L for x in bases):
                if loop is None or len(L) < len(loop):
                    loop, src_call, header = L, c, h
    if loop is None:
        raise CheckerError("%s: highlight loop not recognised" % b.path)
    # pieces: sinks inside the loop
    sinks = [c for c in b.live_calls() if c.bb in loop and c.d.split("::")[-1] in ("extend_from_slice", "write_all", "write") and len(c.args) >= 2]
    idx_by_bb = {c.bb: (st, en) for (c, base, st, en) in idx}
    pieces = {}   # key -> dict(start, end, blocks)
    for s_ in sinks:
        for o in b.origins(s_.args[1], through_calls=("::deref", "::as_ref")):
            if o[0] != "call":
                continue
            if o[1] in idx_by_bb:
                st, en = idx_by_bb[o[1]]
                a = _sym_of_sig(b, st) if st is not None else "at"
                e = _sym_of_sig(b, en) if en is not None else "at_end"
                key = ("idx", o[1])
            elif o[1] == src_call.bb:
                a, e = "at", "at_end"
                key = ("whole", None)   # refined below by the colour test that governs the write
            else:
                continue   # the output buffer itself being flushed
            if "?" in (a, e):
                raise CheckerError("%s: slice bound not expressed in at/dt_beg/dt_end (line %d)" % (b.path, s_.line))
            pieces.setdefault(key, {"start": a, "end": e, "sinks": []})["sinks"].append(s_)
    if not pieces:
        raise CheckerError("%s: no pieces in the highlight loop" % b.path)
    # colour of a sink: nearest dominating `color_spec_X != color_spec_last` test
    ctests = []
    for bb in sorted(loop):
        t = b.term(bb)
        if t[0] == "switch":
            try:
                sd = decide.switch_decisions(b, bb)
            except CheckerError:
                sd = None
            for tgt, d in (sd or []):
                if d[0] == "cmp" and d[1] in ("ne", "eq"):
                    names = [x for r in (d[2], d[3]) for x in r if isinstance(x, str) and x.startswith("color_spec_") and x != "color_spec_last"]
                    if names:
                        ctests.append((bb, names[0]))
                        break

    def colour_of(s_):
        best = None
        for (bb, nm) in ctests:
            if b.dominates(bb, s_.bb) and (best is None or b.dominates(best[0], bb)):
                best = (bb, nm)
        return best[1] if best else None
    # the alternative sink sites of one buffered write (buffer full / oversize / plain) belong to one piece:
    # whole-part writes are grouped by the colour test that governs them
    if ("whole", None) in pieces:
        wp = pieces.pop(("whole", None))
        for s_ in wp["sinks"]:
            best = None
            for (bb, nm) in ctests:
                if b.dominates(bb, s_.bb) and (best is None or b.dominates(best[0], bb)):
                    best = (bb, nm)
            pieces.setdefault(("whole", best[0] if best else None), {"start": "at", "end": "at_end", "sinks": []})["sinks"].append(s_)
    for k, p in pieces.items():
        cols = set(colour_of(s_) for s_ in p["sinks"])
        if len(cols) != 1 or None in cols:
            raise CheckerError("%s: colour of a written piece not recognised (%s)" % (b.path, cols))
        p["colour"] = cols.pop()
    # decisions among the four symbols, per switch block inside the loop
    sym_dec = {}
    for bb in sorted(loop):
        t = b.term(bb)
        if t[0] != "switch":
            continue
        try:
            sd = decide.switch_decisions(b, bb)
        except CheckerError:
            sd = None
        outs = {}
        for tgt, d in (sd or []):
            if d[0] == "cmp":
                x, y = _sym_of_root(b, d[2]), _sym_of_root(b, d[3])
                if x in SYMS and y in SYMS:
                    outs[tgt] = (d[1], x, y, d[4])
        if outs:
            sym_dec[bb] = outs
    if len(sym_dec) < 4:
        raise CheckerError("%s: only %d comparisons among at/at_end/dt_beg/dt_end recognised" % (b.path, len(sym_dec)))
    REL = {"lt": lambda a, c: a < c, "le": lambda a, c: a <= c, "gt": lambda a, c: a > c, "ge": lambda a, c: a >= c, "eq": lambda a, c: a == c, "ne": lambda a, c: a != c}
    start_bb = src_call.bb
    problems = []
    ords = orderings()
    for o in ords:
        # reachable blocks of one iteration under this ordering
        seen = {start_bb}
        work = [start_bb]
        while work:
            x = work.pop()
            for s in b.succ[x]:
                if s not in loop or s == header or s in seen:
                    continue
                if x in sym_dec and s in sym_dec[x]:
                    op, p, q, outcome = sym_dec[x][s]
                    if REL[op](o[p], o[q]) != outcome:
                        continue
                elif x in sym_dec and len(sym_dec[x]) == len(set(b.succ[x])):
                    pass
                seen.add(s)
                work.append(s)
        written = [p for p in pieces.values() if any(s_.bb in seen for s_ in p["sinks"])]
        nonempty = [p for p in written if o[p["start"]] < o[p["end"]]]
        inverted = [p for p in written if o[p["start"]] > o[p["end"]]]
        desc = " ".join("%s%s" % (k, "") for k in sorted(SYMS, key=lambda k: (o[k], k)))
        desc = ", ".join("=".join(sorted(k for k in SYMS if o[k] == r)) for r in sorted(set(o.values())))
        if inverted:
            problems.append((desc, "a piece with start %s after end %s is sliced (panic)" % (inverted[0]["start"], inverted[0]["end"])))
            continue
        nonempty.sort(key=lambda p: o[p["start"]])
        cur = o["at"]
        ok = True
        for p in nonempty:
            if o[p["start"]] != cur:
                problems.append((desc, "bytes %s: the pieces written do not tile the part" % ("lost" if o[p["start"]] > cur else "repeated")))
                ok = False
                break
            cur = o[p["end"]]
        if ok and cur != o["at_end"]:
            problems.append((desc, "bytes lost: the pieces written stop before the end of the part"))
            ok = False
        if not ok:
            continue
        for p in nonempty:
            inside = o["dt_beg"] <= o[p["start"]] and o[p["end"]] <= o["dt_end"]
            outside = o[p["end"]] <= o["dt_beg"] or o["dt_end"] <= o[p["start"]]
            is_dt = "datetime" in p["colour"]
            if inside and not is_dt:
                problems.append((desc, "the bytes [%s, %s) lie inside the datetime but are written with %s" % (p["start"], p["end"], p["colour"])))
            elif outside and is_dt:
                problems.append((desc, "the bytes [%s, %s) lie outside the datetime but are written with %s" % (p["start"], p["end"], p["colour"])))
            elif not inside and not outside:
                problems.append((desc, "the piece [%s, %s) straddles a datetime boundary and has one colour" % (p["start"], p["end"])))
    info = {"pieces": sorted((p["start"], p["end"], p["colour"]) for p in pieces.values()), "comparisons": len(sym_dec), "orderings": len(ords)}
    return len(ords), problems, info
