"""Reporting: violations keyed without line numbers, known findings by exact key, evidence file."""
import json
import os
import time

from facts import VERIF

KNOWN_PATH = os.path.join(VERIF, "known_findings.json")

ASSUMPTIONS = [
    "rustc nightly front end, MIR construction at -Zmir-opt-level=0 and const evaluator are correct",
    "cargo check --release compiles the same library and binary sources with the same cfg as the shipped build",
    "documented semantics of std and dependency APIs that the rules interpret by name (Iterator::min_by returns the first minimum, BTreeMap iterates in key order, Read::read may return short counts, crossbeam channels are FIFO, CStr::from_ptr reads to the first NUL)",
    "dependency crate bodies are not analysed; only their resolved names and types at call sites",
    "the Python rule engine itself (exercised on every run by the positive/negative fixture twins)",
]


def load_known():
    try:
        with open(KNOWN_PATH) as f:
            return json.load(f)
    except OSError:
        return {"known": [], "fixed": []}


class Report:
    def __init__(self, pid, tier, meta):
        self.pid = pid
        self.tier = tier
        self.meta = meta
        self.t0 = time.time()
        self.rules = {}      # rid -> dict(desc, examined, nontrivial, samples)
        self.order = []
        self.violations = []  # (rid, key, what, detail)
        self.infos = []
        self.fixture = {"bad_flagged": 0, "bad_total": 0, "good_silent": 0, "good_total": 0}
        self.exhaustive = []
        self.extra = {}

    def rule(self, rid, desc):
        if rid not in self.rules:
            self.rules[rid] = {"desc": desc, "examined": 0, "nontrivial": 0, "samples": [], "keys": set()}
            self.order.append(rid)
        return rid

    def examined(self, rid, instance, nontrivial=True, sample=None):
        r = self.rules[rid]
        r["examined"] += 1
        if nontrivial and instance not in r["keys"]:
            r["keys"].add(instance)
            r["nontrivial"] += 1
        if sample is not None and len(r["samples"]) < 4:
            r["samples"].append(sample)

    def floor(self, rid, n, why=""):
        from mir import CheckerError
        r = self.rules[rid]
        if r["examined"] < n:
            raise CheckerError("rule %s examined %d instances, floor is %d %s" % (rid, r["examined"], n, why))

    def violation(self, rid, key, what, detail=None):
        full = "%s|%s" % (rid, key)
        for v in self.violations:
            if v[1] == full:
                return
        self.violations.append((rid, full, what, detail or {}))

    def info(self, msg):
        self.infos.append(msg)
        print("%s info: %s" % (self.pid, msg))

    def finish(self, explanation, not_decided):
        known = load_known()
        kmap = {}
        for k in known.get("known", []):
            if k.get("property") == self.pid:
                kmap[k["key"]] = k
        new = []
        printed_known = []
        for (rid, key, what, detail) in self.violations:
            if key in kmap:
                printed_known.append(key)
                print("KNOWN-FINDING: property=%s %s: %s" % (self.pid, key, kmap[key].get("what", what)))
            else:
                new.append((rid, key, what, detail))
        for rid in self.order:
            r = self.rules[rid]
            print("%s %s %s: %d instances examined (%d distinct non-trivial)" % (self.pid, rid, r["desc"], r["examined"], r["nontrivial"]))
        if os.environ.get("VERIF_DUMP_KEYS"):
            os.makedirs(os.environ["VERIF_DUMP_KEYS"], exist_ok=True)
            with open(os.path.join(os.environ["VERIF_DUMP_KEYS"], self.pid + ".keys"), "w") as kf:
                for rid in self.order:
                    for k in sorted(self.rules[rid]["keys"]):
                        kf.write("%s\t%s\n" % (rid, k))
        vdir = os.path.join(VERIF, "out", "violations")
        rc = 0
        if new:
            os.makedirs(vdir, exist_ok=True)
            for i, (rid, key, what, detail) in enumerate(new):
                path = os.path.join(vdir, "%s-%s-%d.json" % (self.pid, rid, i + 1))
                with open(path, "w") as f:
                    json.dump({"property": self.pid, "rule": rid, "key": key, "what": what, "detail": detail,
                               "tree": self.meta.get("tree_sha256"), "root": self.meta.get("root")}, f, indent=1, default=str)
                print("  rule %s key %s" % (rid, key))
                print("  %s" % what)
                print("VIOLATION property=%s replay=%s" % (self.pid, path))
            rc = 1
        evaluations = sum(r["examined"] for r in self.rules.values())
        nontrivial = sum(r["nontrivial"] for r in self.rules.values())
        samples = []
        for rid in self.order:
            for s in self.rules[rid]["samples"][:3]:
                samples.append({"rule": rid, "instance": s})
        ev = {
            "property_id": self.pid,
            "tier": self.tier,
            "seed": int(os.environ.get("VERIF_SEED", "0") or 0),
            "level": "other",
            "coverage": {
                "explanation": explanation,
                "evaluations": evaluations,
                "distinct_nontrivial": nontrivial,
                "rule": "one evaluation = one rule instance (a call site, function, table row, sibling, ordering case) examined on the "
                        "resolved program; non-trivial = the instance matched the rule's anchor so that the rule had something to decide; "
                        "distinct = by instance key (rule, function, site)",
                "samples": samples[:40],
                "rules": {rid: {"desc": self.rules[rid]["desc"], "examined": self.rules[rid]["examined"],
                                "distinct_nontrivial": self.rules[rid]["nontrivial"]} for rid in self.order},
                "exhaustive": bool(self.exhaustive),
                "exhaustive_domains": self.exhaustive,
                "not_decided": not_decided,
                "facts": self.meta,
                "fixtures": self.fixture,
                "known_findings_printed": printed_known,
                "violation_keys": [v[1] for v in new],
                "info": self.infos[:40],
            },
            "assumptions": ASSUMPTIONS,
            "wall_s": round(time.time() - self.t0 + float(self.meta.get("extract_s", 0) or 0), 2),
            "violations": len(new),
        }
        ev["coverage"].update(self.extra)
        evdir = os.environ.get("VERIF_EVIDENCE_DIR") or os.path.join(VERIF, "evidence")
        os.makedirs(evdir, exist_ok=True)
        with open(os.path.join(evdir, "%s.json" % self.pid), "w") as f:
            json.dump(ev, f, indent=1, default=str)
        print("%s %s (violations %d, known findings %d) evidence=%s" % (
            self.pid, "OK" if rc == 0 else "FAILED", len(new), len(printed_known),
            os.path.join(evdir, "%s.json" % self.pid)))
        return rc
