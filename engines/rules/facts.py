"""Load (extracting when needed) the compiler facts of the tree under analysis.

The cache key is the content hash of the analysed tree's sources plus the extractor sources,
so an edited tree is always re-extracted; nothing here trusts file times.
"""
import fcntl
import hashlib
import json
import os
import shutil
import subprocess
import sys
import time

VERIF = os.path.dirname(os.path.dirname(os.path.dirname(os.path.abspath(__file__))))
REPO = os.environ.get("VERIF_REPO", "/repo")
OUT = os.path.join(VERIF, "out")
CACHE = os.path.join(OUT, "cache")
ENGINE = os.path.join(VERIF, "engines")


def _hash_files(h, root, rels):
    for rel in sorted(rels):
        p = os.path.join(root, rel)
        h.update(rel.encode())
        h.update(b"\0")
        try:
            with open(p, "rb") as f:
                h.update(f.read())
        except OSError:
            h.update(b"<missing>")
        h.update(b"\0")


def _walk(root, sub, exts):
    res = []
    base = os.path.join(root, sub)
    for d, dirs, files in os.walk(base):
        dirs[:] = [x for x in dirs if x not in ("target", ".git")]
        for f in files:
            if exts is None or os.path.splitext(f)[1] in exts:
                res.append(os.path.relpath(os.path.join(d, f), root))
    return res


def engine_hash():
    h = hashlib.sha256()
    _hash_files(h, ENGINE, _walk(ENGINE, "s4facts/src", {".rs"}) + ["s4facts/Cargo.toml", "extract.sh"])
    return h.hexdigest()


def tree_hash(root=None):
    root = root or REPO
    h = hashlib.sha256()
    rels = _walk(root, "src", {".rs"}) + ["Cargo.toml", "Cargo.lock"]
    _hash_files(h, root, rels)
    h.update(engine_hash().encode())
    return h.hexdigest()


class Facts:
    """Facts of one extraction (several crates merged)."""

    def __init__(self, crates, meta):
        self.meta = meta
        self.bodies = {}
        self.adts = {}
        self.consts = {}
        self.foreign = {}
        self.crates = []
        for c in crates:
            self.crates.append(c["crate"])
            for b in c["bodies"]:
                # items declared in separate anonymous blocks share one def-path string (the statics clap's
                # derive emits per `default_value_t`): keep every body, the later ones as path#2, #3, ...
                k, n = b["path"], 1
                while k in self.bodies:
                    n += 1
                    k = "%s#%d" % (b["path"], n)
                if n > 1:
                    b = dict(b)
                    b["path"] = k
                self.bodies[k] = b
            for a in c["adts"]:
                self.adts[a["path"]] = a
            for k in c["consts"]:
                self.consts[k["path"]] = k
            for k in c.get("foreign_fns", []):
                self.foreign[k["path"]] = k["sig"]

    def body(self, path):
        return self.bodies.get(path)

    def find_bodies(self, suffix):
        return [b for p, b in self.bodies.items() if p.endswith(suffix)]

    def closures_of(self, root_path):
        return [b for b in self.bodies.values() if b.get("root") == root_path]

    def const(self, path):
        c = self.consts.get(path)
        return None if c is None else c["value"]


def _extract(root, dest, profile):
    t0 = time.time()
    r = subprocess.run([os.path.join(ENGINE, "extract.sh"), root, dest, profile],
                       stdout=subprocess.PIPE, stderr=subprocess.PIPE, text=True)
    if r.returncode != 0:
        sys.stderr.write(r.stderr[-6000:])
        raise RuntimeError("fact extraction failed (rc=%d) for %s" % (r.returncode, root))
    return time.time() - t0


def load(profile="release", root=None, expect=("s4lib", "s4")):
    """Return Facts for `root` (default /repo). Uses the content-addressed cache."""
    root = root or REPO
    os.makedirs(CACHE, exist_ok=True)
    key = tree_hash(root)[:32] + "-" + profile
    cdir = os.path.join(CACHE, key)
    meta = {"tree_sha256": key, "profile": profile, "root": root}
    no_cache = os.environ.get("VERIF_NO_CACHE") == "1"
    lock = open(os.path.join(CACHE, ".lock"), "w")
    fcntl.flock(lock, fcntl.LOCK_EX)
    try:
        ok = os.path.isdir(cdir) and all(os.path.isfile(os.path.join(cdir, c + ".json")) for c in expect)
        if ok and not no_cache:
            meta["facts"] = "cached"
            meta["extract_s"] = 0.0
        else:
            tmp = cdir + ".tmp%d" % os.getpid()
            shutil.rmtree(tmp, ignore_errors=True)
            os.makedirs(tmp)
            try:
                secs = _extract(root, tmp, profile)
            except Exception:
                shutil.rmtree(tmp, ignore_errors=True)
                raise
            for c in expect:
                if not os.path.isfile(os.path.join(tmp, c + ".json")):
                    shutil.rmtree(tmp, ignore_errors=True)
                    raise RuntimeError("fact extraction produced no %s.json (stale cargo cache?)" % c)
            shutil.rmtree(cdir, ignore_errors=True)
            os.rename(tmp, cdir)
            meta["facts"] = "fresh"
            meta["extract_s"] = round(secs, 1)
            _gc(keep=cdir)
    finally:
        fcntl.flock(lock, fcntl.LOCK_UN)
        lock.close()
    crates = []
    for c in expect:
        with open(os.path.join(cdir, c + ".json")) as f:
            crates.append(json.load(f))
    os.utime(cdir, None)
    return Facts(crates, meta)


def _gc(keep, generations=4):
    ents = []
    for n in os.listdir(CACHE):
        p = os.path.join(CACHE, n)
        if os.path.isdir(p) and p != keep:
            if ".tmp" in n and time.time() - os.path.getmtime(p) > 3600:
                shutil.rmtree(p, ignore_errors=True)
                continue
            ents.append((os.path.getmtime(p), p))
    ents.sort(reverse=True)
    for _, p in ents[generations - 1:]:
        shutil.rmtree(p, ignore_errors=True)
