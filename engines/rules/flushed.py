"""A buffered writer over a file that is read back by path must be flushed, and the flush result
looked at, before the function reports success.

`BufWriter`'s Drop writes the remaining bytes and *discards* the error.  When the file is handed on by
path (the temporary file a compressed journal / event log is unpacked into) a full disk or a file size
limit then yields a truncated file without any message: records are lost silently (defect F46:
one.evtx.gz under `ulimit -f 64` printed 0 of 78 records, exit 0, nothing on stderr).

For every `BufWriter::<File>::new` in the shipped program: every path from the construction to a block
that builds the function's `Ok(..)` result passes through `Write::flush` / `BufWriter::into_inner` on
that writer, and the result of that call is inspected (matched / `?`), not dropped.
"""
from mir import CheckerError, op_place, place_local


def _root(body, op, depth=0):
    """the named local a `&mut x` / reborrow operand points at"""
    pl = op_place(op)
    if pl is None:
        return None
    l = place_local(pl)
    if body.local_name(l) or depth > 6:
        return l
    for (bb, i, rv) in body.defs.get(l, []):
        if i == "call":
            continue
        if rv[0] == "ref":
            tl = place_local(rv[2])
            if body.local_name(tl):
                return tl
            r = _root(body, ("mv", rv[2]), depth + 1)
            if r is not None:
                return r
        elif rv[0] == "use":
            r = _root(body, rv[1], depth + 1)
            if r is not None:
                return r
    return l


def _named_holder(body, c):
    """the user variable the constructed writer is moved into (`let mut bufwriter = BufWriter::new(..)`)"""
    l = place_local(c.dest)
    if body.local_name(l):
        return l
    for bb in sorted(body.live):
        for s in body.blocks[bb]["s"]:
            if s[0] == "=" and s[2][0] == "use" and op_place(s[2][1]) == [l] and len(s[1]) == 1:
                return s[1][0]
    return l


def _result_inspected(body, c):
    """the call's result is matched on / passed to `?` (a `let _ =` or an unused temporary is not)"""
    d = place_local(c.dest)
    for bb in sorted(body.live):
        for s in body.blocks[bb]["s"]:
            if s[0] == "=" and s[2][0] == "discr" and place_local(s[2][1]) == d:
                return True
        t = body.blocks[bb]["t"]
        if t[0] == "call":
            for a in t[2]:
                pl = op_place(a)
                if pl is not None and place_local(pl) == d and ("Try" in t[1].get("o", "") or "branch" in t[1].get("d", "")):
                    return True
    return False


def check(prog, only=None):
    res = []
    for b in prog.bodies():
        p = b.path
        if not (p.startswith("s4::") or p.startswith("s4lib::")) or "_tests" in p:
            continue
        if only and not only(p):
            continue
        news = [c for c in b.live_calls() if "BufWriter::<std::fs::File>" in c.f and c.f.endswith("::new")]
        if not news:
            continue
        oks = [bb for bb in sorted(b.live) for s in b.blocks[bb]["s"]
               if s[0] == "=" and s[1] == [0] and s[2][0] == "agg" and isinstance(s[2][1], dict) and s[2][1].get("variant") == "Ok"]
        flushes = [c for c in b.live_calls() if (c.o in ("std::io::Write::flush",) and "BufWriter<std::fs::File>" in (c.callee.get("self") or c.f))
                   or ("BufWriter::<std::fs::File>" in c.f and c.f.endswith("::into_inner"))]
        for n in news:
            holder = _named_holder(b, n)
            mine = [fl for fl in flushes if _root(b, fl.args[0]) == holder]
            checked = [fl for fl in mine if _result_inspected(b, fl)]
            reach_ok = [bb for bb in oks if b.reaches(n.bb, bb)]
            bad = [bb for bb in reach_ok if not b.must_pass(n.bb, bb, [fl.bb for fl in checked])]
            res.append({"fn": p, "line": n.line, "writer": b.local_name(holder) or "_%d" % holder, "flush_calls": len(mine), "checked_flush_calls": len(checked),
                        "ok_returns_reachable": len(reach_ok), "ok_returns_without_checked_flush": [b.blocks[x].get("l") for x in bad],
                        "escapes": not reach_ok})
    return res
