"""Sign-and-magnitude rendering of a signed second count.

`±HH:MM` is written from the sign and the *absolute* value.  Splitting the signed count itself with
/ % div_euclid rem_euclid gives wrong digits for negative offsets with a minute part (-03:30 comes
out as -04:30 with floor division, or as -03:-30 with truncating division)."""
from mir import op_local

SIGNED_SRC = ("local_minus_utc", "utc_minus_local")
ABS = ("abs", "unsigned_abs", "wrapping_abs", "checked_abs", "saturating_abs", "abs_diff")
SPLIT_CALLS = ("div_euclid", "rem_euclid", "checked_div", "checked_rem", "div_floor", "div", "rem")
SPLIT_OPS = ("Div", "Rem")


def _signed(b, op, depth=0, seen=None):
    """True when the operand may carry the raw signed count (no magnitude taken on the way)"""
    if op[0] == "k" or depth > 30:
        return False
    seen = seen if seen is not None else set()
    l = op_local(op)
    if l is None or l in seen:
        return False
    seen.add(l)
    ds = b.defs.get(l, [])
    if len(ds) > 1 and any(idx != "call" and rv[0] == "un" and rv[1] == "Neg" for _bb, idx, rv in ds):
        return False        # `if x < 0 { -x } else { x }` : a magnitude
    for _bb, idx, rv in ds:
        if idx == "call":
            nm = (rv.o or rv.d).split("::")[-1]
            if nm in SIGNED_SRC:
                return True
            if nm in ABS:
                continue
            if nm in SPLIT_CALLS or nm in ("into", "from", "clone", "try_into", "unwrap", "wrapping_div", "wrapping_rem"):
                if any(_signed(b, a, depth + 1, seen) for a in rv.args):
                    return True
            continue
        k = rv[0]
        if k == "use" and _signed(b, rv[1], depth + 1, seen):
            return True
        if k == "cast" and _signed(b, rv[2], depth + 1, seen):
            return True
        if k == "bin" and (_signed(b, rv[2], depth + 1, seen) or _signed(b, rv[3], depth + 1, seen)):
            return True
        if k == "un" and _signed(b, rv[2], depth + 1, seen):
            return True
    return False


def splits_of_signed(b):
    """[(line, op)] division/remainder applied to a raw signed second count in body b"""
    out = []
    if not any((c.o or c.d).split("::")[-1] in SIGNED_SRC for c in b.live_calls()):
        return None
    for c in b.live_calls():
        nm = (c.o or c.d).split("::")[-1]
        if nm in SPLIT_CALLS and c.args and _signed(b, c.args[0]):
            out.append((c.line, nm))
    for bb in sorted(b.live):
        for st in b.stmts(bb):
            if st[0] == "=" and st[2][0] == "bin" and st[2][1].replace("WithOverflow", "").replace("Unchecked", "") in SPLIT_OPS and _signed(b, st[2][2]):
                out.append((st[3], st[2][1]))
    return out
