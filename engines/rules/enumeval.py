"""Evaluate small boolean functions of enum-valued fields (const fn has_x(&self) -> bool { match self.f {..} })
for a given assignment field -> variant index, by interpreting their MIR.  Used to tabulate a predicate over
the rows of a const table.  Anything outside this tiny fragment fails closed."""
from mir import CheckerError, op_local, _proj_key


class Unknown(Exception):
    pass


def eval_bool(prog, path, env, depth=0):
    b = prog.body(path)
    vals = {}
    bb = 0
    steps = 0

    def val_of(op):
        if op[0] == "k":
            return op[2]
        pl = op[1]
        if len(pl) == 1 and pl[0] in vals:
            return vals[pl[0]]
        raise Unknown("%s: value of %s not tracked" % (path, pl))
    while steps < 400:
        steps += 1
        for s in b.stmts(bb):
            if s[0] != "=":
                continue
            dst = s[1]
            rv = s[2]
            if len(dst) != 1:
                continue
            d = dst[0]
            if rv[0] == "use":
                try:
                    vals[d] = val_of(rv[1])
                except Unknown:
                    vals.pop(d, None)
            elif rv[0] == "discr":
                names = [k for k in (_proj_key(e) for e in rv[1][1:]) if isinstance(k, str) and k not in ("*", "&")]
                fld = names[-1] if names else None
                if fld in env:
                    vals[d] = ("discr", env[fld])
                else:
                    vals.pop(d, None)
            elif rv[0] == "un" and rv[1] == "Not":
                try:
                    vals[d] = not val_of(rv[2])
                except Unknown:
                    vals.pop(d, None)
            else:
                vals.pop(d, None)
        t = b.term(bb)
        k = t[0]
        if k == "ret":
            if 0 in vals and isinstance(vals[0], bool):
                return vals[0]
            raise Unknown("%s: return value not a known bool" % path)
        if k == "goto":
            bb = t[1]
        elif k == "switch":
            v = val_of(t[1])
            if isinstance(v, tuple) and v[0] == "discr":
                v = v[1]
            v = int(v)
            nxt = None
            for val, tgt in t[2]:
                if int(val) == v:
                    nxt = tgt
            bb = nxt if nxt is not None else t[3]
        elif k == "call":
            callee = t[1].get("d", "")
            dest = t[3]
            if depth < 4 and prog.body(callee, required=False) is not None and callee.startswith("s4lib::") and len(dest) == 1 and \
                    str(b.local_ty(dest[0])) == "bool":
                vals[dest[0]] = eval_bool(prog, callee, env, depth + 1)
            elif len(dest) == 1:
                vals.pop(dest[0], None)
            if t[4] is None:
                raise Unknown("%s: diverging call" % path)
            bb = t[4]
        elif k in ("drop", "assert"):
            bb = t[2] if k == "drop" else t[3]
        else:
            raise Unknown("%s: terminator %s" % (path, k))
    raise Unknown("%s: too many steps" % path)
